"""C14  Field cross-references are recorded on the field that is accessed (DESIGN §7 C14)."""
from contracts import xrefsuite as S, xrefworld as X
from pyvc.core import And, Eq, Implies, Ite, Not, Or
from pyvc.unit import unit

ANA = S.ANA
META = {
    "technique": 'contract-based deductive verification: symbolic execution of the real functions against sidecar contracts (z3/cvc5) for the proved units; bounded contract evaluation (enumerated scope / independent writer) for the rest',
    "level": "other",
    "partial": True,
    "level_text": "Bounded on REAL DEX files (independent writer, real parser, real Analysis, merged or split): reads / writes of a class's own fields (incl. two fields of one name and different types) are recorded exactly on the field and in the method. Proof: _create_xref on a stub method whose instruction has a symbolic opcode (all 256 values): exactly "
                  "0x52-0x58/0x60-0x66 record a read and 0x59-0x5f/0x67-0x6d a write, with the offset, in the accessing method's "
                  "list and in a FieldAnalysis of the accessed EncodedField, and nothing else; ClassAnalysis.add_field_xref_read/"
                  "write add to the FieldAnalysis keyed by the field. Bounded: on every enumerated world the FieldAnalysis returned "
                  "by Analysis.get_field_analysis(field) must hold the access and every defined field must have exactly one "
                  "FieldAnalysis. Two known findings (known_findings.json) are split off by their characterising predicates.",
    "trusted": ["stub DEX world (contracts/xrefworld.py)"],
    "explanation": "opcode dispatch proved (symbolic opcode); placement of the FieldAnalysis bounded, with known findings: " + S.NOTE,
    "assumptions": [],
}


@unit("C14", covers=[(ANA, "Analysis._create_xref"), (ANA, "ClassAnalysis.add_field_xref_read"), (ANA, "ClassAnalysis.add_field_xref_write"),
                     (ANA, "FieldAnalysis.add_xref_read"), (ANA, "FieldAnalysis.add_xref_write"), (ANA, "MethodAnalysis.add_xref_read"),
                     (ANA, "MethodAnalysis.add_xref_write")], samples=256)
def field_opcodes(U):
    op = U.int("op", 0, 255)
    ana = U.mod(ANA)
    vms, index = X.make_world(S.SPLITS[0])
    vm = vms[0]
    mA = index["LA;"].methods[0]
    vm.types.append("LB;")
    vm.methods.append(("LB;", "m1", "()V"))
    vm.strings.append("s1")
    vm.fields.append(("LA;", "f", "I"))          # a field of the accessing class itself
    mA.ins.append((6, X.Ins(op, 0, vm.holder)))
    dx = ana.Analysis()
    dx.add(vm)
    o = U.call(dx.create_xref)
    U.ensures("does not raise", o.ok, exc=repr(o.exc))
    if not o.ok:
        return
    v = S.view(dx)
    me = v["methods"][S.A_M1]
    f = v["fields"][("LA;", "f", "I")]
    opc = op if isinstance(op, int) else op.concretize()
    acc = [(("LA;", False), S.A_M1, 6)]
    if opc in X.FIELD_READ:
        U.ensures("iget*/sget*: a read, with offset, on the field and in the method", f["read"] == acc and f["write"] == [] and
                  me["read"] == [(("LA;", "f", "I"), 6)] and me["write"] == [], got=f)
    elif opc in X.FIELD_WRITE:
        U.ensures("iput*/sput*: a write, with offset, on the field and in the method", f["write"] == acc and f["read"] == [] and
                  me["write"] == [(("LA;", "f", "I"), 6)] and me["read"] == [], got=f)
    else:
        U.ensures("not a field opcode: no field xref", f["read"] == [] and f["write"] == [] and me["read"] == [] and me["write"] == [],
                  op=opc)
    U.ensures("no FieldAnalysis is duplicated", all(x["n"] == 1 for x in v["fields"].values()))


@unit("C14", covers=[(ANA, "Analysis._create_xref"), (ANA, "Analysis.get_field_analysis"), (ANA, "Analysis.get_fields"),
                     (ANA, "ClassAnalysis.get_field_analysis")], params=S.PARAMS, level="bounded", note=S.NOTE)
def recorded_on_the_field(U, chunk):
    g = U.given or {"split": 0, "order": 0, "a": 30, "b": 0}
    U.drawn.update(g)
    o = U.call(S.build, U, g)
    U.ensures("analysis does not raise", o.ok, exc=repr(o.exc), **g)
    if not o.ok:
        return
    dx, vms, index, prog = o.value
    v = S.view(dx)
    me = v["methods"][S.A_M1]
    split = S.SPLITS[g["split"]]
    dex_of = {c: i for i, names in enumerate(split) for c in names}
    acc_read, acc_write = [], []
    for off, kind, tgt in prog:
        if kind in ("read", "write") and tuple(tgt) in S.DEFINED_F:
            other_class = tgt[0] != "LA;"
            other_dex = dex_of[tgt[0]] != dex_of["LA;"]
            fobj = [f for f in index[tgt[0]].fields if f.get_name() == tgt[1]][0]
            fa = dx.get_field_analysis(fobj)
            have = set() if fa is None else {(S.ckey(c), S.mkey(m), o2) for c, m, o2 in
                                              (fa.get_xref_read(True) if kind == "read" else fa.get_xref_write(True))}
            U.ensures("the FieldAnalysis of the accessed field lists the accessing method and offset as a %s" % kind,
                      (("LA;", False), S.A_M1, off) in have,
                      unless=[U.known("KF-C14-1", other_class and not other_dex), U.known("KF-C14-2", other_dex)],
                      field=tgt, have=sorted(have), **g)
            if not other_dex:
                (acc_read if kind == "read" else acc_write).append((tuple(tgt), off))
            else:
                U.ensures("the accessing method lists a field of another DEX", (tuple(tgt), off) in (me["read"] if kind == "read" else me["write"]),
                          unless=[U.known("KF-C14-2", other_dex)], field=tgt, **g)
    U.ensures("the accessing method lists exactly the fields it reads", [x for x in me["read"] if (x[0][0] != "LX;")] == sorted(set(acc_read))
              or bool([1 for _, k, t in prog if k == "read" and tuple(t) in S.DEFINED_F and dex_of[t[0]] != dex_of["LA;"]]), got=me["read"], **g)
    U.ensures("the accessing method lists exactly the fields it writes", [x for x in me["write"] if (x[0][0] != "LX;")] == sorted(set(acc_write))
              or bool([1 for _, k, t in prog if k == "write" and tuple(t) in S.DEFINED_F and dex_of[t[0]] != dex_of["LA;"]]), got=me["write"], **g)
    fb = dx.get_field_analysis([f for f in index["LB;"].fields if f.get_name() == "g"][0])
    U.ensures("a field read from its own class in another DEX file is recorded on that field (pool indices are per DEX)",
              fb is not None and {(S.ckey(c), S.mkey(m), o2) for c, m, o2 in fb.get_xref_read(True)} == {(("LB;", False), ("LB;", "m1", "()V", False), 16)},
              got=None if fb is None else sorted((S.ckey(c), S.mkey(m), o2) for c, m, o2 in fb.get_xref_read(True)), **g)
    cross = any(k in ("read", "write") and tuple(t) in S.DEFINED_F and t[0] != "LA;" and dex_of[t[0]] == dex_of["LA;"] for _, k, t in prog)
    U.ensures("each defined field has exactly one FieldAnalysis", all(d["n"] == 1 for d in v["fields"].values()),
              unless=[U.known("KF-C14-1", cross)], counts={str(k): d["n"] for k, d in v["fields"].items() if d["n"] != 1}, **g)
    U.ensures("undefined (external) fields get no FieldAnalysis", all(k in S.DEFINED_F for k in v["fields"]), **g)


recorded_on_the_field.enumerate_inputs = lambda tier, chunk: S.enum_inputs(tier, chunk)


from contracts import xrefreal as XR  # noqa: E402
import random as _random  # noqa: E402


@unit("C14", covers=[(ANA, "Analysis._create_xref"), (ANA, "Analysis.get_field_analysis"), (ANA, "Analysis.get_fields")],
      level="bounded", samples=60, note=XR.NOTE + "; field accesses are to fields of the accessing class (outside the known findings)")
def real_dex_field_xrefs(U):
    seed = U.int("seed", 0, 1 << 30)
    rng = _random.Random(seed)
    classes = XR.model(rng)
    groups = rng.choice(list(XR.splits(classes)))
    o = U.call(XR.analyse, U, classes, groups)
    U.ensures("analysis does not raise", o.ok, exc=repr(o.exc)[:200])
    if not o.ok:
        return
    exp, defined = XR.expected(classes)
    v = S.view(o.value)
    for fk, d in v["fields"].items():
        U.ensures("each declared field has exactly one FieldAnalysis", d["n"] == 1, field=fk, n=d["n"])
        for kind in ("read", "write"):
            got = {(m2[:3], off) for _, m2, off in d[kind]}
            U.ensures("a field lists exactly the instructions that %s it, with the accessing method and offset" % kind,
                      got == exp[kind].get(fk, set()), field=fk, got=sorted(got), want=sorted(exp[kind].get(fk, set())), groups=groups)
    U.ensures("every declared field is known", {f for c in classes for f in ((c["name"], "f", "I"), (c["name"], "f", "J"), (c["name"], "s", "I"))} <= set(v["fields"]),
              got=sorted(v["fields"]))
    for mk, d in v["methods"].items():
        if mk[3]:
            continue
        for kind in ("read", "write"):
            want = {(fk, off) for fk, sites in exp[kind].items() for (me, off) in sites if me == mk[:3]}
            U.ensures("a method lists exactly the fields it %ss" % kind, set(d[kind]) == want, method=mk[:3], got=sorted(d[kind]), want=sorted(want))
