"""C39  API-level resources follow the documented fallback rule (DESIGN §7 C39)."""
import io
import json
import os
import re

from pyvc.core import And, Eq, Implies, Ite, Not, Or, SymInt
from pyvc.text import atoms
from pyvc.unit import unit

API = "androguard/core/api_specific_resources/__init__.py"
CONF = "androguard/core/androconf.py"
META = {
    "level": "proof",
    "level_text": "load_permissions / load_permission_mappings / load_api_specific_resource_module are executed with a symbolic "
                  "integer API level (any 32-bit value) against an explicit environment model: the directory holds exactly the "
                  "level files of a level set L (several families incl. the repository's real directory listing), isfile/open/json "
                  "answer from L. Every path's result is proved to be the data of sel(a, L) (a if present, else highest below, else "
                  "lowest/highest when outside the range); the mapping loader falls back to the default level. String requests and "
                  "the closed range -5..100 on the real directory are evaluated concretely (exhaustive for the stated quantifier).",
    "trusted": ["environment model: os.listdir/os.path.isfile/open/json.load answer from the level set L (no other files matter: "
                "the code filters names with ^permissions_\\d+\\.json$)", "int() of a decimal string is its value"],
    "assumptions": ["level sets are the enumerated families {16}, {4,16,28}, {5,6,7,10}, {1,2}, real directory; the fallback logic "
                    "only uses min/max/filter over L"],
}

FAMILIES = {"single": [16], "three": [4, 16, 28], "gaps": [5, 6, 7, 10], "low": [1, 2]}


def _real_levels(sub):
    d = os.path.join(os.environ.get("VERIF_REPO", "/repo"), "androguard/core/api_specific_resources", sub)
    return sorted(int(x[:-5].split("_")[1]) for x in os.listdir(d) if re.match(r"^permissions_\d+\.json$", x))


def _level_of(path):
    """the integer N of .../permissions_N.json (an int, a proxy, or None)"""
    at = atoms(path)
    txt = "".join(chr(a) if isinstance(a, int) else "\x01" for a in at)
    holes = [a for a in at if isinstance(a, tuple)]
    mt = re.search(r"permissions_(\x01|-?\d+)\.json$", txt)
    if not mt:
        return None
    if mt.group(1) == "\x01":
        return holes[-1][1] if holes and holes[-1][0] == "d" else None
    return int(mt.group(1))


class _Env:
    """explicit environment: directory `sub` holds permissions_<l>.json for l in levels (+ distractors)"""

    def __init__(self, levels, sub):
        self.levels, self.sub = levels, sub
        self.opened = []

    # --- os.path / os
    def isfile(self, p):
        lv = _level_of(p)
        if lv is None:
            return False
        for l in self.levels:
            if lv == l:        # forks on a proxy level
                return True
        return False

    def listdir(self, d):
        return ["permissions_%d.json" % l for l in self.levels] + ["README", "permissions_x.json", "permissions_3.json.bak"]

    def open(self, p, mode="r"):
        lv = _level_of(p)
        for l in self.levels:
            if lv == l:
                self.opened.append(l)
                return io.StringIO(json.dumps({"permissions": {"lvl": l, "kind": "p"}, "groups": {"lvl": l, "kind": "g"},
                                               "lvl": l}))
        raise FileNotFoundError(p)


class _PathShim:
    def __init__(self, env):
        self.env = env

    def isfile(self, p):
        return self.env.isfile(p)

    def __getattr__(self, n):
        return getattr(os.path, n)


class _OsShim:
    def __init__(self, env):
        self.env, self.path = env, _PathShim(env)

    def listdir(self, d):
        return self.env.listdir(d)

    def __getattr__(self, n):
        return getattr(os, n)


def _install(U, m, env):
    saved = (m.os, m.__dict__.get("open"))
    m.os = _OsShim(env)
    m.open = env.open
    if not U.substitutions:
        U.substitutions.append("%s.os/open := explicit environment model (level files of L)" % m.__name__)
    return saved


def _restore(m, saved):
    m.os = saved[0]
    if saved[1] is None:
        del m.open
    else:
        m.open = saved[1]


def sel(a, L):
    """the documented rule"""
    L = sorted(L)
    r = L[0]                       # a < min L
    for l in L:
        r = Ite(a >= l, l, r)      # highest level <= a  (a present -> a itself; a > max -> max)
    return r


PARAMS = [{"fam": f, "permtype": t} for f in list(FAMILIES) + ["real"] for t in ("permissions", "groups")]


@unit("C39", covers=[(API, "load_permissions")], params=PARAMS, samples=60)
def load_permissions(U, fam, permtype):
    m = U.mod(API)
    L = FAMILIES.get(fam) or _real_levels("aosp_permissions")
    a = U.int("api", -(1 << 31), (1 << 31) - 1)
    env = _Env(L, "aosp_permissions")
    saved = _install(U, m, env)
    try:
        o = U.call(m.load_permissions, a, permtype)
    finally:
        _restore(m, saved)
    U.ensures("does not raise", o.ok, exc=repr(o.exc))
    if o.ok:
        U.ensures("data of the selected level (requested, else highest below, else lowest/highest available)",
                  And(isinstance(o.value, dict) and o.value.get("kind") == permtype[0], o.value.get("lvl") == sel(a, L)),
                  got=o.value.get("lvl") if isinstance(o.value, dict) else None, api=a if U.mode == "conc" else None)


@unit("C39", covers=[(API, "load_permissions")])
def load_permissions_bad_type(U):
    m = U.mod(API)
    o = U.call(m.load_permissions, 16, "nonsense")
    U.ensures("unknown permission list type is refused", o.raised(ValueError))


@unit("C39", covers=[(API, "load_permission_mappings")], params=[{"fam": f} for f in ("single", "three", "real")], samples=60)
def load_permission_mappings(U, fam):
    m = U.mod(API)
    L = FAMILIES.get(fam) or _real_levels("api_permission_mappings")
    a = U.int("api", -(1 << 31), (1 << 31) - 1)
    env = _Env(L, "api_permission_mappings")
    saved = _install(U, m, env)
    try:
        o = U.call(m.load_permission_mappings, a)
    finally:
        _restore(m, saved)
    present = Or(*[a == l for l in L])
    U.ensures("does not raise", o.ok, exc=repr(o.exc))
    if o.ok:
        U.ensures("mapping of exactly the requested level, or {} when missing",
                  Ite(present, (o.value.get("lvl") == a) if o.value else False, o.value == {}))


@unit("C39", covers=[(CONF, "load_api_specific_resource_module")], params=[{"res": r} for r in ("aosp_permissions", "api_permission_mappings")],
      samples=60)
def resource_module(U, res):
    """dispatch + default-level fallback, with the two loaders under their contracts (stubs)"""
    m = U.mod(CONF)
    a = U.int("api", -(1 << 31), (1 << 31) - 1)
    L = [4, 16, 17, 21]      # lowest level differs from the default level (16)
    DEFAULT = m.CONF["DEFAULT_API"]
    calls = []

    def perms(api, permtype="permissions"):
        calls.append(("p", api))
        return {"lvl": sel(api, L), "kind": "p"}

    def maps(api):
        calls.append(("m", api))
        for l in L:
            if api == l:
                return {"lvl": l, "kind": "m"}
        return {}

    saved = (m.load_permissions, m.load_permission_mappings)
    m.load_permissions, m.load_permission_mappings = perms, maps
    try:
        o = U.call(m.load_api_specific_resource_module, res, a)
        n = U.call(m.load_api_specific_resource_module, res, None)
        e = U.call(m.load_api_specific_resource_module, res, "")
        bad = U.call(m.load_api_specific_resource_module, "nonsense", a)
    finally:
        m.load_permissions, m.load_permission_mappings = saved
    U.ensures("does not raise", o.ok and n.ok and e.ok, exc=repr(o.exc))
    U.ensures("unknown resource is refused", bad.raised(m.InvalidResourceError))
    if not (o.ok and n.ok and e.ok):
        return
    if res == "aosp_permissions":
        U.ensures("permissions: the requested level goes through the fallback rule (0 is a level)", o.value["lvl"] == sel(a, L),
                  got=o.value["lvl"], api=a if U.mode == "conc" else None)
    else:
        present = Or(*[a == l for l in L])
        U.ensures("mappings: requested level if available, else the default level",
                  o.value["lvl"] == Ite(present, a, DEFAULT), got=o.value.get("lvl"), api=a if U.mode == "conc" else None)
    U.ensures("no level requested: default level", n.value["lvl"] == DEFAULT and e.value["lvl"] == DEFAULT)


def _closed(tier, **_):
    for a in range(-5, 101):
        for s in (False, True):
            yield {"api": a, "as_str": s}


@unit("C39", covers=[(API, "load_permissions"), (API, "load_permission_mappings"), (CONF, "load_api_specific_resource_module")],
      level="bounded", note="every API level -5..100 as int and as str against the repository's real resource directories "
                            "(exhaustive for the property's stated quantifier)")
def real_directory(U):
    m = U.mod(CONF)
    g = U.given or {"api": 17, "as_str": False}
    U.drawn.update(g)
    a = g["api"]
    arg = str(a) if g["as_str"] else a
    Lp, Lm = _real_levels("aosp_permissions"), _real_levels("api_permission_mappings")
    api_mod = U.mod(API)

    def data(sub, lvl):
        root = os.path.dirname(api_mod.__file__)
        with open(os.path.join(root, sub, "permissions_%d.json" % lvl)) as f:
            return json.load(f)

    p = U.call(m.load_api_specific_resource_module, "aosp_permissions", arg)
    want = sel(a, Lp)
    U.ensures("permissions follow the fallback rule", p.ok and p.value == data("aosp_permissions", want)["permissions"],
              api=arg, want_level=want, exc=repr(p.exc))
    q = U.call(m.load_api_specific_resource_module, "api_permission_mappings", arg)
    wm = a if a in Lm else m.CONF["DEFAULT_API"]
    U.ensures("mappings: requested level or default", q.ok and q.value == data("api_permission_mappings", wm), api=arg, want_level=wm)


real_directory.enumerate_inputs = lambda tier, **p: _closed(tier)
