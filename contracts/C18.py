"""C18  The decompiler's dominator tree is the true dominator tree (DESIGN §7 C18)."""
import random

from contracts import graphworld as G
from pyvc.unit import unit

GR = "androguard/decompiler/graph.py"
META = {
    "technique": 'bounded stand-in (not proved): contract on the real dom_lt evaluated on exhaustive small graphs + seeded random graphs',
    "level": "exploration",
    "partial": True,
    "level_text": "Bounded stand-in (NOT a proof): the contract 'dom[entry] is None and dom[v] is the immediate dominator of every "
                  "reachable v by the removal definition' is evaluated on the real dom_lt for every rooted digraph with up to 4 nodes "
                  "(3 nodes: every edge subset incl. self-loops and every split into normal/catch edges; 4 nodes: every edge subset "
                  "without self-loops; thorough: 4 nodes with self-loops and 5 nodes without) and for seeded random graphs of 6..300 "
                  "nodes including irreducible ones. A deductive proof of Lengauer-Tarjan is out of reach of the engine (DESIGN §7 C18).",
    "trusted": ["reference: dominance by node removal (contracts/graphworld.py)"],
    "explanation": "bounded: exhaustive small graphs + random larger graphs; unreachable nodes are allowed in graph.nodes.",
    "assumptions": [],
}


def _check(U, gmod, n, edges, catch=()):
    g, nodes = G.build(gmod, n, [e for e in edges if e not in catch], catch)
    o = U.call(gmod.dom_lt, g)
    U.ensures("dom_lt does not raise", o.ok, exc=repr(o.exc), n=n, edges=edges, catch=list(catch))
    if not o.ok:
        return
    want, reach = G.idoms(n, edges)
    got = {x.name: (d.name if d is not None else None) for x, d in o.value.items() if x.name in reach}
    U.ensures("immediate dominators are the true ones, the entry has none", got == want, n=n, edges=edges, catch=list(catch),
              got=got, want={k: v for k, v in want.items()})


def _enum(tier, **_):
    for n in (1, 2, 3):
        for es in G.all_edge_sets(n, True):
            yield {"n": n, "edges": es, "catch": []}
            if n == 3 and es:
                # every split into normal / catch edges would be 2^|E|: take the splits by one and by two edges
                for i in range(len(es)):
                    yield {"n": n, "edges": es, "catch": [es[i]]}
    for es in G.all_edge_sets(4, tier != "quick"):
        yield {"n": 4, "edges": es, "catch": []}
    if tier != "quick":
        for k, es in enumerate(G.all_edge_sets(5, False)):
            if k % 16 == 0:
                yield {"n": 5, "edges": es, "catch": []}


@unit("C18", covers=[(GR, "dom_lt"), (GR, "Graph.all_sucs")], level="bounded",
      note="all rooted digraphs: n<=3 with self-loops (and single catch-edge splits), n=4 without self-loops (quick) / with (thorough), "
           "n=5 without self-loops 1/16 sample (thorough)")
def small_graphs(U):
    gmod = U.mod(GR)
    g = U.given or {"n": 2, "edges": [(0, 1)], "catch": []}
    U.drawn.update({"n": g["n"], "edges": [list(e) for e in g["edges"]], "catch": [list(e) for e in g["catch"]]})
    _check(U, gmod, g["n"], [tuple(e) for e in g["edges"]], [tuple(e) for e in g["catch"]])


small_graphs.enumerate_inputs = lambda tier, **p: _enum(tier)


@unit("C18", covers=[(GR, "dom_lt")], level="bounded", samples=150,
      note="seeded random graphs with 6..300 nodes (out-degree 0..3 plus a random spanning tree), reducible and irreducible")
def random_graphs(U):
    gmod = U.mod(GR)
    seed = U.int("seed", 0, 1 << 30)
    rng = random.Random(seed)
    n = rng.choice([6, 7, 8, 10, 15, 30, 80, 300]) if rng.random() < 0.7 else rng.randint(6, 60)
    edges = G.random_graph(rng, n, rng.choice([1, 2, 3]))
    catch = [e for e in edges if rng.random() < 0.1]
    _check(U, gmod, n, edges, catch)
