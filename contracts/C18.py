"""C18  The decompiler's dominator tree is the true dominator tree (DESIGN §7 C18)."""
import os
import random

from contracts import graphworld as G
from pyvc.unit import unit

GR = "androguard/decompiler/graph.py"
META = {
    "technique": 'bounded stand-in (not proved): contract on the real dom_lt evaluated on exhaustive small graphs + seeded random graphs',
    "level": "exploration",
    "partial": True,
    "level_text": "Bounded: ALL rooted digraphs on 5 nodes without self-loops and edges into the entry (65536) and 4800 (thorough 48000) seeded random graphs of 6..40 nodes are checked in 16 batch units. Bounded stand-in (NOT a proof): the contract 'dom[entry] is None and dom[v] is the immediate dominator of every "
                  "reachable v by the removal definition' is evaluated on the real dom_lt for every rooted digraph with up to 4 nodes "
                  "(3 nodes: every edge subset incl. self-loops and every split into normal/catch edges; 4 nodes: every edge subset "
                  "without self-loops; thorough: 4 nodes with self-loops and 5 nodes without) and for seeded random graphs of 6..300 "
                  "nodes including irreducible ones. A deductive proof of Lengauer-Tarjan is out of reach of the engine (DESIGN §7 C18).",
    "trusted": ["reference: dominance by node removal (contracts/graphworld.py)"],
    "explanation": "bounded: exhaustive small graphs + random larger graphs; unreachable nodes are allowed in graph.nodes.",
    "assumptions": [],
}


def _check(U, gmod, n, edges, catch=()):
    g, nodes = G.build(gmod, n, [e for e in edges if e not in catch], catch)
    o = U.call(gmod.dom_lt, g)
    U.ensures("dom_lt does not raise", o.ok, exc=repr(o.exc), n=n, edges=edges, catch=list(catch))
    if not o.ok:
        return
    want, reach = G.idoms(n, edges)
    got = {x.name: (d.name if d is not None else None) for x, d in o.value.items() if x.name in reach}
    U.ensures("immediate dominators are the true ones, the entry has none", got == want, n=n, edges=edges, catch=list(catch),
              got=got, want={k: v for k, v in want.items()})


def _enum(tier, **_):
    for n in (1, 2, 3):
        for es in G.all_edge_sets(n, True):
            yield {"n": n, "edges": es, "catch": []}
            if n == 3 and es:
                # every split into normal / catch edges would be 2^|E|: take the splits by one and by two edges
                for i in range(len(es)):
                    yield {"n": n, "edges": es, "catch": [es[i]]}
    for es in G.all_edge_sets(4, tier != "quick"):
        yield {"n": 4, "edges": es, "catch": []}
    if tier != "quick":
        for k, es in enumerate(G.all_edge_sets(5, False)):
            if k % 16 == 0:
                yield {"n": 5, "edges": es, "catch": []}


@unit("C18", covers=[(GR, "dom_lt"), (GR, "Graph.all_sucs")], level="bounded",
      note="all rooted digraphs: n<=3 with self-loops (and single catch-edge splits), n=4 without self-loops (quick) / with (thorough), "
           "n=5 without self-loops 1/16 sample (thorough)")
def small_graphs(U):
    gmod = U.mod(GR)
    g = U.given or {"n": 2, "edges": [(0, 1)], "catch": []}
    U.drawn.update({"n": g["n"], "edges": [list(e) for e in g["edges"]], "catch": [list(e) for e in g["catch"]]})
    _check(U, gmod, g["n"], [tuple(e) for e in g["edges"]], [tuple(e) for e in g["catch"]])


small_graphs.enumerate_inputs = lambda tier, **p: _enum(tier)


@unit("C18", covers=[(GR, "dom_lt")], level="bounded", samples=150,
      note="seeded random graphs with 6..300 nodes (out-degree 0..3 plus a random spanning tree), reducible and irreducible")
def random_graphs(U):
    gmod = U.mod(GR)
    seed = U.int("seed", 0, 1 << 30)
    rng = random.Random(seed)
    n = rng.choice([6, 7, 8, 10, 15, 30, 80, 300]) if rng.random() < 0.7 else rng.randint(6, 60)
    edges = G.random_graph(rng, n, rng.choice([1, 2, 3]))
    catch = [e for e in edges if rng.random() < 0.1]
    _check(U, gmod, n, edges, catch)


@unit("C18", covers=[(GR, "dom_lt"), (GR, "Graph.all_sucs")], level="bounded", params=[{"chunk": c} for c in range(16)], samples=1,
      note="ALL 65536 rooted digraphs on 5 nodes without self-loops and without edges into the entry (an edge into the entry changes no "
           "dominator; self-loops are covered for n <= 4), 4096 per chunk, each also with all edges into one node of in-degree >= 2 as "
           "catch edges (a handler of several blocks); thorough: additionally with one edge of each graph as a catch edge")
def five_node_graphs(U, chunk):
    gmod = U.mod(GR)
    U.drawn.update({"chunk": chunk})
    pairs = [(a, b) for a in range(5) for b in range(1, 5) if a != b]
    tier = os.environ.get("VERIF_TIER", "quick")
    bad, n = [], 0
    for mask in range(chunk, 1 << len(pairs), 16):
        edges = [p for i, p in enumerate(pairs) if mask >> i & 1]
        variants = [()]
        # a handler: one node all of whose incoming edges are catch edges (several blocks of a try region throw to it)
        indeg = {}
        for a, b in edges:
            indeg[b] = indeg.get(b, 0) + 1
        multi = sorted(b for b, d in indeg.items() if d >= 2)
        if multi:
            h = multi[mask % len(multi)]
            variants.append(tuple(e for e in edges if e[1] == h))
        if tier != "quick" and edges:
            variants.append((edges[mask % len(edges)],))
        for catch in variants:
            n += 1
            g, nodes = G.build(gmod, 5, [e for e in edges if e not in catch], catch)
            try:
                res = gmod.dom_lt(g)
            except Exception as e:      # observable outcome
                bad.append((edges, list(catch), repr(e)[:80]))
                continue
            want, reach = G.idoms(5, edges)
            got = {x.name: (d.name if d is not None else None) for x, d in res.items() if x.name in reach}
            if got != want:
                bad.append((edges, list(catch), got, want))
        if len(bad) > 3:
            break
    U.ensures("immediate dominators are the true ones on every 5-node graph of the chunk", not bad, graphs=n, first_failures=bad[:3])


five_node_graphs.enumerate_inputs = lambda tier, **p: iter([{}])
five_node_graphs.conc_timeout = 300


@unit("C18", covers=[(GR, "dom_lt"), (GR, "Graph.all_sucs")], level="bounded", params=[{"chunk": c} for c in range(16)], samples=1,
      note="300 (thorough: 3000) seeded random graphs with 6..40 nodes per chunk (out-degree 0..3 plus a random spanning tree, about one "
           "edge in ten a catch edge; every other graph with 1..3 try regions of 2..6 nodes throwing to one handler): retreating, cross "
           "and irreducible shapes that need more than 5 nodes")
def medium_random_graphs(U, chunk):
    gmod = U.mod(GR)
    U.drawn.update({"chunk": chunk})
    count = 300 if os.environ.get("VERIF_TIER", "quick") == "quick" else 3000
    seed0 = int(os.environ.get("VERIF_SEED", "0") or 0)
    bad = []
    for k in range(count):
        rng = random.Random("c18/%d/%d/%d" % (seed0, chunk, k))
        n = rng.randint(6, 40)
        edges = G.random_graph(rng, n, rng.choice([1, 2, 2, 3]))
        catch = [e for e in edges if rng.random() < 0.1]
        if k % 2:
            # try regions: a handler node and 2..6 nodes (a run of consecutive numbers: mostly a path of the spanning tree, entered
            # from wherever the random edges lead) that all throw to it; handlers may themselves lie in a region
            for _ in range(rng.randint(1, 3)):
                h = rng.randrange(1, n)
                a = rng.randrange(0, n)
                for v in range(a, min(n, a + rng.randint(2, 6))):
                    if v != h and (v, h) not in edges:
                        edges.append((v, h))
                    if v != h and (v, h) not in catch:
                        catch.append((v, h))
        g, nodes = G.build(gmod, n, [e for e in edges if e not in catch], catch)
        try:
            res = gmod.dom_lt(g)
        except Exception as e:
            bad.append((n, edges, repr(e)[:80]))
            continue
        want, reach = G.idoms(n, edges)
        got = {x.name: (d.name if d is not None else None) for x, d in res.items() if x.name in reach}
        if got != want:
            bad.append((n, edges, catch, {v: (got.get(v), want[v]) for v in want if got.get(v) != want[v]}))
        if len(bad) > 2:
            break
    U.ensures("immediate dominators are the true ones on every graph of the chunk", not bad, graphs=count, first_failures=bad[:2])


medium_random_graphs.enumerate_inputs = lambda tier, **p: iter([{}])
medium_random_graphs.conc_timeout = 600
