"""C32  A v1 certificate is reported only if it verifies the signature file (DESIGN §7 C32)."""
import datetime
import hashlib
import random

from pyvc.unit import bare, unit

APKF = "androguard/core/apk/__init__.py"
META = {
    "technique": 'contract-based deductive verification: symbolic execution of the real functions against sidecar contracts (z3/cvc5) for the proved units; bounded contract evaluation (enumerated scope / independent writer) for the rest',
    "level": "other",
    "partial": True,
    "level_text": "Guard structure by exhaustive path enumeration on opaque ASN.1 stand-ins: verify_signer_info_against_sig_file "
                  "returns a certificate only through verify_signature, called on the .SF bytes when there are no signed attributes "
                  "and on 0x31||signed_attrs[1:] -- and only after the messageDigest attribute equalled the digest of the .SF -- when "
                  "there are; a missing certificate / duplicate or missing attributes raise; get_certificate_der reports the first "
                  "verified SignerInfo's certificate, None on any error. Bounded end-to-end (real asn1crypto + cryptography): generated "
                  "RSA and EC signed PKCS#7 blocks (SHA-1/SHA-256, with and without signed attributes) are reported, and every listed "
                  "alteration (each byte of a short .SF, signature bytes, messageDigest, serial number of the sid, wrong key) "
                  "yields no certificate.",
    "trusted": ["cryptography: public_key.verify returns normally iff the signature verifies", "asn1crypto parsing", "hashlib"],
    "explanation": "decision structure proved by enumeration over opaque stand-ins (proof modulo library contracts); end-to-end bounded.",
    "assumptions": ["collision / forgery resistance of the hash and signature schemes (an altered .SF changes the digest or the "
                    "verified data)"],
}


# ----------------------------------------------------------------------------------------------- opaque stand-ins
class _Native:
    def __init__(self, v):
        self.native = v


class _Type:
    def __init__(self, dotted):
        self.dotted = dotted


class _Attrs(list):
    def __init__(self, items, native=True):
        super().__init__(items)
        self.native = [1] if (items or native) and items else []

    def dump(self):
        return b"\xa0ATTRS"


def _signer_info(attrs, alg="sha256"):
    return {"signed_attrs": attrs, "digest_algorithm": {"algorithm": _Native(alg)}, "signature": _Native(b"SIG"), "sid": None}


CT, MD = "1.2.840.113549.1.9.3", "1.2.840.113549.1.9.4"


@unit("C32", covers=[(APKF, "APK.verify_signer_info_against_sig_file"), (APKF, "APK.get_hash_algorithm")])
def guard_structure(U):
    m = U.mod(APKF)
    sf = b"Signature-Version: 1.0\n"
    has_attrs = U.choice("has_attrs", [False, True])
    cert_found = U.choice("cert_found", [True, False])
    ct = U.choice("content_type", ["ok", "missing", "mismatch"])
    md = U.choice("digest", ["ok", "missing", "mismatch", "duplicate"])
    verifies = U.choice("verifies", [True, False])
    max_sdk = U.choice("max_sdk", [None, 23])
    attrs = []
    if has_attrs:
        if ct != "missing":
            attrs.append({"type": _Type(CT), "values": [_Native("data" if ct == "ok" else "other")]})
        if md != "missing":
            dg = hashlib.sha256(sf).digest() if md != "mismatch" else b"\0" * 32
            attrs.append({"type": _Type(MD), "values": [_Native(dg)]})
            if md == "duplicate":
                attrs.append({"type": _Type(MD), "values": [_Native(dg)]})
    if has_attrs and not attrs:
        return          # an empty attribute set is "no signed attributes" (covered by has_attrs = False)
    si = _signer_info(_Attrs(attrs))
    signed_data = {"content": {"encap_content_info": {"content_type": _Native("data")}}}
    a = bare(m.APK)
    calls = []
    a.find_certificate = lambda certs, s: ("CERT" if cert_found else None)

    def fake_verify(signer_info, cert, data, halg):
        calls.append((cert, bytes(data), halg))
        return b"CERT-DER" if verifies else None
    a.verify_signature = fake_verify
    o = U.call(a.verify_signer_info_against_sig_file, signed_data, ["certs"], si, sf, max_sdk)
    if not cert_found:
        U.ensures("unknown certificate reference is an error", o.raised(ValueError) and not calls)
        return
    if not has_attrs:
        U.ensures("no signed attributes: the signature is verified over the .SF itself, result passed on",
                  o.ok and len(calls) == 1 and calls[0][1] == sf and o.value == (b"CERT-DER" if verifies else None))
        return
    ct_checked = max_sdk is None or max_sdk >= 24
    if md == "duplicate":
        U.ensures("duplicate signed attribute is an error", o.raised(ValueError) and not calls)
        return
    if ct_checked and ct == "missing":
        U.ensures("missing content type is an error", o.raised(ValueError) and not calls)
        return
    if ct_checked and ct == "mismatch":
        U.ensures("content type mismatch: no certificate, signature not even checked", o.ok and o.value is None and not calls)
        return
    if md == "missing":
        U.ensures("missing message digest is an error", o.raised(ValueError) and not calls)
        return
    if md == "mismatch":
        U.ensures("digest of the .SF differs from the signed attribute: no certificate", o.ok and o.value is None and not calls)
        return
    U.ensures("signed attributes: verified over 0x31 || attrs[1:] only after the .SF digest matched, result passed on",
              o.ok and len(calls) == 1 and calls[0][1] == b"\x31ATTRS" and o.value == (b"CERT-DER" if verifies else None),
              calls=[c[1] for c in calls], exc=repr(o.exc))


class _SIList(list):
    pass


@unit("C32", covers=[(APKF, "APK.get_certificate_der")])
def first_verified_signer(U):
    m = U.mod(APKF)
    outcomes = [U.choice("s0", ["cert0", "none", "error"]), U.choice("s1", ["cert1", "none"])]
    minsdk = U.choice("minsdk", [None, "21", "24"])
    a = bare(m.APK)
    a.get_file = lambda n: b"FILE:" + n.encode()
    a.get_min_sdk_version = lambda: minsdk
    seen = []

    def fake(signed_data, certs, si, sf, max_sdk):
        seen.append((si, sf))
        oc = outcomes[si]
        if oc == "error":
            raise ValueError("bad")
        return None if oc == "none" else oc.encode()
    a.verify_signer_info_against_sig_file = fake

    class _CI:
        @staticmethod
        def load(b):
            return {"content": {"signer_infos": [0, 1], "certificates": ["c"]}}
    saved = m.cms
    m.cms = type("cms", (), {"ContentInfo": _CI})
    # signature block names: the base name is everything in front of the LAST dot (dots in the base name and in directories)
    block, sf_name = U.choice("block", [("META-INF/CERT.RSA", "META-INF/CERT.SF"), ("META-INF/CERT.V1.RSA", "META-INF/CERT.V1.SF"),
                                        ("META-INF/A.B.C.DSA", "META-INF/A.B.C.SF"), ("META-INF/sub.dir/X.EC", "META-INF/sub.dir/X.SF")])
    try:
        o = U.call(a.get_certificate_der, block)
    finally:
        m.cms = saved
    U.ensures("does not raise", o.ok, exc=repr(o.exc))
    if not o.ok:
        return
    U.ensures("the .SF with the same base name is the one checked", all(sf == b"FILE:" + sf_name.encode() for _, sf in seen), block=block,
              got=[sf for _, sf in seen][:2])
    tried = [0] if minsdk in (None, "21") else [0, 1]
    if outcomes[0] == "error":
        want = None
    else:
        verified = [outcomes[i] for i in tried if outcomes[i] not in ("none", "error")]
        want = verified[0].encode() if verified else None
    U.ensures("reports the first SignerInfo that verified (only the first one is tried before Android N); None otherwise",
              o.value == want, got=o.value, want=want, tried=[s for s, _ in seen])


# ----------------------------------------------------------------------------------------------- end to end
_KEYS = {}


def _material(kind):
    if kind in _KEYS:
        return _KEYS[kind]
    from cryptography import x509 as cx509
    from cryptography.hazmat.primitives import hashes, serialization
    from cryptography.hazmat.primitives.asymmetric import ec, rsa
    from cryptography.x509.oid import NameOID
    key = rsa.generate_private_key(65537, 1024) if kind == "rsa" else ec.generate_private_key(ec.SECP256R1())
    name = cx509.Name([cx509.NameAttribute(NameOID.COMMON_NAME, "verif-%s" % kind)])
    now = datetime.datetime(2024, 1, 1)
    cert = (cx509.CertificateBuilder().subject_name(name).issuer_name(name).public_key(key.public_key())
            .serial_number(1234567 if kind == "rsa" else 7654321).not_valid_before(now)
            .not_valid_after(now + datetime.timedelta(days=3650)).sign(key, hashes.SHA256()))
    _KEYS[kind] = (key, cert.public_bytes(serialization.Encoding.DER))
    return _KEYS[kind]


def _pkcs7(kind, halg, with_attrs, sf, tamper=None, embed=False):
    from asn1crypto import cms, core, x509 as ax509, algos
    from cryptography.hazmat.primitives import hashes
    from cryptography.hazmat.primitives.asymmetric import ec, padding
    key, cert_der = _material(kind)
    cert = ax509.Certificate.load(cert_der)
    H = {"sha1": hashes.SHA1, "sha256": hashes.SHA256}[halg]
    attrs = None
    to_sign = sf
    if with_attrs:
        digest = hashlib.new(halg, sf).digest()
        if tamper == "digest":
            digest = bytes([digest[0] ^ 1]) + digest[1:]
        attrs = cms.CMSAttributes([
            cms.CMSAttribute({"type": "content_type", "values": ["data"]}),
            cms.CMSAttribute({"type": "message_digest", "values": [digest]}),
        ])
        to_sign = b"\x31" + attrs.dump()[1:]
    if tamper == "wrong_key":
        other, _ = _material("rsa2" if kind == "rsa" else "ec2") if False else (None, None)
    if kind == "rsa":
        sig = key.sign(to_sign, padding.PKCS1v15(), H())
        sig_alg = {"algorithm": "rsassa_pkcs1v15"}
    else:
        sig = key.sign(to_sign, ec.ECDSA(H()))
        sig_alg = {"algorithm": "%s_ecdsa" % halg}
    if tamper == "signature":
        sig = sig[:-1] + bytes([sig[-1] ^ 0x01])
    serial = cert.serial_number + (1 if tamper == "serial" else 0)
    si = {"version": "v1",
          "sid": cms.SignerIdentifier({"issuer_and_serial_number": cms.IssuerAndSerialNumber({"issuer": cert.issuer, "serial_number": serial})}),
          "digest_algorithm": {"algorithm": halg}, "signature_algorithm": sig_alg, "signature": sig}
    if attrs is not None:
        si["signed_attrs"] = attrs
    sd = cms.SignedData({"version": "v1", "digest_algorithms": [{"algorithm": halg}],
                         "encap_content_info": {"content_type": "data", "content": sf} if embed else {"content_type": "data"},
                         "certificates": [cert], "signer_infos": [cms.SignerInfo(si)]})
    return cms.ContentInfo({"content_type": "signed_data", "content": sd}).dump(), cert_der


def _enum(tier, **_):
    for kind in ("rsa", "ec"):
        for halg in ("sha256", "sha1"):
            for wa in (False, True):
                yield {"kind": kind, "halg": halg, "attrs": wa, "tamper": None, "pos": 0}
                for t in ("signature", "serial") + (("digest",) if wa else ()):
                    yield {"kind": kind, "halg": halg, "attrs": wa, "tamper": t, "pos": 0}
                for pos in range(0, 40, 1 if tier != "quick" else 3):
                    yield {"kind": kind, "halg": halg, "attrs": wa, "tamper": "sf", "pos": pos}
                # non-detached block (the signed content is also embedded, RFC 5652 eContent): the certificate still has to
                # verify the APK's signature file, not the embedded copy
                yield {"kind": kind, "halg": halg, "attrs": wa, "tamper": None, "pos": 0, "embed": True}
                for pos in (0, 17, 39):
                    yield {"kind": kind, "halg": halg, "attrs": wa, "tamper": "sf", "pos": pos, "embed": True}


@unit("C32", covers=[(APKF, "APK.get_certificate_der"), (APKF, "APK.verify_signer_info_against_sig_file"), (APKF, "APK.verify_signature"),
                     (APKF, "APK.find_certificate")], level="bounded",
      note="generated PKCS#7 blocks: RSA-1024 and EC P-256 keys x SHA-1/SHA-256 x with/without signed attributes; untouched, and "
           "with the .SF changed at each (every 3rd in quick) of its 40 bytes, the signature value, the messageDigest attribute or "
           "the sid serial number altered; detached blocks and blocks that embed the signed content")
def signed_apks(U):
    m = U.mod(APKF)
    g = U.given or {"kind": "rsa", "halg": "sha256", "attrs": True, "tamper": None, "pos": 0}
    U.drawn.update(g)
    sf = b"Signature-Version: 1.0\r\nCreated-By: verif\r\n"[:40]
    p7, cert_der = _pkcs7(g["kind"], g["halg"], g["attrs"], sf, g["tamper"], g.get("embed", False))
    sf_in_apk = sf
    if g["tamper"] == "sf":
        b = bytearray(sf)
        b[g["pos"] % len(b)] ^= 0x20
        sf_in_apk = bytes(b)
    a = bare(m.APK)
    # the base name of the block has a dot of its own; a decoy X.SF (the untouched signed content) sits next to the block's X.V1.SF
    files = {"META-INF/X.V1.RSA": p7, "META-INF/X.V1.SF": sf_in_apk, "META-INF/X.SF": sf}
    a.get_file = lambda n: files[n]
    a.get_min_sdk_version = lambda: "21"
    o = U.call(a.get_certificate_der, "META-INF/X.V1.RSA")
    U.ensures("does not raise", o.ok, exc=repr(o.exc)[:200], **g)
    if not o.ok:
        return
    if g["tamper"] is None:
        U.ensures("an intact signature block reports its signing certificate", o.value == cert_der, got=None if o.value is None else len(o.value), **g)
    else:
        U.ensures("an altered .SF / signature / digest attribute / certificate reference reports no certificate", o.value is None, **g)


signed_apks.enumerate_inputs = lambda tier, **p: _enum(tier)
