"""C16  Multi-DEX analysis is independent of how the code is split and ordered (DESIGN §7 C16)."""
import itertools

from contracts import xrefsuite as S, xrefworld as X
from pyvc.core import And, Eq, Implies, Ite, Not, Or
from pyvc.unit import unit

ANA = S.ANA
META = {
    "technique": 'contract-based deductive verification: symbolic execution of the real functions against sidecar contracts (z3/cvc5) for the proved units; bounded contract evaluation (enumerated scope / independent writer) for the rest',
    "level": "other",
    "partial": True,
    "level_text": "Bounded on REAL DEX files: the analysis of every split (2..3 files, both orders) of a random class model equals the analysis of the single merged file written from the same model (independent writer, real parser, real Analysis). Bounded (2-run contract on the real Analysis): for every enumerated world the canonical view (classes, methods, "
                  "fields, strings and every cross-reference set, keyed by names) after adding the DEX files in each order and "
                  "creating xrefs once is compared with the view of the single-DEX world holding the same classes. Proof part: "
                  "Analysis.add registers every class/method/field/string of a DEX under its own name (stub DEX, closed evaluation) "
                  "and create_xref refuses to run twice. One known finding (cross-DEX field accesses, same root cause as C14).",
    "trusted": ["stub DEX world (contracts/xrefworld.py)"],
    "explanation": "split/order independence bounded over enumerated stub worlds and over real DEX files (splits of a generated "
                   "class model vs the single merged file): " + S.NOTE,
    "assumptions": ["distinct class names across the DEX files (precondition of the statement)"],
}


@unit("C16", covers=[(ANA, "Analysis.add"), (ANA, "Analysis.create_xref")])
def add_registers_everything(U):
    ana = U.mod(ANA)
    si = U.choice("split", [0, 1, 2, 3])
    vms, index = X.make_world(S.SPLITS[si])
    for vm in vms:
        vm.strings += ["str_" + vm.name]
    dx = ana.Analysis()
    for vm in vms:
        dx.add(vm)
    U.ensures("every class is registered under its name", sorted(c.name for c in dx.get_classes()) == ["LA;", "LB;", "LC;"])
    U.ensures("every method is resolvable by (class, name, descriptor)",
              all(dx.get_method_analysis_by_name(c, m, "()V") is not None and
                  dx.get_method_analysis_by_name(c, m, "()V").get_method() is [x for x in index[c].methods if x.get_name() == m][0]
                  for c in index for m in ("m1", "m2")))
    U.ensures("every field has its FieldAnalysis", all(dx.get_field_analysis(f) is not None and dx.get_field_analysis(f).get_field() is f
                                                        for c in index.values() for f in c.fields))
    U.ensures("every string is known", all(("str_" + vm.name) in dx.get_strings_analysis() for vm in vms))
    dx.create_xref()
    before = S.view(dx)
    dx.create_xref()
    U.ensures("create_xref is not applied twice", S.view(dx) == before)


@unit("C16", covers=[(ANA, "Analysis.add"), (ANA, "Analysis.create_xref"), (ANA, "Analysis._create_xref"), (ANA, "Analysis._resolve_method")],
      params=S.PARAMS, level="bounded", note=S.NOTE)
def split_and_order_independent(U, chunk):
    g = U.given or {"split": 1, "order": 1, "a": 3, "b": 31}
    U.drawn.update(g)
    ref = U.call(S.build, U, g, 0, 0)
    got = U.call(S.build, U, g)
    U.ensures("analysis does not raise", ref.ok and got.ok, exc=repr(got.exc or ref.exc), **g)
    if not (ref.ok and got.ok):
        return
    prog = got.value[3]
    split = S.SPLITS[g["split"]]
    dex_of = {c: i for i, names in enumerate(split) for c in names}
    cross_dex_field = any(k in ("read", "write") and tuple(t) in S.DEFINED_F and dex_of[t[0]] != dex_of["LA;"] for _, k, t in prog)
    v0, v1 = S.view(ref.value[0]), S.view(got.value[0])
    diff = [k for k in v0 if v0[k] != v1[k]]
    U.ensures("same classes, methods, fields, strings and cross-references as the single-DEX analysis", v0 == v1,
              unless=[U.known("KF-C16-1", cross_dex_field)], differs_in=diff, **g)
    if cross_dex_field:
        # outside the known finding everything but the field part must still agree
        for k in ("classes", "strings", "classx"):
            U.ensures("known finding is confined to field xrefs: %s still agree" % k, v0[k] == v1[k], **g)


split_and_order_independent.enumerate_inputs = lambda tier, chunk: S.enum_inputs(tier, chunk)


from contracts import xrefreal as XR  # noqa: E402
import random as _random  # noqa: E402


@unit("C16", covers=[(ANA, "Analysis.add"), (ANA, "Analysis.create_xref"), (ANA, "Analysis._create_xref"), (ANA, "Analysis._resolve_method")],
      level="bounded", samples=40, note=XR.NOTE)
def real_dex_split_independent(U):
    seed = U.int("seed", 0, 1 << 30)
    rng = _random.Random(seed)
    classes = XR.model(rng)
    ref = None
    for gi, groups in enumerate(XR.splits(classes)):
        if gi and rng.random() < 0.5:
            groups = list(reversed(groups))
        o = U.call(XR.analyse, U, classes, groups)
        U.ensures("analysis does not raise", o.ok, exc=repr(o.exc)[:200], groups=groups)
        if not o.ok:
            return
        v = S.view(o.value)
        if ref is None:
            ref = v
            continue
        diff = [k for k in ref if ref[k] != v[k]]
        U.ensures("the analysis of the split files equals the analysis of the merged file (classes, methods, fields, strings, "
                  "cross-references)", not diff, groups=groups, differs_in=diff,
                  detail=str({k: (ref[k], v[k]) for k in diff})[:600] if diff else None)
