"""C25  Merged short-circuit conditions route control as the original branches did (DESIGN §7 C25)."""
import itertools
import re

from pyvc.unit import bare, unit

CF = "androguard/decompiler/control_flow.py"
BB = "androguard/decompiler/basic_blocks.py"
GR = "androguard/decompiler/graph.py"
WR = "androguard/decompiler/writer.py"
META = {
    "technique": "bounded stand-in: the statement's finite scope (2-3 condition chains x truth assignments) enumerated on the real merge/print code",
    "level": "exploration",
    "partial": True,
    "level_text": "The statement's own finite quantifier, decided exhaustively on the real code: every acyclic condition-chain graph "
                  "of two and three conditional nodes over three exit targets (each branch goes to a later conditional node or an "
                  "exit) is built from real CondBlock/Graph objects, merged by the real short_circuit_struct and printed by the real "
                  "Writer.visit_short_circuit_condition / Condition.visit / ShortCircuitBlock.visit_cond (also after the writer's "
                  "negate-and-swap idiom); the printed Boolean text is parsed and evaluated for every truth assignment and must select "
                  "the successor the original chain selects. Labelled bounded: the scope (<= 3 conditions, <= 3 exits) is the "
                  "property's quantifier, not all graphs.",
    "trusted": ["stub condition instructions (a variable name with a negation flag) and exit blocks", "parser of the printed "
                "condition text: identifiers, !, &&, ||, parentheses"],
    "explanation": "exhaustive over the stated scope (chains of 2 and 3 conditions, every truth assignment).",
    "assumptions": [],
}


class CondIns:
    def __init__(self, var):
        self.var, self.negated = var, False

    def neg(self):
        self.negated = not self.negated

    def visit(self, visitor):
        visitor.write(("!" if self.negated else "") + self.var)

    def get_used_vars(self):
        return []

    def get_lhs(self):
        return None


def _chains(k):
    """true/false successor choices for cond nodes c0..c(k-1): a later cond node or an exit x0..x2"""
    opts = []
    for i in range(k):
        tg = ["c%d" % j for j in range(i + 1, k)] + ["x0", "x1", "x2"]
        opts.append([(t, f) for t in tg for f in tg])
    for combo in itertools.product(*opts):
        # every cond node reachable from c0
        reach, st = set(), ["c0"]
        while st:
            n = st.pop()
            if n in reach or not n.startswith("c"):
                continue
            reach.add(n)
            st.extend(combo[int(n[1:])])
        if len(reach) == k:
            yield combo


def _enum(tier, **_):
    for k in (2, 3):
        for i, combo in enumerate(_chains(k)):
            yield {"k": k, "chain": [list(c) for c in combo]}


def _eval_text(txt, sigma):
    expr = txt.replace("&&", " and ").replace("||", " or ")
    expr = re.sub(r"!\s*", " not ", expr)
    return bool(eval(expr, {"__builtins__": {}}, dict(sigma)))


class _W:
    pass


@unit("C25", covers=[(CF, "short_circuit_struct"), (BB, "Condition.__init__"), (BB, "Condition.neg"), (BB, "Condition.visit"),
                     (BB, "ShortCircuitBlock.neg"), (BB, "ShortCircuitBlock.visit_cond"), (BB, "CondBlock.neg"),
                     (BB, "CondBlock.visit_cond"), (WR, "Writer.visit_short_circuit_condition")], level="bounded",
      note="all acyclic condition chains of 2 and 3 conditional nodes over 3 exits x every truth assignment; printed directly and "
           "after neg()+swap of true/false")
def chains(U):
    cf, bb, gr, wr = U.mod(CF), U.mod(BB), U.mod(GR), U.mod(WR)
    g = U.given or {"k": 2, "chain": [["c1", "x0"], ["x1", "x0"]]}
    U.drawn.update(g)
    k, chain = g["k"], [tuple(c) for c in g["chain"]]
    names = "abc"
    for swap_first in (False, True):
        nodes = {}
        for i in range(k):
            nodes["c%d" % i] = bb.CondBlock("c%d" % i, [CondIns(names[i])])
        for x in ("x0", "x1", "x2"):
            nodes[x] = bb.StatementBlock(x, [])
        graph = gr.Graph()
        used = set()
        for i in range(k):
            c = nodes["c%d" % i]
            c.true, c.false = nodes[chain[i][0]], nodes[chain[i][1]]
            used.update(chain[i])
        for n in ["c%d" % i for i in range(k)] + sorted(used & {"x0", "x1", "x2"}):
            graph.add_node(nodes[n])
        for i in range(k):
            c = nodes["c%d" % i]
            graph.add_edge(c, c.true)
            graph.add_edge(c, c.false)
        graph.entry = nodes["c0"]
        graph.compute_rpo()
        idom = graph.immediate_dominators()
        o = U.call(cf.short_circuit_struct, graph, idom, {})
        U.ensures("short_circuit_struct does not raise", o.ok, exc=repr(o.exc), **g)
        if not o.ok:
            return

        def route_orig(sigma):
            n = "c0"
            while n.startswith("c"):
                n = chain[int(n[1:])][0 if sigma[names[int(n[1:])]] else 1]
            return n

        def printed(node):
            w = bare(wr.Writer)
            buf = []
            w.write = lambda s, data=None: buf.append(s)
            w.write_ext = lambda t: None
            node.visit_cond(w)
            return "".join(buf)
        # print every conditional node of the merged graph once (as the writer does), optionally after neg()+swap
        texts = {}
        for n in list(graph.nodes):
            if n.type.is_cond:
                if swap_first:
                    n.neg()
                    n.true, n.false = n.false, n.true
                texts[n] = printed(n)

        def route_merged(sigma):
            n = graph.entry
            steps = 0
            while n.type.is_cond:
                n = n.true if _eval_text(texts[n], sigma) else n.false
                steps += 1
                if steps > 10:
                    return "loop"
            return n.name
        for vals in itertools.product([False, True], repeat=k):
            sigma = dict(zip(names, vals))
            U.ensures("the printed merged condition selects the successor the original chain selects",
                      route_merged(sigma) == route_orig(sigma), sigma=sigma, texts=[texts[n] for n in texts],
                      swapped=swap_first, got=route_merged(sigma), want=route_orig(sigma), **g)


chains.enumerate_inputs = lambda tier, **p: _enum(tier)
