"""C26  Binary XML is converted to the XML tree it encodes (DESIGN §7 C26)."""
import random
import struct

from pyvc.core import And, Eq, Implies, Ite, Not, Or, SymBytes
from pyvc.unit import bare, unit
from specs import axmlwriter as W, resvalue as RV

AXML = "androguard/core/axml/__init__.py"
META = {
    "technique": 'contract-based deductive verification: symbolic execution of the real functions against sidecar contracts (z3/cvc5) for the proved units, inductive loop invariants on the real loops (unbounded in length and iteration count); bounded contract evaluation (enumerated scope / independent writer) for the rest',
    "level": "other",
    "partial": True,
    "level_text": "Termination (variant = bytes left) of the chunk loop of AXMLParser._do_next on a file of any length and content, with "
                  "the nested loops and the header's skip loop under their own contracts. Loop contracts (unbounded): the attribute loops of AXMLParser._do_next for a START_ELEMENT chunk with any attribute "
                  "count (0..65535) and any attributeSize >= 20 in a file of any length: attribute a is read at attributeStart + a * "
                  "attributeSize (five words, the typed-value word reduced to its data type), the parser ends at the end of the "
                  "chunk. Proof: one arbitrary step of the pull parser on symbolic chunks of every kind (START_ELEMENT with 0..3 "
                  "attributes and symbolic attributeSize, END_ELEMENT, CDATA, namespaces, resource map, foreign / malformed chunks, "
                  "end of file). Proof (string pool carriers): StringBlock._decode_length equals AOSP's decodeLength for every 2-unit prefix in 8-bit "
                  "and 16-bit pools (all bit patterns); _decode8/_decode16 hand exactly the declared slice to the decoder and require "
                  "the terminator; getString is the offset-table lookup with '' outside the table. Bounded (model-based): random XML "
                  "trees (nested elements, default/android/custom namespaces, attributes of the string/int/hex/bool/reference/"
                  "dimension/float/fraction/colour types, text and tails, U+FEFF, UTF-8 (incl. modified UTF-8) and UTF-16 pools, "
                  "resource-id maps, attributeSize 20/24/28, names outside ASCII (open finding KF-C26-1)) serialised by an independent writer must come "
                  "back with the same element tree, namespace URIs, attribute names, typed values and text.",
    "trusted": ["independent writer specs/axmlwriter.py (ResourceTypes.h)", "lxml for tree construction / comparison",
                "CPython codecs for utf-8 / utf-16 decoding"],
    "explanation": "string-pool decoding proved on symbolic bytes; chunk sequencing, namespace handling and tree building bounded "
                   "(generated documents).",
    "assumptions": ["names in generated documents are XML names (the repair logic _fix_name/_fix_value for malformed names is "
                    "outside the statement: 'well-formed binary XML')"],
}


def _sb(m, charbuff, utf8, offsets):
    s = bare(m.StringBlock)
    s._cache = {}
    s.m_isUTF8, s.m_charbuff, s.m_stringOffsets, s.stringCount = utf8, charbuff, offsets, len(offsets)
    return s


def _items(b):
    return list(b.items) if hasattr(b, "items") else list(b)


@unit("C26", covers=[(AXML, "StringBlock._decode_length")], params=[{"sz": 1}, {"sz": 2}], samples=100)
def decode_length(U, sz):
    m = U.mod(AXML)
    b = U.bytes("b", 2 * sz + 2)
    bl = _items(b)
    s = _sb(m, b, sz == 1, [0])
    o = U.call(s._decode_length, 0, sz)
    if sz == 1:
        u0, u1 = bl[0], bl[1]
        hb = 0x80
    else:
        u0, u1 = bl[0] | (bl[1] << 8), bl[2] | (bl[3] << 8)
        hb = 0x8000
    two = (u0 & hb) != 0
    want_len = Ite(two, ((u0 & (hb - 1)) << (8 * sz)) | u1, u0)
    want_skip = Ite(two, 2 * sz, sz)
    U.ensures("does not raise", o.ok, exc=repr(o.exc))
    if o.ok:
        U.ensures("length and size of the length prefix as in AOSP decodeLength", And(o.value[0] == want_len, o.value[1] == want_skip),
                  got=o.value if U.mode == "conc" else None)


@unit("C26", covers=[(AXML, "StringBlock._decode8"), (AXML, "StringBlock._decode16"), (AXML, "StringBlock.getString")],
      params=[{"utf8": True, "n": n} for n in (0, 1, 3)] + [{"utf8": False, "n": n} for n in (0, 1, 2)]
      + [{"utf8": True, "n": 3, "cw": cw, "bw": bw} for cw, bw in ((1, 2), (2, 1), (2, 2))]
      + [{"utf8": True, "n": 130, "cw": 1, "bw": 2}, {"utf8": False, "n": 2, "cw": 2}], samples=40)
def decode_slices(U, utf8, n, cw=1, bw=1):
    """the bytes decoded are exactly the declared ones; the terminator is required.  cw / bw: width (in units) of the
    character-count and byte-count prefixes (the two prefixes of a UTF-8 string have independent widths)"""
    m = U.mod(AXML)
    payload = U.bytes("p", n if utf8 else 2 * n)
    term_ok = U.choice("term", [True, False])
    pl = _items(payload)
    nchars = 43 if n == 130 else n      # e.g. 43 three-byte characters + one ASCII: fewer than 128 chars, 130 bytes
    if utf8:
        pre = ([nchars] if cw == 1 else [0x80 | (nchars >> 8), nchars & 0xFF]) + ([n] if bw == 1 else [0x80 | (n >> 8), n & 0xFF])
        data = pre + pl + [0 if term_ok else 0x41, 0x42]
    else:
        pre = [n, 0] if cw == 1 else [0, 0x80, n, 0]
        data = pre + pl + ([0, 0] if term_ok else [0x41, 0]) + [0x42]
    buf = SymBytes(data) if U.mode == "sym" else bytes(data)
    s = _sb(m, buf, utf8, [0])
    seen = []

    def rec(d, enc, ln):
        seen.append((d, enc, ln))
        return "DECODED"
    s._decode_bytes = rec
    o = U.call(s.getString, 0)
    if term_ok:
        U.ensures("decoder receives exactly the declared bytes in the pool's encoding, result returned",
                  And(o.ok and o.value == "DECODED" and len(seen) == 1 and seen[0][1] == ("utf-8" if utf8 else "utf-16") and seen[0][2] == (nchars if utf8 else n),
                      Eq(_items(seen[0][0]), pl) if seen else False), exc=repr(o.exc))
    else:
        U.ensures("a string without terminator is not returned", (o.ok and o.value == "") or o.raised(m.ResParserError), got=o.value)
    out = U.call(s.getString, 5)
    U.ensures("index outside the table gives the empty string", out.ok and out.value == "")


def _rand_tree(rng, depth=0):
    names = ["manifest", "application", "activity", "intent-filter", "action", "data", "uses-sdk", "meta-data", "a", "b1", "x_y", "t.u"]
    e = W.Elem(rng.choice(names))
    if rng.random() < 0.06:
        e.name = rng.choice(["h\xe9llo", "\u5143\u7d20"])          # XML names may contain letters outside ASCII
    for _ in range(rng.randint(0, 3)):
        kind = rng.choice(["str", "int", "hex", "bool", "ref", "dimen", "float", "str", "int", "attr", "fraction", "argb8", "rgb8", "argb4", "rgb4"])
        v = {"str": lambda: rng.choice(["", "hello", "com.example.App", ".Main", "üñí", "a b", "x" * 40, "\U0001F600z", "\ufeffstarts with U+FEFF", "\u65e5" * 50, "\xe9" * 100, "x" * 200,
                                         "\u65e5" * 130]),
             "int": lambda: rng.choice([0, 1, -1 & 0xFFFFFFFF, 0x7FFFFFFF, 0x80000000, rng.randrange(1 << 32)]),
             "hex": lambda: rng.randrange(1 << 32), "bool": lambda: rng.random() < 0.5,
             "ref": lambda: rng.choice([0x7F010001, 0x01010003, rng.randrange(1 << 32)]),
             "dimen": lambda: (rng.randrange(1 << 24) << 8) | (rng.randrange(4) << 4) | rng.randrange(6),
             "float": lambda: struct.unpack("<I", struct.pack("<f", rng.choice([0.0, 1.5, -2.25, 1e10])))[0],
             "attr": lambda: rng.choice([0x01010003, 0x7F040001]),
             "fraction": lambda: (rng.randrange(1 << 24) << 8) | (rng.randrange(4) << 4) | rng.randrange(2),
             "argb8": lambda: rng.randrange(1 << 32), "rgb8": lambda: rng.randrange(1 << 32), "argb4": lambda: rng.randrange(1 << 32),
             "rgb4": lambda: rng.choice([0xFFFFFFFF, 0xFF112233, rng.randrange(1 << 32)])}[kind]()
        ns = rng.choice([None, W.ANDROID_NS, "http://example.com/ns"])
        nm = rng.choice(["name", "value", "label", "minSdkVersion", "exported", "k%d" % rng.randint(0, 9)])
        if rng.random() < 0.04:
            nm = rng.choice(["\xe4ttr", "\xf6ttr"])
        if not any(a.name == nm and a.ns == ns for a in e.attrs):
            known = {"name": 0x01010003, "label": 0x01010001, "exported": 0x01010010, "minSdkVersion": 0x0101020C, "value": 0x01010024}
            rid = known.get(nm) if (ns == W.ANDROID_NS and rng.random() < 0.5) else None   # (name, id) pairs of the framework
            e.attrs.append(W.Attr(nm, (kind, v), ns, rid))
    if rng.random() < 0.3:
        e.text = rng.choice(["text", "  spaced ", "ünï", "<&>", "\ufeffbom", "\U0001F600"])
    if depth > 0 and rng.random() < 0.25:
        e.tail = rng.choice(["tail", " t ", "日本", "\U0001F600tail"])        # character data behind the element (mixed content)
    if depth < 3:
        for _ in range(rng.randint(0, 3 - depth)):
            e.children.append(_rand_tree(rng, depth + 1))
    return e


def _expect_value(kind, v):
    if kind == "str":
        return v
    t = W.TYPES[kind]
    d = (0xFFFFFFFF if v else 0) if kind == "bool" else v & 0xFFFFFFFF
    return RV.format_value(t, d, None, d & 0xF)


def _cmp(U, want, got, path):
    from lxml import etree
    tag = ("{%s}%s" % (want.ns, want.name)) if want.ns else want.name
    ok = got.tag == tag
    na = lambda x: any(ord(ch) > 127 for ch in x)
    U.ensures("element name and namespace", ok, path=path, got=got.tag, want=tag, unless=[U.known("KF-C26-1", na(want.name))])
    wa = {(("{%s}%s" % (a.ns, a.name)) if a.ns else a.name): _expect_value(*a.value) for a in want.attrs}
    ga = dict(got.attrib)
    U.ensures("attribute names (with namespace URIs) and their typed values", ga == wa, path=path, got=ga, want=wa,
              unless=[U.known("KF-C26-1", any(na(a.name) for a in want.attrs))])
    if want.text is not None:
        U.ensures("text", (got.text or "") == want.text, path=path, got=got.text, want=want.text)
    if getattr(want, "tail", None) is not None:
        U.ensures("character data behind the element (tail)", (got.tail or "") == want.tail, path=path, got=got.tail, want=want.tail)
    kids = [c for c in got if isinstance(c.tag, str)]
    U.ensures("same number of child elements in order", len(kids) == len(want.children), path=path, got=[k.tag for k in kids])
    for i, (w, k) in enumerate(zip(want.children, kids)):
        _cmp(U, w, k, path + "/%d" % i)


@unit("C26", covers=[(AXML, "AXMLParser._do_next"), (AXML, "AXMLParser.__init__"), (AXML, "AXMLPrinter.__init__"), (AXML, "StringBlock.__init__"),
                     (AXML, "AXMLPrinter._get_attribute_value"), (AXML, "AXMLParser.getAttributeValue")], level="bounded", samples=150,
      note="seeded random documents from the independent writer: depth <= 3, <= 3 attributes per element over 7 value types and 3 "
           "namespaces, optional text, UTF-8 and UTF-16 pools, optional resource-id map")
def generated_documents(U):
    m = U.mod(AXML)
    seed = U.int("seed", 0, 1 << 30)
    rng = random.Random(seed)
    root = _rand_tree(rng)
    utf8 = rng.random() < 0.5
    nss = [("android", W.ANDROID_NS)] + ([("ex", "http://example.com/ns")] if rng.random() < 0.7 else [])
    used_ex = any(a.ns == "http://example.com/ns" for e in _walk(root) for a in e.attrs)
    if used_ex and len(nss) == 1:
        nss.append(("ex", "http://example.com/ns"))
    attr_size = rng.choice([20, 20, 24, 28])      # ResXMLTree_attrExt.attributeSize: attributes may carry trailing bytes
    mutf8 = utf8 and rng.random() < 0.5               # aapt2 writes modified UTF-8 (surrogate pairs) into UTF-8 pools
    raw_values = rng.random() < 0.7                    # string attributes without the optional raw value
    data = W.write(root, nss, utf8, attr_size, mutf8, raw_values)
    o = U.call(lambda: m.AXMLPrinter(data))
    U.ensures("parses", o.ok, exc=repr(o.exc)[:200], utf8=utf8)
    if not o.ok:
        return
    ap = o.value
    U.ensures("document is valid", ap.is_valid(), utf8=utf8)
    r = ap.get_xml_obj()
    if r is None:
        U.ensures("a tree is produced", False)
        return
    _cmp(U, root, r, "")


def _walk(e):
    yield e
    for c in e.children:
        yield from _walk(c)


# ---- one arbitrary step of the pull parser (AXMLParser._do_next) on a symbolic chunk: ResXMLTree_node / ResXMLTree_attrExt /
# ResXMLTree_attribute layout from ResourceTypes.h, attribute i at attributeStart-relative offset i * attributeSize


class _SB:
    def __getitem__(self, i):
        return ("str", i)


def _parser(U, m, data, pos, filesize):
    p = bare(m.AXMLParser)
    p._valid = True
    p.axml_tampered = False
    p.buff = U.stream(data, pos)
    p.buff_size = len(data)
    p.filesize = filesize
    p.sb = _SB()
    p.m_resourceIDs = []
    p.namespaces = []
    p.m_event = -1
    p._reset()
    return p


def _u32(bl, off):
    return bl[off] | (bl[off + 1] << 8) | (bl[off + 2] << 16) | (bl[off + 3] << 24)


def _u16(bl, off):
    return bl[off] | (bl[off + 1] << 8)


@unit("C26", covers=[(AXML, "AXMLParser._do_next"), (AXML, "ARSCHeader.__init__"), (AXML, "AXMLParser._reset")],
      params=[{"count": c, "pad": 8} for c in (0, 1, 2, 3)], samples=120,
      note="START_ELEMENT chunk with `count` attributes of a symbolic attributeSize in 20..20+pad (every byte of the chunk symbolic); "
           "the stream is preceded by 8 arbitrary bytes so that the chunk does not sit at offset 0")
def start_element_chunk(U, count, pad):
    m = U.mod(AXML)
    at_size = U.int("at_size", 20, 20 + pad)
    lead = 8
    body_max = 36 + count * (20 + pad)
    raw = U.bytes("chunk", body_max + 8)
    size = 36 + count * at_size
    hdr = [0x02, 0x01, 0x10, 0x00] + [size & 0xFF, (size >> 8) & 0xFF, 0, 0]
    bl = hdr + _items(raw)[8:]
    # attributeStart = 0x14, attributeSize = at_size, attributeCount low half = count
    bl[24:28] = [0x14, 0x00, at_size & 0xFF, (at_size >> 8) & 0xFF]
    idattr = bl[30] | (bl[31] << 8)
    bl[28:30] = [count, 0]
    data = [0] * lead + bl
    buf = SymBytes(data) if U.mode == "sym" else bytes(data)
    p = _parser(U, m, buf, lead, lead + len(bl) + 1000)
    o = U.call(p._do_next)
    U.ensures("does not raise", o.ok, exc=repr(o.exc))
    if not o.ok:
        return
    U.ensures("event is START_TAG and the document stays valid", And(p.m_event == m.START_TAG, p._valid))
    U.ensures("line number, namespace and name indices are the node's fields",
              And(p.m_lineNumber == _u32(bl, 8), p.m_namespaceUri == _u32(bl, 16), p.m_name == _u32(bl, 20)))
    U.ensures("attribute count, id/class/style indices as in ResXMLTree_attrExt",
              And(p.m_attribute_count == count, p.m_idAttribute == idattr - 1, p.m_classAttribute == _u16(bl, 32) - 1,
                  p.m_styleAttribute == _u16(bl, 34) - 1))
    U.ensures("five words per attribute", len(p.m_attributes) == 5 * count, got=len(p.m_attributes))
    if len(p.m_attributes) == 5 * count:
        for i in range(count):
            base = 36 + i * at_size
            if U.mode == "sym" and not isinstance(base, int):
                base = base.concretize()
            want = [_u32(bl, base), _u32(bl, base + 4), _u32(bl, base + 8), bl[base + 15], _u32(bl, base + 16)]
            U.ensures("attribute %d is read at attributeStart + %d * attributeSize: ns, name, raw value, data type, data" % (i, i),
                      Eq(p.m_attributes[5 * i:5 * i + 5], want), at_size=at_size)
    U.ensures("the parser is positioned at the end of the chunk", p.buff.tell() == lead + size, pos=p.buff.tell())


@unit("C26", covers=[(AXML, "AXMLParser._do_next"), (AXML, "ARSCHeader.__init__")],
      params=[{"kind": k} for k in ("end", "cdata", "startns", "endns", "resmap", "foreign", "badhdr", "eof")], samples=80,
      note="one END_ELEMENT / CDATA / START_NAMESPACE / END_NAMESPACE / RESOURCE_MAP / unknown-type / wrong-header-size chunk "
           "with symbolic fields followed by an END_ELEMENT chunk; 'eof': the position equals the declared file size")
def other_chunks(U, kind):
    m = U.mod(AXML)
    lead = 8
    f = _items(U.bytes("f", 24))          # the 16 bytes after the 8-byte chunk header + 8 bytes of extension
    nxt = [0x03, 0x01, 0x10, 0x00, 24, 0, 0, 0] + _items(U.bytes("n", 16))     # END_ELEMENT that follows a skipped chunk
    if kind == "eof":
        p = _parser(U, m, bytes(lead), lead, lead)
        o = U.call(p._do_next)
        U.ensures("at the declared file size the document ends", And(o.ok, p.m_event == m.END_DOCUMENT))
        return
    typ = {"end": 0x0103, "cdata": 0x0104, "startns": 0x0100, "endns": 0x0101, "resmap": 0x0180}.get(kind)
    if kind == "foreign":
        typ = U.choice("typ", [0x0001, 0x0002, 0x0200, 0x0105, 0x017f, 0x0181])
    if kind == "badhdr":
        typ = U.choice("typ", [0x0102, 0x0103, 0x0104])
    hs = 0x10
    if kind == "resmap":
        hs = 8
    if kind == "badhdr":
        hs = U.choice("hs", [8, 12, 20])
    ext = {"end": 8, "cdata": 12, "startns": 8, "endns": 8}.get(kind, 16)
    size = (16 + ext) if kind not in ("resmap",) else 8 + 12
    if kind == "badhdr":
        size = 32
    if kind == "foreign":
        size = 32
    bl = [typ & 0xFF, typ >> 8, hs, 0, size, 0, 0, 0] + f
    bl = bl[:size]
    data = [0] * lead + bl + nxt
    buf = SymBytes(data) if U.mode == "sym" else bytes(data)
    p = _parser(U, m, buf, lead, len(data) + 100)
    if kind == "endns":
        U.assume(Not(And(_u32(bl, 16) == 0x11111111, _u32(bl, 20) == 0x22222222)))     # the other open mapping is a different one
        pre = U.bool("mapping_known")
        if pre:
            p.namespaces.append((_u32(bl, 16), _u32(bl, 20)))
        p.namespaces.append((0x11111111, 0x22222222))
    o = U.call(p._do_next)
    U.ensures("does not raise", o.ok, exc=repr(o.exc))
    if not o.ok:
        return
    end_next = And(p.m_event == m.END_TAG, p.m_namespaceUri == _u32(nxt, 16), p.m_name == _u32(nxt, 20),
                   p.buff.tell() == len(data))
    if kind == "end":
        U.ensures("END_TAG with the node's namespace and name; positioned at the end of the chunk",
                  And(p.m_event == m.END_TAG, p.m_namespaceUri == _u32(bl, 16), p.m_name == _u32(bl, 20), p.m_lineNumber == _u32(bl, 8),
                      p.buff.tell() == lead + size))
    elif kind == "cdata":
        U.ensures("TEXT with the string index of the chunk; positioned at the end of the chunk",
                  And(p.m_event == m.TEXT, p.m_name == _u32(bl, 16), p.buff.tell() == lead + size))
    elif kind == "startns":
        U.ensures("the (prefix, uri) mapping is pushed and parsing continues with the next chunk",
                  And(Eq(list(p.namespaces), [(_u32(bl, 16), _u32(bl, 20))]), end_next))
    elif kind == "endns":
        U.ensures("exactly one matching mapping is removed (none if it was never opened); parsing continues",
                  And(Eq(list(p.namespaces), [(0x11111111, 0x22222222)]), end_next))
    elif kind == "resmap":
        U.ensures("the resource map holds the chunk's words in order; parsing continues",
                  And(Eq(list(p.m_resourceIDs), [_u32(bl, 8), _u32(bl, 12), _u32(bl, 16)]), end_next))
    else:
        U.ensures("a chunk of another type / with a wrong node header size is skipped as a whole", And(end_next, p._valid))


# ------------------------------------------------------------------------------------------------
# Loop contracts (unbounded): the attribute loops of AXMLParser._do_next for a START_ELEMENT chunk with ANY attribute count (0..65535)
# and any attributeSize >= 20 in a file of any length.  Ghost: POS(a) = offset of attribute a, defined by POS(0) = attributeStart,
# POS(a+1) = POS(a) + attributeSize (instantiated where the proof touches it; no multiplication of two unknowns is needed).
# Loop #2 (read 5 words per attribute, skip the rest of the attribute): invariant pos = POS(k), len(m_attributes) = 5k, and (Skolem
# attribute a < k, field f) m_attributes[5a+f] = word at POS(a) + 4f.   Loop #4 (type = typed-value word >> 24): the same with field 3
# of the attributes already visited shifted.
import z3  # noqa: E402

from pyvc import core, ubuf  # noqa: E402
from pyvc.loops import GhostIntList, LoopSpec  # noqa: E402


def _word(mem, addr):
    return mem.byte(addr) | (mem.byte(addr + 1) << 8) | (mem.byte(addr + 2) << 16) | (mem.byte(addr + 3) << 24)


class _Attrs:
    def __init__(self, U, mem, a0, at_size):
        self.U, self.mem, self.at_size = U, mem, at_size
        self.f = z3.Function("POS", z3.BitVecSort(core.W), z3.BitVecSort(core.W))
        core.ctx().add_fact(self.f(z3.BitVecVal(0, core.W)) == core.SymInt.lift(a0).t)

    def POS(self, a):
        t = self.f(core.SymInt.lift(a).t)
        core.ctx().add_fact(z3.And(t >= 0, t <= ubuf.MAXLEN + (1 << 34)))
        return core.SymInt(t, 0, ubuf.MAXLEN + (1 << 34))

    def define_next(self, a):
        core.ctx().add_fact((self.POS(a + 1) == self.POS(a) + self.at_size).t)

    def field(self, a, f):
        return _word(self.mem, self.POS(a) + 4 * f)


def _alen(x):
    return x.n if isinstance(x, GhostIntList) else len(x)


def _apeek(x, q):
    return x.peek(q) if isinstance(x, GhostIntList) else 0


def _skolem_clause(spec, attrs, k_shifted):
    """for the Skolem attribute a: its five words (field 3 shifted iff a < k_shifted)"""
    w, a = spec.G["world"], spec.G["a"]
    cl = []
    for f in spec.G["fields"]:
        want = w.field(a, f)
        if f == 3:
            want = Ite(a < k_shifted, want >> 24, want) if k_shifted is not None else want
        cl.append(_apeek(attrs, 5 * a + f) == want)
    return And(*cl)


def _inv_read(spec, L, k):
    s, w, a = L["self"], spec.G["world"], spec.G["a"]
    end = s.buff.buf.length
    # a skip read that hits the end of the data leaves the stream at the end (the next word read then fails)
    # (or, for an attributeStart that points behind the data, beyond the end)
    return And(Or(s.buff.pos == w.POS(k), And(w.POS(k) > end, s.buff.pos >= end)), _alen(s.m_attributes) == 5 * k,
               Implies(And(0 <= a, a < k), _skolem_clause(spec, s.m_attributes, None)))


def _havoc_read(spec, L):
    s = L["self"]
    s.buff.havoc(spec.tag)
    s.m_attributes = GhostIntList("m_attributes", 0, 0xFFFFFFFF)
    s.m_attributes.havoc(spec.tag)


ATTR_READ = LoopSpec("AXMLParser._do_next#2", invariant=_inv_read, const=("self",), at_havoc=_havoc_read,
                     at_iteration=lambda s, L, k: s.G["world"].define_next(k))


def _inv_shift(spec, L, k):
    s, w, a = L["self"], spec.G["world"], spec.G["a"]
    return And(_alen(s.m_attributes) == 5 * spec.G["count"], Implies(And(0 <= a, a < spec.G["count"]), _skolem_clause(spec, s.m_attributes, k)))


def _havoc_shift(spec, L):
    L["self"].m_attributes.havoc(spec.tag, keep_len=True)       # the loop overwrites elements, it never changes the length


ATTR_SHIFT = LoopSpec("AXMLParser._do_next#4", invariant=_inv_shift, const=("self",), at_havoc=_havoc_shift)


@unit("C26", covers=[(AXML, "AXMLParser._do_next")],
      loops={(AXML, "AXMLParser._do_next", 2): ATTR_READ, (AXML, "AXMLParser._do_next", 4): ATTR_SHIFT}, samples=40, max_paths=4000,
      timeout_ms=120000, params=[{"f": f} for f in range(5)],
      note="loop contracts on the two attribute loops: START_ELEMENT chunk with any attribute count and any attributeSize >= 20 in a "
           "file of any length; Skolem attribute index; the typed-value word keeps only its data-type byte")
def start_element_unbounded(U, f):
    """f: the field (word) of the Skolem attribute this instance of the unit speaks about"""
    m = U.mod(AXML)
    if U.mode != "sym":
        count = U.int("count", 0, 9)
        at_size = 20 + 4 * U.int("pad", 0, 3)
        words = [U.int("w%d" % i, 0, 0xFFFFFFFF) for i in range(5 * count)]
        body = b""
        for a in range(count):
            body += struct.pack("<5I", *words[5 * a:5 * a + 5]) + b"\xAB" * (at_size - 20)
        chunk = struct.pack("<HHIII", 0x0102, 0x10, 36 + len(body), 7, 0xFFFFFFFF) + struct.pack("<IIHHHHHH", 1, 2, 0x14, at_size, count, 0, 0, 0) + body
        data = bytes(8) + chunk
        p = _parser(U, m, data, 8, len(data) + 100)
        o = U.call(p._do_next)
        U.ensures("does not raise", o.ok, exc=repr(o.exc))
        if o.ok:
            want = [w >> 24 if i % 5 == 3 else w for i, w in enumerate(words)]
            U.ensures("five words per attribute, read at attributeStart + a * attributeSize, the fourth reduced to its data type",
                      list(p.m_attributes) == want and p.m_event == m.START_TAG and p.buff.tell() == len(data), got=list(p.m_attributes)[:10])
        return
    mem = ubuf.SymMem("file")
    buf = ubuf.SymBuf(mem, 0, U.int("len", 0, ubuf.MAXLEN))
    p0 = U.int("p0", 8, ubuf.MAXLEN)
    U.assume(p0 + 36 <= buf.length)
    U.assume(And(mem.byte(p0) == 0x02, mem.byte(p0 + 1) == 0x01, mem.byte(p0 + 2) == 0x10, mem.byte(p0 + 3) == 0x00))   # START_ELEMENT, node header 16
    size = _word(mem, p0 + 4)
    U.assume(size >= 0x10)
    at_size = mem.byte(p0 + 26) | (mem.byte(p0 + 27) << 8)
    U.assume(at_size >= 20)
    count = mem.byte(p0 + 28) | (mem.byte(p0 + 29) << 8)
    a = U.int("a", 0, 65535)
    at_start = mem.byte(p0 + 24) | (mem.byte(p0 + 25) << 8)         # ResXMLTree_attrExt.attributeStart: any value
    world = _Attrs(U, mem, p0 + 16 + at_start, at_size)
    for sp in (ATTR_READ, ATTR_SHIFT):
        sp.G = {"U": U, "world": world, "a": a, "count": count, "fields": [f]}
    p = bare(m.AXMLParser)
    p._valid, p.axml_tampered = True, False
    p.buff = ubuf.SymStreamU(buf, p0, "buff")
    p.buff_size, p.filesize = buf.length, buf.length + 1
    p.sb, p.m_resourceIDs, p.namespaces, p.m_event = _SB(), [], [], -1
    p._reset()
    o = U.call(p._do_next)
    if not o.ok:
        U.ensures("the only failure is the end of the data (struct.error)", o.raised(m.__pyvc_struct__.error), exc=repr(o.exc))
        return
    U.cover("the chunk is parsed")
    U.ensures("event START_TAG, attribute count as declared, five words per attribute",
              And(p.m_event == m.START_TAG, p.m_attribute_count == count, _alen(p.m_attributes) == 5 * count))
    U.ensures("attribute a is read at (start of attrExt) + attributeStart + a * attributeSize: namespace, name, raw value, data type (high byte of the "
              "typed-value word), data", Implies(a < count, _skolem_clause(ATTR_SHIFT, p.m_attributes, count)))
    U.ensures("the parser is positioned at the end of the chunk", p.buff.pos == p0 + size)


# ------------------------------------------------------------------------------------------------
# Termination of the chunk loop of AXMLParser._do_next (`while self._valid`) on a file of ANY length and content, from any parser
# state: variant `bytes left` (every iteration that continues starts with an 8-byte chunk header and either consumes the chunk's
# fields or seeks to header.start + size with size >= 8).  The nested loops (resource map, attributes, type shift) and the header's
# own skip loop carry their own (weak) contracts, so no count or length is enumerated.
class _AnyBag:
    """ghost stand-in for the list of open namespace mappings: membership is arbitrary"""

    def __init__(self, U):
        self.U = U

    def append(self, x):
        pass

    def remove(self, x):
        pass

    def __contains__(self, x):
        from pyvc.core import ctx
        return bool(self.U.bool("ns.member#%d" % next(ctx().fresh)))


class _PrevHeader:
    def __init__(self, end):
        self.end = end


def _havoc_outer(spec, L):
    s, U = L["self"], spec.G["U"]
    s.buff.havoc(spec.tag)
    s.m_resourceIDs = GhostIntList("m_resourceIDs", 0, 0xFFFFFFFF)
    s.m_resourceIDs.havoc(spec.tag)
    s.m_attributes = GhostIntList("m_attributes", 0, 0xFFFFFFFF)
    s.m_attributes.havoc(spec.tag)
    s.namespaces = _AnyBag(U)


def _left(L):
    b = L["self"].buff
    return Ite(b.pos <= b.buf.length, b.buf.length - b.pos + 1, 0)


CHUNKS = LoopSpec("AXMLParser._do_next#0", invariant=lambda s, L, k: And(L["self"]._valid is True, L["self"].buff.pos >= s.G["p0"]),
                  variant=lambda s, L, k: _left(L), const=("self",), at_havoc=_havoc_outer,
                  havoc={"h": lambda s, L: _PrevHeader(s.G["U"].int("prev.end@", 0, ubuf.MAXLEN))})


def _havoc_stream_and(attr):
    def f(spec, L):
        L["self"].buff.havoc(spec.tag)
        getattr(L["self"], attr).havoc(spec.tag)
    return f


RESMAP_T = LoopSpec("AXMLParser._do_next#1", invariant=lambda s, L, k: L["self"].buff.pos >= L["h"].start + 8, const=("self", "h"),
                    at_havoc=_havoc_stream_and("m_resourceIDs"))
ATTRS_T = LoopSpec("AXMLParser._do_next#2", invariant=lambda s, L, k: L["self"].buff.pos >= L["h"].start + 8, const=("self", "h"),
                   at_havoc=_havoc_stream_and("m_attributes"))
SHIFT_T = LoopSpec("AXMLParser._do_next#4", invariant=lambda s, L, k: True, const=("self", "h"),
                   at_havoc=lambda spec, L: L["self"].m_attributes.havoc(spec.tag, keep_len=True))
HDR_SKIP_T = LoopSpec("ARSCHeader.__init__#0",
                      invariant=lambda s, L, k: And(L["buff"].pos >= L["self"].start, L["buff"].pos <= L["buff"].buf.length),
                      variant=lambda s, L, k: L["buff"].buf.length - L["buff"].pos + 8, heap=("buff",), const=("self", "expected_type"))


@unit("C26", covers=[(AXML, "AXMLParser._do_next"), (AXML, "ARSCHeader.__init__")],
      loops={(AXML, "AXMLParser._do_next", 0): CHUNKS, (AXML, "AXMLParser._do_next", 1): RESMAP_T, (AXML, "AXMLParser._do_next", 2): ATTRS_T,
             (AXML, "AXMLParser._do_next", 4): SHIFT_T, (AXML, "ARSCHeader.__init__", 0): HDR_SKIP_T},
      samples=100, max_paths=20000, timeout_ms=120000, terminates=True,
      note="termination of the chunk loop: file of any length and content, arbitrary parser state; variant = bytes left")
def chunk_loop_terminates(U):
    m = U.mod(AXML)
    if U.mode != "sym":
        n = U.int("n", 0, 96)
        data = bytes(U.bytes("data", n))
        p = _parser(U, m, data, U.int("p0", 0, n), n)
        import struct as _s
        o = U.call(p._do_next)
        U.ensures("the step returns (event or error)", o.ok or o.raised(_s.error, m.ResParserError), exc=repr(o.exc))
        return
    mem = ubuf.SymMem("file")
    buf = ubuf.SymBuf(mem, 0, U.int("len", 0, ubuf.MAXLEN))
    p0 = U.int("p0", 0, ubuf.MAXLEN)
    p = bare(m.AXMLParser)
    p._valid, p.axml_tampered = True, False
    p.buff = ubuf.SymStreamU(buf, p0, "buff")
    p.buff_size, p.filesize = buf.length, U.int("filesize", 0, ubuf.MAXLEN)
    p.sb, p.m_resourceIDs, p.namespaces, p.m_event = _SB(), [], [], -1
    p._reset()
    for sp in (CHUNKS, RESMAP_T, ATTRS_T, SHIFT_T, HDR_SKIP_T):
        sp.G = {"U": U, "p0": p0}
    o = U.call(p._do_next)
    U.ensures("the step returns (event or error)", o.ok or o.raised(m.__pyvc_struct__.error, m.ResParserError), exc=repr(o.exc))
    if o.ok and p._valid:
        # progress per call (what the callers' loops -- AXMLPrinter.__init__, get_apkid -- rely on): a step that reports a tag or text
        # has consumed at least one chunk header
        U.ensures("a step that reports START_TAG / END_TAG / TEXT leaves the stream at least 8 bytes further",
                  Or(p.m_event == m.END_DOCUMENT, p.buff.pos >= p0 + 8), event=p.m_event)


class _SBIdx:
    def __getitem__(self, i):
        return ("string", i)


@unit("C26", covers=[(AXML, "AXMLParser.getAttributeValue"), (AXML, "AXMLParser._get_attribute_offset")], samples=100,
      note="the string of a TYPE_STRING attribute is the one its typed value (Res_value.data) indexes; the optional raw value only "
           "when the typed value is 0xFFFFFFFF; every other type yields ''")
def attribute_string_value(U):
    m = U.mod(AXML)
    p = bare(m.AXMLParser)
    p.m_event = m.START_TAG
    words = [U.int("w%d" % i, 0, 0xFFFFFFFF) for i in range(10)]
    vtype = U.int("type", 0, 255)
    words[5 + 3] = vtype
    p.m_attributes = list(words)
    p.m_attribute_count = 2
    p.sb = _SBIdx()
    o = U.call(p.getAttributeValue, 1)
    U.ensures("does not raise", o.ok, exc=repr(o.exc))
    if not o.ok:
        return
    raw, data = words[5 + 2], words[5 + 4]
    if vtype == 3:      # forks
        if data == 0xFFFFFFFF:
            U.ensures("without a typed string index the raw value's string is returned", And(o.value[0] == "string", Eq(o.value[1], raw)))
        else:
            U.ensures("the string indexed by the typed value is returned", And(o.value[0] == "string", Eq(o.value[1], data)))
    else:
        U.ensures("attributes of another type have no string value", o.value == "")
