"""C31  Manifest queries report what the manifest declares (DESIGN §7 C31)."""
import random

from pyvc.core import And, Eq, Implies, Ite, Not, Or
from pyvc.strings import mk
from pyvc.unit import bare, unit
from specs import axmlwriter as W

APKF = "androguard/core/apk/__init__.py"
META = {
    "technique": 'contract-based deductive verification: symbolic execution of the real functions against sidecar contracts (z3/cvc5) for the proved units; bounded contract evaluation (enumerated scope / independent writer) for the rest',
    "level": "other",
    "partial": True,
    "level_text": "Proof (pure rules): APK._format_value completes a component name with the package by Android's rule for every "
                  "name of 0..5 symbolic characters (leading dot -> package+name, no dot -> package.name, else unchanged); "
                  "get_effective_target_sdk_version is target, else min, else 1 (non-numeric -> 1) over all presence/format cases; "
                  "_get_permission_maxsdk. Bounded (model-based): random manifest models (package, versions, uses-permission and "
                  "uses-permission-sdk-23 with duplicates and (decimal or hexadecimal) maxSdkVersion, decimal / hexadecimal / codename "
                  "SDK versions, the four component kinds with short/absolute names, launcher intent filters, "
                  "uses-sdk, uses-feature, uses-library) serialised to binary XML by the independent writer and analysed by the real "
                  "APK._apk_analysis and query methods.",
    "trusted": ["independent AXML writer (specs/axmlwriter.py)", "AXMLPrinter (C26) and lxml", "zip reader replaced by a stub holding "
                "AndroidManifest.xml"],
    "explanation": "name-completion and SDK rules proved; the XML queries are bounded (generated manifests).",
    "assumptions": ["the order of the reported lists is not part of the statement (find_tags collects elements in a set): "
                    "lists are compared as multisets"],
}


def _apk(m, pkg="com.x"):
    a = bare(m.APK)
    a.package = pkg
    return a


@unit("C31", covers=[(APKF, "APK._format_value")], params=[{"n": n} for n in range(0, 6)], samples=60)
def component_name_completion(U, n):
    m = U.mod(APKF)
    a = _apk(m)
    s = U.str("name", n, 0x20, 0x7E)
    o = U.call(a._format_value, s)
    U.ensures("does not raise", o.ok, exc=repr(o.exc))
    if not o.ok:
        return
    cps = list(s.items) if hasattr(s, "items") else [ord(c) for c in s]
    if n == 0:
        U.ensures("empty name is left alone", o.value == s)
        return
    has_dot = Or(*[c == 0x2E for c in cps])
    if cps[0] == 0x2E:          # forks
        want = "com.x" + s
    elif has_dot:
        want = s
    else:
        want = "com.x." + s
    U.ensures("Android's rule: '.Name' -> package.Name, 'Name' -> package.Name, qualified names unchanged", o.value == want,
              got=o.value if U.mode == "conc" else None)
    b = _apk(m, "")
    U.ensures("without a package the name is unchanged", U.call(b._format_value, s).value == s)


@unit("C31", covers=[(APKF, "APK.get_effective_target_sdk_version")])
def effective_target_sdk(U):
    m = U.mod(APKF)
    t = U.choice("target", [None, "", "26", "x", "0"])
    mn = U.choice("min", [None, "", "19", "y"])
    a = _apk(m)
    a.get_target_sdk_version = lambda: t
    a.get_min_sdk_version = lambda: mn
    o = U.call(a.get_effective_target_sdk_version)

    def num(x):
        try:
            return int(x)
        except (ValueError, TypeError):
            return None
    want = num(t) if t else num(mn)
    if want is None:
        want = 1
    U.ensures("target if declared, else min, else 1; non-numeric -> 1", o.ok and o.value == want, got=o.value, want=want)


class _Zip:
    def __init__(self, manifest):
        self.m = manifest

    def read(self, n):
        if n != "AndroidManifest.xml":
            raise KeyError(n)
        return self.m

    def namelist(self):
        return ["AndroidManifest.xml"]


A = W.ANDROID_NS


def _attr(name, value, rid=None):
    kind = "str" if isinstance(value, str) else "int"
    return W.Attr(name, (kind, value), A, rid)


def _model(rng):
    pkg = rng.choice(["com.example.app", "org.x", "a.b.c.d"])
    mo = {"package": pkg, "versionCode": rng.randint(1, 99999), "versionName": rng.choice(["1.0", "2.3.4-beta", "7"]),
          "perms": [], "components": {"activity": [], "service": [], "receiver": [], "provider": []}, "main": [],
          "min": rng.choice([None, 14, 21, ("hex", 21), "Q"]), "target": rng.choice([None, 26, 33, ("hex", 28), "Tiramisu"]),
          "max": rng.choice([None, 34]), "features": [], "libraries": []}
    for _ in range(rng.randint(0, 5)):
        # permission names are opaque strings (PackageParser reads them verbatim): dotted, dot-less and leading-dot names,
        # and the same name requested by several elements
        mo["perms"].append((rng.choice(["android.permission.INTERNET", "android.permission.CAMERA", "com.x.P", "android.permission.READ_SMS",
                                        "SYNC_DATA", ".LOCAL", "SYNC_DATA", pkg + ".SYNC_DATA"]),
                            rng.choice([None, None, 18, 22]), rng.choice(["uses-permission", "uses-permission", "uses-permission-sdk-23"])))
    for kind in mo["components"]:
        for _ in range(rng.randint(0, 3)):
            nm = rng.choice([".Main", "Short", pkg + ".Full", "other.pkg.Cls", ".sub.Deep"]) + str(rng.randint(0, 9))
            main = kind == "activity" and rng.random() < 0.4
            if kind == "activity" and not main and rng.random() < 0.25:
                main = "split"          # MAIN in one intent filter, LAUNCHER in another: not a launcher activity
            mo["components"][kind].append((nm, main))
    for _ in range(rng.randint(0, 2)):
        mo["features"].append(rng.choice(["android.hardware.camera", "android.hardware.nfc", "android.software.leanback", "camera", ".touch"]))
    for _ in range(rng.randint(0, 2)):
        mo["libraries"].append(rng.choice(["org.apache.http.legacy", "com.google.android.maps", "mylib", ".locallib"]))
    return mo


def _complete(pkg, n):
    if n.startswith("."):
        return pkg + n
    if "." not in n:
        return pkg + "." + n
    return n


def _serialise(mo, rng):
    root = W.Elem("manifest", attrs=[W.Attr("package", ("str", mo["package"])), _attr("versionCode", mo["versionCode"], 0x0101021B),
                                     _attr("versionName", mo["versionName"], 0x0101021C)])
    sdk = []
    for nm, v, rid in (("minSdkVersion", mo["min"], 0x0101020C), ("targetSdkVersion", mo["target"], 0x01010270)):
        if isinstance(v, tuple):                  # the integer stored with the hexadecimal data type
            a_v = _attr(nm, v[1], rid)
            a_v.value = v
            sdk.append(a_v)
        elif v is not None:                       # decimal integer, or a string (codename of a preview release)
            sdk.append(_attr(nm, v, rid))
    if mo["max"] is not None:
        sdk.append(_attr("maxSdkVersion", mo["max"], 0x01010271))
    if sdk:
        root.children.append(W.Elem("uses-sdk", attrs=sdk))
    for p, mx, tag in mo["perms"]:
        at = [_attr("name", p, 0x01010003)]
        if mx is not None:
            a_mx = _attr("maxSdkVersion", mx, 0x01010271)
            if rng.random() < 0.4:
                a_mx.value = ("hex", mx)          # the same integer stored with the hexadecimal data type
            at.append(a_mx)
        root.children.append(W.Elem(tag, attrs=at))
    for f in mo["features"]:
        root.children.append(W.Elem("uses-feature", attrs=[_attr("name", f, 0x01010003)]))
    app = W.Elem("application", attrs=[_attr("label", "App", 0x01010001)])
    for kind, items in mo["components"].items():
        for nm, main in items:
            e = W.Elem(kind, attrs=[_attr("name", nm, 0x01010003)])
            if main == "split":
                e.children.append(W.Elem("intent-filter", children=[
                    W.Elem("action", attrs=[_attr("name", "android.intent.action.MAIN", 0x01010003)]),
                    W.Elem("category", attrs=[_attr("name", "android.intent.category.DEFAULT", 0x01010003)])]))
                e.children.append(W.Elem("intent-filter", children=[
                    W.Elem("action", attrs=[_attr("name", "android.intent.action.VIEW", 0x01010003)]),
                    W.Elem("category", attrs=[_attr("name", "android.intent.category.LAUNCHER", 0x01010003)])]))
            elif main:
                e.children.append(W.Elem("intent-filter", children=[
                    W.Elem("action", attrs=[_attr("name", "android.intent.action.MAIN", 0x01010003)]),
                    W.Elem("category", attrs=[_attr("name", "android.intent.category.LAUNCHER", 0x01010003)])]))
            app.children.append(e)
    for l in mo["libraries"]:
        app.children.append(W.Elem("uses-library", attrs=[_attr("name", l, 0x01010003)]))
    root.children.append(app)
    return W.write(root, utf8=rng.random() < 0.5)


def _fresh_apk(m, data):
    a = bare(m.APK)
    a.filename = "x.apk"
    a.xml, a.axml, a.arsc = {}, {}, {}
    a.package, a.androidversion, a.permissions, a.uses_permissions, a.declared_permissions = "", {}, [], [], {}
    a.valid_apk = False
    a._files, a.files_crc32 = {}, {}
    a.zip = _Zip(data)
    return a


@unit("C31", covers=[(APKF, "APK._apk_analysis"), (APKF, "APK.find_tags"), (APKF, "APK.get_all_attribute_value"), (APKF, "APK.get_value_from_tag"),
                     (APKF, "APK.get_main_activities"), (APKF, "APK.get_main_activity"), (APKF, "APK._get_permission_maxsdk"),
                     (APKF, "APK.get_activities"), (APKF, "APK.get_features"), (APKF, "APK.get_libraries")], level="bounded", samples=120,
      note="seeded random manifest models -> independent binary-XML writer -> real APK._apk_analysis and queries")
def generated_manifests(U):
    m = U.mod(APKF)
    seed = U.int("seed", 0, 1 << 30)
    rng = random.Random(seed)
    mo = _model(rng)
    data = _serialise(mo, rng)
    a = _fresh_apk(m, data)
    o = U.call(a._apk_analysis)
    U.ensures("analysis does not raise", o.ok, exc=repr(o.exc)[:300])
    if not o.ok:
        return
    pkg = mo["package"]
    U.ensures("package, version code and name", (a.get_package(), a.get_androidversion_code(), a.get_androidversion_name()) ==
              (pkg, str(mo["versionCode"]), mo["versionName"]), got=(a.get_package(), a.get_androidversion_code(), a.get_androidversion_name()))
    want_p = sorted(set(p for p, _, _ in mo["perms"]))
    U.ensures("requested permissions as written, without duplicates", sorted(a.get_permissions()) == want_p and len(a.get_permissions()) == len(want_p),
              got=sorted(a.get_permissions()), want=want_p)
    key = lambda t: (t[0], -1 if t[1] is None else t[1])
    U.ensures("each uses-permission with its maxSdkVersion", sorted((tuple(x) for x in a.uses_permissions), key=key) ==
              sorted(((p, mx) for p, mx, _ in mo["perms"]), key=key), got=a.uses_permissions)
    for kind, getter in (("activity", a.get_activities), ("service", a.get_services), ("receiver", a.get_receivers), ("provider", a.get_providers)):
        want = [_complete(pkg, n) for n, _ in mo["components"][kind]]
        U.ensures("%s names completed with the package name" % kind, sorted(getter()) == sorted(want), got=sorted(getter()), want=sorted(want))
    mains = sorted(_complete(pkg, n) for n, mn in mo["components"]["activity"] if mn is True)
    got_main = a.get_main_activity()
    U.ensures("main activity is a declared launcher activity (None if there is none)",
              (got_main is None and not mains) or (got_main in mains), got=got_main, want=mains)
    # the same declarations written with fully qualified names are the same manifest: the answer may not depend on the spelling
    mo2 = dict(mo, components={k: [(_complete(pkg, n), mn) for n, mn in v] for k, v in mo["components"].items()})
    a2 = _fresh_apk(m, _serialise(mo2, random.Random(seed)))
    o2 = U.call(a2._apk_analysis)
    U.ensures("main activity does not depend on whether names are written relative or fully qualified",
              o2.ok and a2.get_main_activity() == got_main, got=got_main, qualified=a2.get_main_activity() if o2.ok else repr(o2.exc))
    U.ensures("all launcher activities are reported", sorted(_complete(pkg, x) for x in a.get_main_activities()) == sorted(set(mains)),
              got=sorted(a.get_main_activities()))
    # a version is reported as the attribute's string: the decimal number, the 0x... text of a hexadecimal integer, or the codename
    def same(got, v):
        if isinstance(v, tuple):
            return isinstance(got, str) and got.lower().startswith("0x") and int(got, 16) == v[1]
        return got == (None if v is None else str(v))
    got_v = (a.get_min_sdk_version(), a.get_target_sdk_version(), a.get_max_sdk_version())
    U.ensures("SDK versions", same(got_v[0], mo["min"]) and same(got_v[1], mo["target"]) and same(got_v[2], mo["max"]), got=got_v,
              want=(mo["min"], mo["target"], mo["max"]))
    num = lambda v: v[1] if isinstance(v, tuple) else (v if isinstance(v, int) else None)
    # Android: the target defaults to the minimum version; a codename is not a number (androguard answers 1 then, as for "not set")
    first = mo["target"] if mo["target"] is not None else mo["min"]
    eff = num(first) or 1
    U.ensures("effective target SDK", a.get_effective_target_sdk_version() == eff, got=a.get_effective_target_sdk_version(), want=eff)
    U.ensures("features and libraries", sorted(a.get_features()) == sorted(mo["features"]) and sorted(a.get_libraries()) == sorted(mo["libraries"]),
              got=(list(a.get_features()), list(a.get_libraries())))
