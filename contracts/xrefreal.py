"""Real-DEX worlds for the xref suite (C13-C16, C40): random class models whose methods hold invoke / const-string / new-instance /
const-class / field instructions are assembled into REAL DEX files by the independent writer (specs/dexwriter.py), one merged
file and every split into 1..3 files; the real DEX parser and the real Analysis run on them (no stub objects).  The expected
cross-references are computed from the model."""
import itertools
import random
import struct

from specs import dexwriter as DW

ANA = "androguard/core/analysis/analysis.py"
DEXF = "androguard/core/dex/__init__.py"
INVOKES = [0x6E, 0x6F, 0x70, 0x71, 0x72, 0x74, 0x75, 0x76, 0x77, 0x78]
IGET, IPUT, SGET, SPUT = list(range(0x52, 0x59)), list(range(0x59, 0x60)), list(range(0x60, 0x67)), list(range(0x67, 0x6E))
V = ("V", ())


def model(rng):
    """-> list of classes: name -> {'methods': {name: [ins]}}; ins = (kind, payload, opcode)"""
    ncls = rng.randint(2, 4)
    names = ["Lp/C%d;" % i for i in range(ncls)]
    ext_m = [("Lext/E;", "x", V), ("Ljava/lang/Object;", "hashCode", ("I", ()))]
    strings = ["s0", "s1", "héllo", ""]
    types = names + ["Lext/E;", "[Lp/C0;", "[[Lp/C1;", "[I", "[[[Lext/E;"]
    classes = []
    for n in names:
        meths = {}
        for m in ("m0", "m1"):
            body = []
            for _ in range(rng.randint(0, 5)):
                k = rng.random()
                if k < 0.35:
                    tgt = rng.choice([(c, mm, V) for c in names for mm in ("m0", "m1")] + ext_m +
                                     [("[Lp/C1;", "clone", ("Ljava/lang/Object;", ())), ("[I", "clone", ("Ljava/lang/Object;", ())),
                                      ("[[Lp/C0;", "clone", ("Ljava/lang/Object;", ())), ("[[[Lext/E;", "clone", ("Ljava/lang/Object;", ()))])
                    body.append(("invoke", tgt, rng.choice(INVOKES)))
                elif k < 0.5:
                    body.append(("string", rng.choice(strings), rng.choice([0x1A, 0x1A, 0x1B])))
                elif k < 0.62:
                    body.append(("new", rng.choice(types), 0x22))
                elif k < 0.74:
                    body.append(("constclass", rng.choice(types), 0x1C))
                elif k < 0.9:
                    inst = rng.random() < 0.5
                    rd = rng.random() < 0.5
                    # a field of the accessing class itself; two instance fields share the name f (types I and J)
                    f = (n, "f" if inst else "s", rng.choice(["I", "J"]) if inst else "I")
                    body.append(("read" if rd else "write", f, rng.choice((IGET if rd else IPUT) if inst else (SGET if rd else SPUT))))
                else:
                    body.append(("nop", None, 0x00))
            meths[m] = body
        classes.append({"name": n, "methods": meths})
    return classes


def _assemble(body, ix):
    out = bytearray()
    for kind, p, op in body:
        if kind == "invoke":
            i = ix["methods"][(p[0], p[1], (p[2][0], tuple(p[2][1])))]
            out += struct.pack("<BBHH", op, 0, i, 0)
        elif kind == "string":
            i = ix["strings"][p]
            out += struct.pack("<BBH", op, 0, i) if op == 0x1A else struct.pack("<BBI", op, 0, i)
        elif kind in ("new", "constclass"):
            out += struct.pack("<BBH", op, 0, ix["types"][p])
        elif kind in ("read", "write"):
            out += struct.pack("<BBH", op, 0x00, ix["fields"][p])
        else:
            out += b"\x00\x00"
    return bytes(out + b"\x0e\x00")


def offsets(body):
    """[(offset, ins)]"""
    out, off = [], 0
    for ins in body:
        out.append((off, ins))
        off += {"invoke": 6, "string": 4 if ins[2] == 0x1A else 6, "new": 4, "constclass": 4, "read": 4, "write": 4, "nop": 2}[ins[0]]
    return out


def dex_bytes(classes):
    cl = []
    for c in classes:
        refs = {"strings": [], "types": [], "fields": [], "methods": []}
        dm = []
        for mn, body in sorted(c["methods"].items()):
            for kind, p, op in body:
                if kind == "invoke":
                    refs["methods"].append((p[0], p[1], (p[2][0], tuple(p[2][1]))))
                elif kind == "string":
                    refs["strings"].append(p)
                elif kind in ("new", "constclass"):
                    refs["types"].append(p)
                elif kind in ("read", "write"):
                    refs["fields"].append(p)
            code = dict(registers=2, ins=0, outs=0, insns=(lambda ix, body=body: _assemble(body, ix)))
            dm.append((mn, "V", [], 0x9, code))
        cl.append(dict(name=c["name"], access=1, super="Ljava/lang/Object;", interfaces=[], source=None,
                       sfields=[("s", "I", 0x9)], ifields=[("f", "I", 0x1), ("f", "J", 0x1)], dmethods=dm, vmethods=[], refs=refs))
    return DW.write(cl)


def splits(classes):
    """the merged file first, then partitions into 2 and 3 files in every order (capped)"""
    n = len(classes)
    yield [list(range(n))]
    seen = 0
    for k in (2, 3):
        for assign in itertools.product(range(k), repeat=n):
            if len(set(assign)) != k:
                continue
            groups = [[i for i in range(n) if assign[i] == g] for g in range(k)]
            yield groups
            seen += 1
            if seen > 12:
                return


def strip(t):
    return t.lstrip("[")


def expected(classes):
    """model-side cross-references: invokes[(caller key)] = {(callee class, name, desc, offset)}, strings[s] = {(caller, offset)},
    new / const per class name = {(caller, offset)}, reads / writes per field"""
    defined = {c["name"] for c in classes}
    exp = {"to": {}, "strings": {}, "new": {}, "const": {}, "read": {}, "write": {}}
    for c in classes:
        for mn, body in c["methods"].items():
            me = (c["name"], mn, "()V")
            for off, (kind, p, op) in offsets(body):
                if kind == "invoke":
                    cls = strip(p[0])
                    if cls.startswith("L"):
                        desc = "(" + " ".join(p[2][1]) + ")" + p[2][0]
                        exp["to"].setdefault(me, set()).add((cls, p[1], desc, off))
                elif kind == "string":
                    exp["strings"].setdefault(p, set()).add((me, off))
                elif kind in ("new", "constclass"):
                    t = strip(p)
                    if t.startswith("L") and t != c["name"]:
                        exp["new" if kind == "new" else "const"].setdefault(t, set()).add((me, off))
                elif kind in ("read", "write"):
                    exp[kind].setdefault(p, set()).add((me, off))
    return exp, defined


def analyse(U, classes, groups):
    """real DEX objects for the groups of classes, one real Analysis over all of them"""
    dexm, anam = U.mod(DEXF), U.mod(ANA)
    dx = anam.Analysis()
    for k, g in enumerate(groups):
        data = dex_bytes([classes[i] for i in g])
        if len(groups) > 1 and sum(len(x) for x in groups) % 2:
            # the SHA-1 signature field is not verified by androguard (only the Adler-32 checksum is): files rewritten by patchers,
            # packers or assemblers carry a stale or zeroed one -- here: the same zeroed field in every file of the split
            import struct as _struct
            import zlib as _zlib
            b = bytearray(data)
            b[12:32] = bytes(20)
            _struct.pack_into("<I", b, 8, _zlib.adler32(bytes(b[12:])) & 0xFFFFFFFF)
            data = bytes(b)
        dx.add(dexm.DEX(data))
    dx.create_xref()
    return dx


NOTE = ("seeded random models of 2..4 classes (two static methods each, 0..5 instructions: invoke-* / invoke-*/range to internal, "
        "external and array-class methods, const-string and const-string/jumbo, new-instance / const-class incl. arrays, iget/iput/"
        "sget/sput variants on the class's own fields, nop) assembled into REAL DEX files by the independent writer: one merged file "
        "and up to 13 splits into 2..3 files (every other model with the unverified SHA-1 signature field zeroed in all files of a "
        "split); real DEX parser and real Analysis, no stub objects")
