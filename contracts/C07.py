"""C07  DEX parsing does not depend on the order of the map list (DESIGN §7 C07)."""
import itertools
import os
import random
import struct
import zlib

from pyvc.core import And, Eq, Implies, Ite, Not, Or
from pyvc.unit import unit

DEX = "androguard/core/dex/__init__.py"
TYPES = "androguard/core/dex/dex_types.py"
META = {
    "technique": 'contract-based deductive verification: symbolic execution of the real functions against sidecar contracts (z3/cvc5) for the proved units; bounded contract evaluation (enumerated scope / independent writer) for the rest',
    "level": "other",
    "partial": True,
    "level_text": "Proof (closed evaluation, no inputs): TypeMapItem.determine_load_order() terminates, is total and injective on "
                  "TypeMapItem and topological for _get_dependencies(). Proof by exhaustive permutation (stub map items, real "
                  "MapList.__init__): for every permutation of 5-entry maps over four type selections the sequence of parse() calls "
                  "and class-manager registrations is the load order, independent of the file order. Bounded: shipped small DEX files "
                  "with their map list permuted (seeded random permutations, checksum fixed) parse to the same object model digest.",
    "trusted": ["sorted() is a stable sort by key (CPython)", "map entry types are pairwise distinct (DEX rule)"],
    "explanation": "load order proved; MapList sorting proved for all permutations of small maps; end-to-end bounded on shipped files.",
    "assumptions": ["that every construction-time access of an item parser is covered by _get_dependencies() is only checked by the "
                    "bounded end-to-end runs"],
}


@unit("C07", covers=[(TYPES, "TypeMapItem.determine_load_order"), (TYPES, "TypeMapItem._get_dependencies")])
def load_order(U):
    m = U.mod(DEX)
    T = m.TypeMapItem
    o = U.call(T.determine_load_order)
    U.ensures("terminates without error", o.ok, exc=repr(o.exc))
    if not o.ok:
        return
    order = o.value
    deps = T._get_dependencies()
    U.ensures("total on TypeMapItem", set(order) == set(T), missing=[t.name for t in set(T) - set(order)])
    U.ensures("injective", len(set(order.values())) == len(order))
    U.ensures("topological: every dependency is loaded before its dependant",
              all(order[d] < order[t] for t, ds in deps.items() for d in ds),
              bad=[(t.name, d.name) for t, ds in deps.items() for d in ds if order[d] >= order[t]])
    U.ensures("dependency table is total on TypeMapItem", set(deps) == set(T))


def _sets(T):
    return [
        [T.STRING_DATA_ITEM, T.STRING_ID_ITEM, T.TYPE_ID_ITEM, T.CLASS_DEF_ITEM, T.MAP_LIST],
        [T.CODE_ITEM, T.CLASS_DATA_ITEM, T.METHOD_ID_ITEM, T.PROTO_ID_ITEM, T.TYPE_LIST],
        [T.HEADER_ITEM, T.DEBUG_INFO_ITEM, T.ANNOTATION_ITEM, T.FIELD_ID_ITEM, T.ENCODED_ARRAY_ITEM],
        [T.ANNOTATIONS_DIRECTORY_ITEM, T.ANNOTATION_SET_ITEM, T.ANNOTATION_SET_REF_LIST, T.HIDDENAPI_CLASS_DATA_ITEM, T.CALL_SITE_ITEM],
    ]


@unit("C07", covers=[(DEX, "MapList.__init__")], params=[{"sel": s} for s in range(4)])
def maplist_sorts_before_parsing(U, sel):
    """all 120 file orders of a 5-entry map: parse()/registration happen in load order"""
    m = U.mod(DEX)
    T = m.TypeMapItem
    types = _sets(T)[sel]
    order = T.determine_load_order()
    want = sorted(types, key=lambda t: order[t])
    log = []

    class FakeItem:
        def __init__(self, buff, cm):
            self.type = T(struct.unpack("<H", buff.read(2))[0])
            buff.read(10)

        def get_length(self):
            return 12

        def get_type(self):
            return self.type

        def parse(self):
            log.append(("parse", self.type))

        def get_item(self):
            return ("item", self.type)

        def set_item(self, x):
            pass

    class FakeCM:
        packer = U.packer()

        def add_type_item(self, t, mi, item):
            log.append(("add", t))

    saved = m.MapItem
    m.MapItem = FakeItem
    ok_all = True
    bad = None
    try:
        for perm in itertools.permutations(types):
            del log[:]
            data = struct.pack("<I", len(perm)) + b"".join(struct.pack("<HHII", int(t), 0, 1, 0) for t in perm)
            import io
            o = U.call(m.MapList, FakeCM(), 0, io.BytesIO(data))
            exp = []
            for t in want:
                exp += [("parse", t), ("add", t)]
            if not o.ok or log != exp:
                ok_all, bad = False, ([t.name for t in perm], [(a, t.name) for a, t in log], repr(o.exc))
                break
    finally:
        m.MapItem = saved
    U.ensures("parse order is the load order for every permutation of the map entries", ok_all, counterexample=bad)


@unit("C07", covers=[(DEX, "MapList.__init__")], level="bounded", samples=150,
      note="all 21 map item types present, seeded random file orders; parse()/registration sequence must be the load order")
def full_map_random_orders(U):
    m = U.mod(DEX)
    T = m.TypeMapItem
    seed = U.int("seed", 0, 1 << 30)
    types = list(T)
    random.Random(seed).shuffle(types)
    order = T.determine_load_order()
    want = sorted(types, key=lambda t: order[t])
    log = []

    class FakeItem:
        def __init__(self, buff, cm):
            self.type = T(struct.unpack("<H", buff.read(2))[0])
            buff.read(10)

        def get_length(self):
            return 12

        def get_type(self):
            return self.type

        def parse(self):
            log.append(self.type)

        def get_item(self):
            return 1

    class FakeCM:
        packer = U.packer()

        def add_type_item(self, t, mi, item):
            pass

    saved = m.MapItem
    m.MapItem = FakeItem
    try:
        import io
        data = struct.pack("<I", len(types)) + b"".join(struct.pack("<HHII", int(t), 0, 1, 0) for t in types)
        o = U.call(m.MapList, FakeCM(), 0, io.BytesIO(data))
    finally:
        m.MapItem = saved
    U.ensures("parse order is the load order whatever the file order", o.ok and log == want, got=[t.name for t in log][:8])


def _permute_map(data, rng):
    """same file with its map_list entries permuted and the checksum recomputed"""
    b = bytearray(data)
    map_off = struct.unpack_from("<I", b, 0x34)[0]
    n = struct.unpack_from("<I", b, map_off)[0]
    ents = [bytes(b[map_off + 4 + 12 * i: map_off + 16 + 12 * i]) for i in range(n)]
    rng.shuffle(ents)
    b[map_off + 4: map_off + 4 + 12 * n] = b"".join(ents)
    import hashlib
    b[12:32] = hashlib.sha1(bytes(b[32:])).digest()
    struct.pack_into("<I", b, 8, zlib.adler32(bytes(b[12:])) & 0xFFFFFFFF)
    return bytes(b)


def _digest(d):
    out = []
    for c in d.get_classes():
        out.append(("class", c.get_name(), c.get_superclassname(), tuple(c.get_interfaces()), c.get_access_flags()))
        for f in c.get_fields():
            out.append(("field", f.get_class_name(), f.get_name(), f.get_descriptor(), f.get_access_flags()))
        for me in c.get_methods():
            code = me.get_code()
            out.append(("method", me.get_class_name(), me.get_name(), me.get_descriptor(), me.get_access_flags(),
                        bytes(code.get_bc().get_insn()) if code else None))
    out.append(("strings", tuple(d.get_strings())))
    return out


FILES = ["Test.dex", "ExceptionHandling.dex", "FillArrays.dex", "InterfaceCls.dex", "StringTests.dex", "AnalysisTest.dex", "FieldsTest.dex"]


@unit("C07", covers=[(DEX, "MapList.__init__"), (DEX, "MapItem.parse"), (DEX, "DEX._load")], level="bounded", samples=60,
      note="seeded random permutations of the map lists of seven shipped DEX files (checksum and signature recomputed); the "
           "classes/fields/methods/code bytes/strings digest must equal that of the original file")
def permuted_files(U):
    m = U.mod(DEX)
    base = os.path.join("/repo", "tests", "data", "APK")
    which = U.choice("file", FILES)
    seed = U.int("seed", 0, 1 << 30)
    data = open(os.path.join(base, which), "rb").read()
    ref = U.call(lambda: _digest(m.DEX(data)))
    U.ensures("original parses", ref.ok, exc=repr(ref.exc))
    perm = _permute_map(data, random.Random(seed))
    got = U.call(lambda: _digest(m.DEX(perm)))
    U.ensures("permuted file parses", got.ok, exc=repr(got.exc), file=which)
    if ref.ok and got.ok:
        U.ensures("same classes, members, code and strings as the original", got.value == ref.value, file=which)
