"""C03  LEB128 integers decode to the value their bytes encode (DESIGN §7 C03)."""
from pyvc.core import And, Eq, Ite, Not, Or
from pyvc.unit import unit
from specs import leb128 as S

DEX = "androguard/core/dex/__init__.py"
META = {
    "level": "proof",
    "level_text": "Every byte sequence of length 0..6 (all 2^40 five-byte patterns symbolically) and every 32-bit value: each "
                  "path of the real readers/writers is executed on symbolic bytes and its result proved equal to the DEX-format "
                  "spec function; round trips proved through the real reader. Loops in the writers are unrolled completely "
                  "(bounded by the 32-bit precondition, not by a chosen bound).",
    "trusted": ["struct model (pyvc/models.py) for 'B'", "io.BytesIO model (SymStream): read/tell on a finite buffer"],
    "assumptions": ["the stream holds the bytes given; get_byte reads through cm.packer['B'] (model of DalvikPacker)"],
}


@unit("C03", covers=[(DEX, "readuleb128"), (DEX, "get_byte")], params=[{"n": k} for k in range(0, 7)])
def readuleb128(U, n):
    """all byte sequences: n bytes available in the stream (0..6)"""
    m = U.mod(DEX)
    b = U.bytes("b", n)
    buff = U.stream(b)
    o = U.call(m.readuleb128, U.cm(), buff)
    need = S.leb_len(b) if n else 1
    short = (need > n) if n < 5 else False
    if n == 0:
        U.ensures("empty stream raises struct.error", o.raised(m.struct.error))
        return
    # an encoding that runs past the end of the stream must raise, any other must not
    trunc = And(*[b[i] >= 0x80 for i in range(n)]) if n < 5 else False
    if o.exc is not None:
        U.ensures("raises only when the encoding is truncated", And(trunc, o.raised(m.struct.error)))
        return
    U.ensures("does not return on a truncated encoding", Not(trunc))
    U.ensures("value is the 32-bit ULEB128 value", o.value == S.uleb32(b), got=o.value, want=S.uleb32(b), b=b)
    U.ensures("stream advanced by the encoded length", buff.tell() == S.leb_len(b), pos=buff.tell())


@unit("C03", covers=[(DEX, "readuleb128p1")], params=[{"n": 5}])
def readuleb128p1(U, n):
    m = U.mod(DEX)
    b = U.bytes("b", n)
    buff = U.stream(b)
    o = U.call(m.readuleb128p1, U.cm(), buff)
    U.ensures("no exception", o.ok)
    if o.ok:
        U.ensures("value is ULEB128 minus one", o.value == S.uleb32(b) - 1, got=o.value)
        U.ensures("stream advanced by the encoded length", buff.tell() == S.leb_len(b))


@unit("C03", covers=[(DEX, "readsleb128")], params=[{"n": k} for k in range(0, 7)])
def readsleb128(U, n):
    m = U.mod(DEX)
    b = U.bytes("b", n)
    buff = U.stream(b)
    o = U.call(m.readsleb128, U.cm(), buff)
    if n == 0:
        U.ensures("empty stream raises struct.error", o.raised(m.struct.error))
        return
    trunc = And(*[b[i] >= 0x80 for i in range(n)]) if n < 5 else False
    if o.exc is not None:
        U.ensures("raises only when the encoding is truncated", And(trunc, o.raised(m.struct.error)))
        return
    U.ensures("does not return on a truncated encoding", Not(trunc))
    U.ensures("value is the 32-bit SLEB128 value", o.value == S.sleb32(b), got=o.value, want=S.sleb32(b), b=b)
    U.ensures("stream advanced by the encoded length", buff.tell() == S.leb_len(b), pos=buff.tell())


def _as_list(x):
    return list(x.items) if hasattr(x, "items") else list(x)


@unit("C03", covers=[(DEX, "writeuleb128")])
def writeuleb128(U):
    """for all 0 <= x < 2^32: canonical length, continuation bits, and read(write(x)) == x"""
    m = U.mod(DEX)
    x = U.int("x", 0, 0xFFFFFFFF)
    o = U.call(m.writeuleb128, U.cm(), x)
    U.ensures("no exception for a 32-bit value", o.ok)
    if not o.ok:
        return
    out = _as_list(o.value)
    U.ensures("canonical length", len(out) == S.uleb_enc_len(x), n=len(out))
    U.ensures("decodes to x (spec decoder)", S.uleb32(out) == x)
    U.ensures("self-delimiting", S.leb_len(out) == len(out))
    r = U.call(m.readuleb128, U.cm(), U.stream(o.value if U.mode == "sym" else bytes(o.value)))
    U.ensures("read(write(x)) == x", And(r.ok, r.value == x), got=r.value)


@unit("C03", covers=[(DEX, "writeuleb128")])
def writeuleb128_negative(U):
    m = U.mod(DEX)
    x = U.int("x", -(1 << 31), -1)
    o = U.call(m.writeuleb128, U.cm(), x)
    U.ensures("negative value is rejected", o.raised(ValueError))


@unit("C03", covers=[(DEX, "writeuleb128"), (DEX, "readuleb128p1")])
def uleb128p1_roundtrip(U):
    m = U.mod(DEX)
    x = U.int("x", -1, 0xFFFFFFFE)
    o = U.call(m.writeuleb128, U.cm(), x + 1)
    U.ensures("no exception", o.ok)
    if not o.ok:
        return
    r = U.call(m.readuleb128p1, U.cm(), U.stream(o.value if U.mode == "sym" else bytes(o.value)))
    U.ensures("readp1(write(x+1)) == x", And(r.ok, r.value == x), got=r.value)


@unit("C03", covers=[(DEX, "writesleb128")])
def writesleb128(U):
    m = U.mod(DEX)
    x = U.int("x", -(1 << 31), (1 << 31) - 1)
    o = U.call(m.writesleb128, U.cm(), x)
    U.ensures("no exception for a 32-bit value", o.ok)
    if not o.ok:
        return
    out = _as_list(o.value)
    U.ensures("canonical length", len(out) == S.sleb_enc_len(x), n=len(out))
    U.ensures("decodes to x (spec decoder)", S.sleb32(out) == x)
    U.ensures("self-delimiting", S.leb_len(out) == len(out))
    r = U.call(m.readsleb128, U.cm(), U.stream(o.value if U.mode == "sym" else bytes(o.value)))
    U.ensures("read(write(x)) == x", And(r.ok, r.value == x), got=r.value)
