"""C06  DEX strings decode to exactly the UTF-16 text their MUTF-8 bytes encode (DESIGN §7 C06)."""
import random

from pyvc.core import And, Eq, Implies, Ite, Not, Or, SymBytes
from pyvc.unit import bare, unit

DEX = "androguard/core/dex/__init__.py"
META = {
    "technique": 'contract-based deductive verification: symbolic execution of the real functions against sidecar contracts (z3/cvc5) for the proved units, inductive loop invariants and termination variants on the real loops (unbounded in length and iteration count); bounded contract evaluation (enumerated scope / independent writer) for the rest',
    "level": "other",
    "partial": True,
    "level_text": "Loop contract (unbounded, with termination variant): read_null_terminated_string on a stream of any length and "
                  "content returns exactly the bytes from the start position to the first NUL (or to the end of the data) and "
                  "leaves the stream just behind the NUL. Proof: read_null_terminated_string on streams of 0..257 symbolic bytes (every content, hence every position of the "
                  "first NUL relative to the 128-byte chunk grid, and no NUL at all) from start positions 0 and 5 returns exactly the "
                  "bytes before the first NUL and leaves the stream just behind it; StringDataItem hands exactly those bytes to the "
                  "MUTF-8 decoder and returns its result unchanged; ClassManager.get_raw_string follows string_ids[idx] -> offset -> "
                  "item. Bounded: the external mutf8 decoder (assumed contract) is cross-checked through StringDataItem.get() on "
                  "random UTF-16 unit sequences (NUL, lone/paired surrogates, non-BMP) encoded by an independent MUTF-8 encoder.",
    "trusted": ["mutf8.decode_modified_utf8 (external package, not in /repo) implements MUTF-8 -> str; cross-checked on samples",
                "stream model (SymStream)"],
    "explanation": "repository carriers proved (bytes handed to the decoder / result passed on); decoder itself trusted + sampled.",
    "assumptions": ["stream lengths <= 257 cover 0, 1 and 2 chunk boundaries; the loop treats every chunk alike"],
}

LENS = [0, 1, 2, 127, 128, 129, 130, 255, 256, 257, 300]


def _items(b):
    return list(b.items) if hasattr(b, "items") else list(b)


@unit("C06", covers=[(DEX, "read_null_terminated_string")], params=[{"n": n, "p0": 0} for n in (0, 1, 2, 127, 128, 129, 256, 257)] + [{"n": n, "p0": 5} for n in (5, 130, 134, 200)],
      samples=60, max_paths=4000, timeout_ms=60000, terminates=True)
def null_terminated(U, n, p0):
    m = U.mod(DEX)
    b = U.bytes("data", n)
    bl = _items(b)
    f = U.stream(b, p0)
    o = U.call(m.read_null_terminated_string, f)
    U.ensures("terminates without error", o.ok, exc=repr(o.exc))
    if not o.ok:
        return
    got = _items(o.value)
    # position of the first NUL at or after p0 (forks)
    k = None
    for i in range(p0, n):
        if bl[i] == 0:
            k = i
            break
    if k is None:
        U.ensures("no NUL before EOF: everything up to EOF is returned", Eq(got, bl[p0:]), got_len=len(got))
        U.ensures("stream is at EOF", f.tell() == n)
    else:
        U.ensures("exactly the bytes before the first NUL", Eq(got, bl[p0:k]), got_len=len(got), nul_at=k)
        U.ensures("stream is just behind the NUL", f.tell() == k + 1, pos=f.tell(), nul_at=k)


class _Mutf8:
    def __init__(self):
        self.seen = []

    def decode(self, data):
        self.seen.append(data)
        return ("decoded", len(self.seen))


@unit("C06", covers=[(DEX, "StringDataItem.__init__"), (DEX, "StringDataItem.get"), (DEX, "StringDataItem.get_data")],
      params=[{"n": n} for n in (0, 1, 3, 6)], samples=30)
def string_data_item(U, n):
    m = U.mod(DEX)
    body = U.bytes("body", n)
    bb = _items(body)
    for x in bb:
        U.assume(x != 0)
    size = U.int("utf16_size", 0, 127)
    data = [size] + bb + [0, 0x41, 0x42]
    buff = U.stream(SymBytes(data) if U.mode == "sym" else bytes(data))
    o = U.call(m.StringDataItem, buff, U.cm())
    U.ensures("does not raise", o.ok, exc=repr(o.exc))
    if not o.ok:
        return
    it = o.value
    U.ensures("utf16_size and position", And(it.get_utf16_size() == size, buff.tell() == n + 2))
    U.ensures("data is the MUTF-8 bytes (without the NUL)", Eq(_items(it.data), bb))
    dec = _Mutf8()
    saved = m.mutf8
    m.mutf8 = dec
    try:
        g = U.call(it.get)
    finally:
        m.mutf8 = saved
    U.ensures("get() is the decoder's result for exactly those bytes",
              And(g.ok and g.value == ("decoded", 1) and len(dec.seen) == 1, Eq(_items(dec.seen[0]), bb) if dec.seen else False))


class _SID:
    def __init__(self, off):
        self.off = off

    def get_string_data_off(self):
        return self.off


class _SDI:
    def __init__(self, tag):
        self.tag = tag

    def get(self):
        return self.tag


@unit("C06", covers=[(DEX, "ClassManager.get_raw_string")])
def string_lookup(U):
    m = U.mod(DEX)
    cm = bare(m.ClassManager)
    offs = [100, 40, 77]
    setattr(cm, "_ClassManager__manage_item", {m.TypeMapItem.STRING_ID_ITEM: [_SID(o) for o in offs]})
    setattr(cm, "_ClassManager__strings_off", {40: _SDI("s40"), 100: _SDI("s100"), 77: _SDI("s77")})
    idx = U.choice("idx", [0, 1, 2, 3])
    o = U.call(cm.get_raw_string, idx)
    if idx < 3:
        U.ensures("string idx -> string_id.offset -> string_data_item.get()", o.ok and o.value == "s%d" % offs[idx], got=o.value)
    else:
        U.ensures("unknown index does not crash", o.ok)


def _enc_unit(u):
    if u == 0:
        return b"\xc0\x80"
    if u < 0x80:
        return bytes([u])
    if u < 0x800:
        return bytes([0xC0 | (u >> 6), 0x80 | (u & 0x3F)])
    return bytes([0xE0 | (u >> 12), 0x80 | ((u >> 6) & 0x3F), 0x80 | (u & 0x3F)])


def _units(s):
    out = []
    for ch in s:
        o = ord(ch)
        if o > 0xFFFF:
            o -= 0x10000
            out += [0xD800 + (o >> 10), 0xDC00 + (o & 0x3FF)]
        else:
            out.append(o)
    return out


@unit("C06", covers=[(DEX, "StringDataItem.get"), (DEX, "read_null_terminated_string")], level="bounded", samples=400,
      note="random UTF-16 unit sequences of length 0..40 (boundary-biased: NUL, 0x7f/0x80, 0x7ff/0x800, lone and paired surrogates), "
           "encoded by an independent MUTF-8 encoder, decoded through the real StringDataItem")
def decoder_contract(U):
    m = U.mod(DEX)
    seed = U.int("seed", 0, 1 << 30)
    rng = random.Random(seed)
    pool = [0, 1, 0x41, 0x7F, 0x80, 0x7FF, 0x800, 0xD7FF, 0xD800, 0xD853, 0xDBFF, 0xDC00, 0xDF5C, 0xDFFF, 0xE000, 0xFFFF]
    us = [rng.choice(pool) if rng.random() < 0.5 else rng.randrange(0x10000) for _ in range(rng.randint(0, 40))]
    raw = b"".join(_enc_unit(u) for u in us)
    buff = U.stream(bytes([min(len(us), 127)]) + raw + b"\x00rest")
    o = U.call(lambda: m.StringDataItem(buff, U.cm()).get())
    U.ensures("decoding does not raise", o.ok, exc=repr(o.exc))
    if o.ok:
        U.ensures("the decoded text has exactly the encoded UTF-16 code units", _units(o.value) == us,
                  got=_units(o.value)[:12], want=us[:12])


# ------------------------------------------------------------------------------------------------
# Loop contract (unbounded + termination): read_null_terminated_string on a stream of ARBITRARY length and content.
# Ghost state: the file is an uninterpreted memory of symbolic length; the chunk list is viewed as `the chunks tile
# mem[p0, pos)`.  Invariant: p0 <= pos <= len, the chunks read so far are exactly mem[p0, pos), and (Skolem j) no byte in
# [p0, pos) is NUL.  Variant: len - pos (every iteration that continues consumed at least one byte) => the loop terminates on every
# input, in at most len - p0 iterations.
from pyvc.loops import GhostChunks, LoopSpec  # noqa: E402
from pyvc import ubuf  # noqa: E402

def _tot(x):
    return x.tot if isinstance(x, GhostChunks) else sum(len(c) for c in x)


def _inv_rnts(spec, L, k):
    g, f = spec.G, L["f"]
    return And(f.pos >= g["p0"], f.pos <= f.buf.length, _tot(L["x"]) == f.pos - g["p0"],
               Implies(And(g["p0"] <= g["j"], g["j"] < f.pos), g["mem"].byte(g["j"]) != 0))


RNTS = LoopSpec("read_null_terminated_string#0", invariant=_inv_rnts, variant=lambda s, L, k: L["f"].buf.length - L["f"].pos,
                havoc={"x": lambda s, L: GhostChunks("chunks", s.G["mem"], s.G["p0"], s.G["U"].int("tot@", 0, ubuf.MAXLEN))},
                heap=("f",))


@unit("C06", covers=[(DEX, "read_null_terminated_string")],
      loops={(DEX, "read_null_terminated_string", 0): RNTS}, samples=200, max_paths=2000, timeout_ms=60000, terminates=True,
      note="loop contract, stream of any length and content: the arbitrary iteration reads a full 128-byte chunk or a shorter "
           "one of symbolic length; the position of the first NUL in the chunk stays symbolic")
def null_terminated_unbounded(U):
    m = U.mod(DEX)
    if U.mode != "sym":
        n = U.int("n", 0, 400)
        data = bytearray(U.bytes("data", n))
        if n and U.bool("plant_nul"):
            data[U.int("nul_at", 0, n - 1)] = 0
        p0 = U.int("p0", 0, n + 3)
        f = U.stream(bytes(data), p0)
        o = U.call(m.read_null_terminated_string, f)
        U.ensures("terminates without error", o.ok, exc=repr(o.exc))
        if o.ok:
            k = bytes(data).find(b"\0", p0) if p0 <= n else -1
            want = bytes(data[p0:k]) if k >= 0 else bytes(data[p0:])
            U.ensures("exactly the bytes before the first NUL (or up to the end of the data)", bytes(o.value) == want, got=bytes(o.value)[:20])
            U.ensures("the stream is just behind the NUL (at the end of the data if there is none)",
                      f.tell() == (k + 1 if k >= 0 else max(n, p0)), pos=f.tell())
        return
    mem = ubuf.SymMem("file")
    buf = ubuf.SymBuf(mem, 0, U.int("len", 0, ubuf.MAXLEN))
    p0 = U.int("p0", 0, ubuf.MAXLEN)
    U.assume(p0 <= buf.length)
    j = U.int("j", 0, ubuf.MAXLEN)
    f = ubuf.SymStreamU(buf, p0, "f")
    RNTS.G = {"mem": mem, "p0": p0, "j": j, "U": U}
    o = U.call(m.read_null_terminated_string, f)
    U.ensures("terminates without error", o.ok, exc=repr(o.exc))
    if not o.ok:
        return
    r = o.value
    U.ensures("the result is a window of the data that starts at the start position", isinstance(r, ubuf.SymBuf) and r.mem is mem and
              Eq(r.base, p0))
    ln, pos = r.length, f.pos
    U.ensures("no returned byte is NUL", Implies(And(p0 <= j, j < p0 + ln), mem.byte(j) != 0))
    U.ensures("either the byte behind the result is the NUL and the stream is just behind it, or the data ended without a NUL",
              Or(And(pos == p0 + ln + 1, pos <= buf.length, mem.byte(p0 + ln) == 0), And(pos == buf.length, ln == buf.length - p0)))
