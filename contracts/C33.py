"""C33  APK Signing Block contents are reported as encoded (DESIGN §7 C33)."""
import random
import struct

from pyvc.core import And, Eq, Implies, Ite, Not, Or, SymBytes
from pyvc.models import IoModel
from pyvc.unit import bare, unit
from specs import sigblock as SB

APKF = "androguard/core/apk/__init__.py"
META = {
    "technique": 'contract-based deductive verification: symbolic execution of the real functions against sidecar contracts (z3/cvc5) for the proved units, inductive loop invariants and termination variants on the real loops (unbounded in length and iteration count); bounded contract evaluation (enumerated scope / independent writer) for the rest',
    "level": "other",
    "partial": True,
    "level_text": "Loop contract (unbounded, with termination variant): parse_signatures_or_digests on a length-prefixed sequence of any length and content: pair j = (id, digest bytes) of element j (ghost element offsets E(k) defined by the bytes, Skolem j). Proof: parse_signatures_or_digests on sequences of 0..2 elements whose ids and digest bytes are symbolic returns "
                  "exactly the (id, bytes) pairs; the guard structure of parse_v2_signing_block / parse_v3_signing_block(v31) is "
                  "enumerated over every presence combination of v2/v3/v3.1 blocks (data of a scheme is decoded iff a block with "
                  "its id is present, taken from the first such block). Bounded (model-based): APKs carrying signing blocks produced "
                  "by an independent writer (1..3 signers, random digests/signatures/certificates/attributes/SDK bounds, unknown "
                  "pairs, duplicate ids, ZIP comments) must be reported exactly: flags, duplicate marker, block list in file order, "
                  "every signer field.",
    "trusted": ["independent writer specs/sigblock.py (APK Signature Scheme v2/v3 layout)", "io/struct models"],
    "explanation": "digest/signature sequence decoder proved on symbolic bytes; presence guards enumerated; whole-block decoding "
                   "bounded (generated blocks).",
    "assumptions": [],
}


def _apk(m, raw=b""):
    a = bare(m.APK)
    a._APK__raw = bytearray(raw)
    a._is_signed_v2 = a._is_signed_v3 = a._is_signed_v31 = None
    a._v2_blocks = []
    a._v2_signing_data = a._v3_signing_data = a._v31_signing_data = None
    a.filename = "x.apk"
    return a


def _items(b):
    return list(b.items) if hasattr(b, "items") else list(b)


@unit("C33", covers=[(APKF, "APK.parse_signatures_or_digests"), (APKF, "APK.read_uint32_le")],
      params=[{"lens": l} for l in ([], [0], [3], [2, 5], [0, 0])], samples=40)
def digest_sequence(U, lens):
    m = U.mod(APKF)
    if U.mode == "sym":
        U.substitute(m, "io", IoModel(), "BytesIO over proxy bytes = stream model")
    ids = [U.int("id%d" % i, 0, 0xFFFFFFFF) for i in range(len(lens))]
    datas = [U.bytes("d%d" % i, n) for i, n in enumerate(lens)]

    def u32(v):
        from pyvc.models import split_le
        return split_le(v, 4) if not isinstance(v, int) else list(struct.pack("<I", v))
    body = []
    for i, d in zip(ids, datas):
        el = u32(i) + u32(len(_items(d))) + _items(d)
        body += u32(len(el)) + el
    raw = body          # the callers strip the outer length prefix and hand over the sequence content
    arg = SymBytes(raw) if U.mode == "sym" else bytes(raw)
    a = _apk(m)
    o = U.call(a.parse_signatures_or_digests, arg)
    U.ensures("does not raise", o.ok, exc=repr(o.exc))
    if o.ok:
        got = o.value
        U.ensures("one (id, bytes) pair per element, in order", And(len(got) == len(lens), *[
            And(g[0] == i, Eq(_items(g[1]), _items(d))) for g, i, d in zip(got, ids, datas)]))
    e = U.call(a.parse_signatures_or_digests, b"")
    U.ensures("empty input gives no elements", e.ok and e.value == [])


def _signer(rng, v3):
    rb = lambda n: bytes(rng.randrange(256) for _ in range(n))
    s = {"digests": [(rng.choice([0x0101, 0x0103, 0x0201, 0x0421]), rb(rng.choice([0, 32, 64]))) for _ in range(rng.randint(0, 2))],
         "certs": [rb(rng.randint(1, 40)) for _ in range(rng.randint(0, 2))],
         "attrs": rb(rng.choice([0, 0, 12])),
         "sigs": [(rng.choice([0x0101, 0x0103]), rb(rng.randint(0, 20))) for _ in range(rng.randint(0, 2))],
         "pubkey": rb(rng.randint(0, 30))}
    if v3:
        s.update(min=rng.randint(1, 40), max=rng.choice([40, 0x7FFFFFFF]), smin=rng.randint(1, 40), smax=0x7FFFFFFF)
    return s


def _expect_signers(signers, got, v3):
    if len(got) != len(signers):
        return False
    for s, g in zip(signers, got):
        sd = g.signed_data
        if [(i, bytes(d)) for i, d in sd.digests] != s["digests"] or [bytes(c) for c in sd.certificates] != s["certs"]:
            return False
        if bytes(sd.additional_attributes) != s["attrs"] or [(i, bytes(d)) for i, d in g.signatures] != s["sigs"]:
            return False
        if bytes(g.public_key) != s["pubkey"]:
            return False
        if v3 and (sd.minSDK, sd.maxSDK, g.minSDK, g.maxSDK) != (s["min"], s["max"], s["smin"], s["smax"]):
            return False
    return True


@unit("C33", covers=[(APKF, "APK.parse_v2_v3_signature"), (APKF, "APK.parse_v2_signing_block"), (APKF, "APK.parse_v3_signing_block"),
                     (APKF, "APK.is_signed_v2"), (APKF, "APK.is_signed_v3"), (APKF, "APK.is_signed_v31"),
                     (APKF, "APK.has_duplicate_apk_signature_ids")], level="bounded", samples=250,
      note="seeded random signing blocks from the independent writer: any subset/order of v2, v3, v3.1 blocks with 1..3 signers, "
           "0..2 unknown pairs, optional duplicate of a scheme id (second copy with different signers), optional ZIP comment")
def generated_blocks(U):
    m = U.mod(APKF)
    seed = U.int("seed", 0, 1 << 30)
    rng = random.Random(seed)
    pairs, first = [], {}
    schemes = [s for s in (SB.V2, SB.V3, SB.V31) if rng.random() < 0.6]
    rng.shuffle(schemes)
    for sid in schemes:
        signers = [_signer(rng, sid != SB.V2) for _ in range(rng.randint(1, 3))]
        first.setdefault(sid, signers)
        pairs.append((sid, SB.scheme_block(signers, sid != SB.V2)))
    for _ in range(rng.randint(0, 2)):
        pairs.insert(rng.randint(0, len(pairs)), (rng.choice([0x42726577, 0x12345678]), bytes(rng.randrange(256) for _ in range(rng.randint(0, 9)))))
    dup = None
    if schemes and rng.random() < 0.4:
        dup = rng.choice(schemes)
        pairs.append((dup, SB.scheme_block([_signer(rng, dup != SB.V2)], dup != SB.V2)))
    has_block = rng.random() < 0.9
    raw = SB.zip_with_block(SB.signing_block(pairs) if has_block else b"", b"c" * rng.choice([0, 0, 7]))
    a = _apk(m, raw)
    present = {i for i, _ in pairs} if has_block else set()
    f2, f3, f31 = U.call(a.is_signed_v2), U.call(a.is_signed_v3), U.call(a.is_signed_v31)
    U.ensures("presence flags are true exactly for the ids present", f2.ok and f3.ok and f31.ok and
              (bool(f2.value), bool(f3.value), bool(f31.value)) == (SB.V2 in present, SB.V3 in present, SB.V31 in present),
              got=(f2.value, f3.value, f31.value), present=sorted(present), exc=repr(f2.exc or f3.exc or f31.exc))
    if has_block:
        U.ensures("all id-value pairs are kept in file order", [(b.id, bytes(b.data)) for b in a._v2_blocks] == pairs)
        ids_seen, dupflags = set(), []
        for i, _ in pairs:
            dupflags.append(i in ids_seen)
            ids_seen.add(i)
        U.ensures("duplicate ids are flagged", [bool(b.is_duplicate_id) for b in a._v2_blocks] == dupflags and
                  bool(a.has_duplicate_apk_signature_ids()) == any(dupflags))
    for sid, v3, parse, attr in ((SB.V2, False, lambda: a.parse_v2_signing_block(), "_v2_signing_data"),
                                 (SB.V3, True, lambda: a.parse_v3_signing_block(), "_v3_signing_data"),
                                 (SB.V31, True, lambda: a.parse_v3_signing_block(True), "_v31_signing_data")):
        o = U.call(parse)
        U.ensures("decoding does not raise", o.ok, exc=repr(o.exc), scheme=hex(sid))
        got = getattr(a, attr)
        if sid in present:
            U.ensures("signers, digests, certificates, SDK bounds, attributes, signatures and public keys are those of the first block "
                      "with that id", o.ok and _expect_signers(first[sid], got or [], v3), scheme=hex(sid))
        else:
            U.ensures("no data is reported for an absent scheme", o.ok and not got, scheme=hex(sid))


@unit("C33", covers=[(APKF, "APK.parse_v3_signing_block"), (APKF, "APK.parse_v2_signing_block")])
def presence_guards(U):
    """every presence combination x scheme: decoded iff a block with that id is present"""
    m = U.mod(APKF)
    have = [U.choice("v2", [False, True]), U.choice("v3", [False, True]), U.choice("v31", [False, True])]
    rng = random.Random(5)
    sig, pairs = {}, []
    for flag, sid in zip(have, (SB.V2, SB.V3, SB.V31)):
        if flag:
            sig[sid] = [_signer(rng, sid != SB.V2)]
            pairs.append((sid, SB.scheme_block(sig[sid], sid != SB.V2)))
    # the object's state is the one the real parse_v2_v3_signature leaves behind for an archive with exactly these pairs (no field
    # of the APK object is set by hand: how the pairs are kept is the code's business)
    a = _apk(m, SB.zip_with_block(SB.signing_block(pairs)))
    for sid, v3, parse, attr in ((SB.V2, False, lambda: a.parse_v2_signing_block(), "_v2_signing_data"),
                                 (SB.V3, True, lambda: a.parse_v3_signing_block(), "_v3_signing_data"),
                                 (SB.V31, True, lambda: a.parse_v3_signing_block(True), "_v31_signing_data")):
        o = U.call(parse)
        got = getattr(a, attr)
        if sid in sig:
            U.ensures("present scheme %s is decoded" % hex(sid), o.ok and _expect_signers(sig[sid], got or [], v3), exc=repr(o.exc))
        else:
            U.ensures("absent scheme %s reports nothing" % hex(sid), o.ok and not got)


# ------------------------------------------------------------------------------------------------
# Loop contract (unbounded + termination): APK.parse_signatures_or_digests on a length-prefixed sequence of ANY length and content.
# Ghost functions defined by the bytes: E(k) = offset of element k (E(0) = 0, E(k+1) = E(k) + 4 + u32@E(k)).  Invariant: the stream
# stands at E(k) (or at the end of the data once an element reaches past it), the result list has k pairs and (Skolem j < k) pair j
# is (u32@E(j)+4, the digest_len bytes behind it).  Variant: bytes left.
import z3  # noqa: E402

from pyvc import core, ubuf  # noqa: E402
from pyvc.loops import GhostList, LoopSpec  # noqa: E402


class _IoU:
    """io module stand-in: BytesIO over a symbolic buffer is the symbolic stream model"""

    def __init__(self):
        self.made = []

    def BytesIO(self, data=b""):
        if isinstance(data, ubuf.SymBuf):
            s = ubuf.SymStreamU(data, 0, "block")
            self.made.append(s)
            return s
        return io.BytesIO(data)

    def __getattr__(self, n):
        return getattr(io, n)


import io  # noqa: E402


def _u32m(mem, addr):
    return mem.byte(addr) | (mem.byte(addr + 1) << 8) | (mem.byte(addr + 2) << 16) | (mem.byte(addr + 3) << 24)


class _Elems:
    def __init__(self, mem):
        self.mem = mem
        self.f = z3.Function("E", z3.BitVecSort(core.W), z3.BitVecSort(core.W))
        core.ctx().add_fact(self.f(z3.BitVecVal(0, core.W)) == 0)

    def E(self, k):
        t = self.f(core.SymInt.lift(k).t)
        core.ctx().add_fact(z3.And(t >= 0, t <= ubuf.MAXLEN + (1 << 40)))
        return core.SymInt(t, 0, ubuf.MAXLEN + (1 << 40))

    def define_next(self, k):
        core.ctx().add_fact((self.E(k + 1) == self.E(k) + 4 + _u32m(self.mem, self.E(k))).t)


def _inv_digests(spec, L, k):
    w, j, blk, n = spec.G["world"], spec.G["j"], L["block"], L["digest_bytes"].length
    lst = L["digests"]
    cnt = lst.n if isinstance(lst, GhostList) else len(lst)
    inv = And(blk.pos >= 0, cnt == spec.G["count"](L), Or(blk.pos == w.E(cnt), And(blk.pos >= n, w.E(cnt) >= n)))
    if isinstance(lst, GhostList):
        inv = And(inv, Implies(And(0 <= j, j < cnt), And(lst.obs("id", j) == _u32m(w.mem, w.E(j) + 4), lst.obs("len", j) == spec.G["dlen"](j),
                                                          Or(lst.obs("len", j) == 0, lst.obs("at", j) == w.E(j) + 12))))
    return inv


def _havoc_digests(spec, L):
    pass


DIGESTS = LoopSpec("APK.parse_signatures_or_digests#0", invariant=_inv_digests,
                   variant=lambda s, L, k: Ite(L["block"].pos <= L["digest_bytes"].length, L["digest_bytes"].length - L["block"].pos + 1, 0),
                   havoc={"digests": lambda s, L: s.G["fresh_list"]()}, heap=("block",), const=("self", "digest_bytes"),
                   at_iteration=lambda s, L, k: s.G["world"].define_next(L["digests"].n))


@unit("C33", covers=[(APKF, "APK.parse_signatures_or_digests"), (APKF, "APK.read_uint32_le")],
      loops={(APKF, "APK.parse_signatures_or_digests", 0): DIGESTS}, samples=150, max_paths=4000, terminates=True,
      note="loop contract: a length-prefixed sequence of any length and content (any number of elements, any digest length); "
           "ghost element offsets E(k) defined by the bytes; variant = bytes left")
def digest_sequence_unbounded(U):
    m = U.mod(APKF)
    a = _apk(m)
    if U.mode != "sym":
        n = U.int("n", 0, 4)
        els, want = b"", []
        for i in range(n):
            d = bytes(U.bytes("d%d" % i, U.int("l%d" % i, 0, 6)))
            aid = U.int("id%d" % i, 0, 0xFFFFFFFF)
            extra = bytes(U.int("x%d" % i, 0, 2))          # an element may be longer than id + length + digest
            el = struct.pack("<II", aid, len(d)) + d + extra
            els += struct.pack("<I", len(el)) + el
            want.append((aid, d))
        o = U.call(a.parse_signatures_or_digests, els)
        U.ensures("one (id, bytes) pair per element, in order", o.ok and o.value == want, got=repr(o.value if o.ok else o.exc)[:120])
        return
    U.substitute(m, "io", _IoU(), "BytesIO over a symbolic buffer = symbolic stream model")
    mem = ubuf.SymMem("seq")
    data = ubuf.SymBuf(mem, 0, U.int("len", 1, ubuf.MAXLEN))
    world = _Elems(mem)
    j = U.int("j", 0, 1 << 32)
    lst = [None]

    def fresh_list():
        g = GhostList("digests", {"id": (lambda t: t[0], 0, 0xFFFFFFFF),
                                  "len": (lambda t: t[1].length if isinstance(t[1], ubuf.SymBuf) else len(t[1]), 0, ubuf.MAXLEN),
                                  "at": (lambda t: (t[1].base if isinstance(t[1], ubuf.SymBuf) else getattr(t[1], "addr", -1)), -1, ubuf.MAXLEN + (1 << 41))})
        g.havoc("digests")
        lst[0] = g
        return g

    def dlen(jj):
        # digest_len clipped to what the data holds behind the element's header
        decl = _u32m(mem, world.E(jj) + 8)
        left = data.length - (world.E(jj) + 12)
        return Ite(decl <= left, decl, Ite(left >= 0, left, 0))
    DIGESTS.G = {"U": U, "world": world, "j": j, "fresh_list": fresh_list, "dlen": dlen,
                 "count": lambda L: (L["digests"].n if isinstance(L["digests"], GhostList) else len(L["digests"]))}
    o = U.call(a.parse_signatures_or_digests, data)
    if not o.ok:
        U.ensures("the only failure is a truncated element header (struct.error)", o.raised(m.__pyvc_struct__.error), exc=repr(o.exc))
        return
    U.cover("the sequence is read to its end")
    r = o.value
    U.ensures("the result is the list the loop built", r is lst[0] or r == [])
    if isinstance(r, GhostList):
        U.ensures("pair j is (algorithm id, digest bytes) of element j: id = word at E(j)+4, digest = the declared number of bytes at "
                  "E(j)+12 (clipped to the data)",
                  Implies(And(0 <= j, j < r.n), And(r.obs("id", j) == _u32m(mem, world.E(j) + 4), r.obs("len", j) == dlen(j), Or(r.obs("len", j) == 0, r.obs("at", j) == world.E(j) + 12))))
