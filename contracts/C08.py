"""C08  Try/catch tables are reported exactly (DESIGN §7 C08)."""
import itertools

from contracts import cfgworld as W
from pyvc.core import And, Eq, Implies, Ite, Not, Or, SymBytes
from pyvc.unit import unit
from specs import leb128 as L

DEX = "androguard/core/dex/__init__.py"
META = {
    "technique": 'contract-based deductive verification: symbolic execution of the real functions against sidecar contracts (z3/cvc5) for the proved units; bounded contract evaluation (enumerated scope / independent writer) for the rest',
    "level": "other",
    "partial": True,
    "level_text": "Proof (parsers, symbolic bytes): TryItem.__init__, EncodedTypeAddrPair.__init__, EncodedCatchHandler.__init__ "
                  "(abs(size) pairs, catch-all iff size <= 0, sizes -2..2) and EncodedCatchHandlerList.__init__ decode exactly the "
                  "DEX try_item / encoded_catch_handler layout; DalvikCode.__init__ reads the 2-byte padding iff insns_size is odd and "
                  "tries_size > 0 and then tries_size try items and the handler list. Bounded: determineException on stub code items "
                  "with 1..3 try items, shared and distinct handler lists, typed and catch-all handlers, against the assembler's "
                  "expected records.",
    "trusted": ["LEB128 readers under their C03 contracts (executed, not stubbed)", "struct/stream models"],
    "explanation": "parsers proved on symbolic bytes; determineException bounded (enumerated try tables).",
    "assumptions": ["ULEB/SLEB fields are given as one-byte encodings in the handler units (multi-byte forms are C03's obligation)",
                    "the statement is read as: the set of ranges with their ordered handlers; the order in which determineException lists "
                    "the ranges (grouped by handler offset, so permuted when non-adjacent try items share a handler) is not pinned"],
}


def _cm(U):
    return U.cm()


@unit("C08", covers=[(DEX, "TryItem.__init__")], samples=60)
def try_item(U):
    m = U.mod(DEX)
    b = U.bytes("b", 10)
    buff = U.stream(b)
    o = U.call(m.TryItem, buff, _cm(U))
    U.ensures("does not raise", o.ok, exc=repr(o.exc))
    if o.ok:
        bl = list(b.items) if hasattr(b, "items") else list(b)
        u32 = bl[0] | (bl[1] << 8) | (bl[2] << 16) | (bl[3] << 24)
        U.ensures("start_addr (uint), insn_count (ushort), handler_off (ushort) in file order",
                  And(o.value.get_start_addr() == u32, o.value.get_insn_count() == (bl[4] | (bl[5] << 8)),
                      o.value.get_handler_off() == (bl[6] | (bl[7] << 8)), buff.tell() == 8))


@unit("C08", covers=[(DEX, "EncodedCatchHandler.__init__"), (DEX, "EncodedTypeAddrPair.__init__")],
      params=[{"size": s} for s in (-2, -1, 0, 1, 2)], samples=60)
def catch_handler(U, size):
    """size < 0: |size| typed handlers + catch-all; size == 0: only catch-all; size > 0: typed only"""
    m = U.mod(DEX)
    n = abs(size)
    fields = [U.int("f%d" % i, 0, 127) for i in range(2 * n + 1)]
    data = [size & 0x7F] + fields + [0x55]
    buff = U.stream(SymBytes(data) if U.mode == "sym" else bytes(data))
    o = U.call(m.EncodedCatchHandler, buff, _cm(U))
    U.ensures("does not raise", o.ok, exc=repr(o.exc))
    if not o.ok:
        return
    h = o.value
    U.ensures("size", h.get_size() == size)
    hs = h.get_handlers()
    U.ensures("abs(size) typed handlers, in order", And(len(hs) == n, *[And(hs[i].get_type_idx() == fields[2 * i],
                                                                           hs[i].get_addr() == fields[2 * i + 1]) for i in range(min(n, len(hs)))]))
    if size <= 0:
        U.ensures("catch-all address present iff size <= 0", And(h.get_catch_all_addr() == fields[2 * n], buff.tell() == 2 * n + 2))
    else:
        U.ensures("no catch-all field consumed", buff.tell() == 2 * n + 1)


@unit("C08", covers=[(DEX, "EncodedCatchHandlerList.__init__")], params=[{"k": k} for k in (0, 1, 2)], samples=40)
def catch_handler_list(U, k):
    m = U.mod(DEX)
    addrs = [U.int("a%d" % i, 0, 127) for i in range(k)]
    data = [k]
    for a in addrs:
        data += [0, a]          # size 0: catch-all only
    buff = U.stream(SymBytes(data + [0x77]) if U.mode == "sym" else bytes(data + [0x77]), 0)
    o = U.call(m.EncodedCatchHandlerList, buff, _cm(U))
    U.ensures("does not raise", o.ok, exc=repr(o.exc))
    if o.ok:
        lst = o.value.get_list()
        U.ensures("size handlers in file order with their own offsets",
                  And(o.value.get_size() == k, len(lst) == k, *[And(lst[i].get_catch_all_addr() == addrs[i], lst[i].get_off() == 1 + 2 * i)
                                                                for i in range(min(k, len(lst)))]))


@unit("C08", covers=[(DEX, "DalvikCode.__init__")], params=[{"insns": i, "tries": t} for i in (0, 1, 2, 3) for t in (0, 1, 2)], samples=30)
def code_item_layout(U, insns, tries):
    """padding before the tries iff insns_size is odd and tries_size > 0"""
    m = U.mod(DEX)
    hdr = [U.int("h%d" % i, 0, 255) for i in range(4)]
    code = [0x00, 0x00] * insns
    pad = [0xEE, 0xEE] if (insns % 2 == 1 and tries > 0) else []
    starts = [U.int("ts%d" % i, 0, 255) for i in range(tries)]
    tr = []
    for s in starts:
        tr += [s, 0, 0, 0, 1, 0, 1, 0]
    hl = ([1, 0, 9] if tries else [])
    data = [hdr[0], 0, hdr[1], 0, hdr[2], 0, tries, 0, 0, 0, 0, 0, insns, 0, 0, 0] + code + pad + tr + hl + [0x99, 0x99]
    buff = U.stream(SymBytes(data) if U.mode == "sym" else bytes(data))
    cm = _cm(U)
    o = U.call(m.DalvikCode, buff, cm)
    U.ensures("does not raise", o.ok, exc=repr(o.exc))
    if not o.ok:
        return
    c = o.value
    U.ensures("header fields", And(c.get_registers_size() == hdr[0], c.get_ins_size() == hdr[1], c.get_outs_size() == hdr[2],
                                   c.get_tries_size() == tries, c.insns_size == insns))
    got_tries = c.get_tries() or []
    U.ensures("try items read after the (optional) padding, in order",
              And(len(got_tries) == tries, *[t.get_start_addr() == s for t, s in zip(got_tries, starts)]))
    if tries:
        U.ensures("handler list follows the try items", And(c.get_handlers().get_size() == 1,
                                                             c.get_handlers().get_list()[0].get_catch_all_addr() == 9))
    U.ensures("consumes exactly the code item", buff.tell() == len(data) - 2, pos=buff.tell())


def _layouts():
    # (n body instructions, tries, share_handlers)
    base = [
        ((0, 1, [(1, 2)], None),),
        ((0, 2, [(1, 2), (2, 1)], 3),),
        ((1, 3, [], 0),),
        ((0, 1, [(1, 3)], None), (1, 2, [(2, 0)], 3)),
        ((0, 1, [(5, 2)], 1), (2, 4, [(5, 2)], 1)),
        ((0, 1, [(1, 1)], None), (1, 2, [(2, 2)], None), (2, 3, [], 3)),
        # contiguous try items guarded by the same handlers stay two records (javac emits them around a finally / return)
        ((0, 2, [(5, 3)], None), (2, 4, [(5, 3)], None)),
        ((0, 1, [(5, 4)], 3), (1, 2, [(5, 4)], 3), (2, 4, [(5, 4)], 3)),
        ((1, 2, [], 4), (2, 3, [], 4)),
    ]
    for t in base:
        yield t, False
        if len(t) > 1 and all(x[2:] == t[0][2:] for x in t):
            yield t, True


def _enum(tier, **_):
    for i, _x in enumerate(_layouts()):
        for odd in (False, True):
            yield {"layout": i, "odd": odd}


@unit("C08", covers=[(DEX, "determineException")], level="bounded",
      note="stub code items: 1..3 try items, distinct and shared handler lists, typed and catch-all handlers, even/odd bodies")
def determine_exception(U):
    dex = U.mod(DEX)
    g = U.given or {"layout": 0, "odd": False}
    U.drawn.update(g)
    tries, share = list(_layouts())[g["layout"]]
    items = [("nop", None)] * 4 + ([("const", None)] if g["odd"] else []) + [("ret", None)]
    prog = W.Prog(items, tries)
    meth = W.Method(dex, prog, share_handlers=share)
    o = U.call(dex.determineException, W.VM(), meth)
    U.ensures("does not raise", o.ok, exc=repr(o.exc))
    if o.ok:
        want = prog.try_records()
        got = [list(r) for r in o.value]
        U.ensures("one record per try item with start, inclusive end, ordered typed handlers and Throwable catch-all",
                  sorted(map(repr, got)) == sorted(map(repr, want)), got=got, want=want)


determine_exception.enumerate_inputs = lambda tier, **p: _enum(tier)


# ---- determineException on symbolic try tables: every start address / instruction count / handler address / type index is symbolic,
# each try item picks one of the handler lists (shared or not); the records must be those of the try items one by one


class _SymCode:
    def __init__(self, tries, hlist):
        self.tries, self.hlist = tries, hlist

    def get_tries_size(self):
        return len(self.tries)

    def get_tries(self):
        return self.tries

    def get_handlers(self):
        return self.hlist


class _SymMeth:
    def __init__(self, code):
        self.code = code

    def get_code(self):
        return self.code


class _SymVM:
    def get_cm_type(self, idx):
        return ("type", idx)


@unit("C08", covers=[(DEX, "determineException")],
      params=[{"ntries": n, "shapes": sh} for n in (1, 2, 3) for sh in ((0,), (1, -1), (-2, 0), (2, 1))], samples=80,
      note="1..3 try items with symbolic start/count, each bound to one of the handler lists of the given shapes (size > 0: typed "
           "only, 0: catch-all only, < 0: typed + catch-all), symbolic type indices and handler addresses")
def determine_exception_symbolic(U, ntries, shapes):
    dex = U.mod(DEX)
    base = 1000
    hs = []
    for k, size in enumerate(shapes):
        pairs = [W._Pair(U.int("t%d_%d" % (k, i), 0, 65535), U.int("a%d_%d" % (k, i), 0, 1 << 20)) for i in range(abs(size))]
        ca = U.int("ca%d" % k, 0, 1 << 20) if size <= 0 else None
        hs.append(W._Handler(base + 4 + 10 * k, pairs, ca))
    tries, which = [], []
    for j in range(ntries):
        w = U.choice("h%d" % j, list(range(len(shapes))))
        which.append(w)
        tries.append(W._Try(U.int("s%d" % j, 0, 1 << 20), U.int("c%d" % j, 1, 65535), 4 + 10 * w))
    code = _SymCode(tries, W._HandlerList(base, hs))
    o = U.call(dex.determineException, _SymVM(), _SymMeth(code))
    U.ensures("does not raise", o.ok, exc=repr(o.exc))
    if not o.ok:
        return
    got = o.value
    U.ensures("exactly one record per try item (adjacent or overlapping items are never merged)", len(got) == ntries, got=len(got))
    if len(got) != ntries:
        return
    # determineException groups the records by handler list; within a group the items keep their order
    first = list(dict.fromkeys(which))
    order = sorted(range(ntries), key=lambda j: (first.index(which[j]), j))
    for rec, j in zip(got, order):
        t, h = tries[j], hs[which[j]]
        want = [t.s * 2, t.s * 2 + t.c * 2 - 1] + [[("type", p.t), p.a * 2] for p in h.pairs]
        if h.ca is not None:
            want.append(["Ljava/lang/Throwable;", h.ca * 2])
        ok = And(len(rec) == len(want), rec[0] == want[0], rec[1] == want[1],
                 *[And(r[0] == w_[0], r[1] == w_[1]) for r, w_ in zip(rec[2:], want[2:])]) if len(rec) == len(want) else False
        U.ensures("record of try item %d: start, inclusive end (byte offsets), typed handlers in order, Throwable catch-all last" % j, ok)
