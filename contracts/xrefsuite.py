"""Composition harness of the xref suite: enumerated small worlds -> real Analysis -> canonical view."""
import itertools

from contracts import xrefworld as X

ANA = "androguard/core/analysis/analysis.py"
NCHUNK = 16
SPLITS = [[["LA;", "LB;", "LC;"]], [["LA;", "LB;"], ["LC;"]], [["LA;"], ["LB;"], ["LC;"]], [["LA;", "LC;"], ["LB;"]]]

SLOT = [("other", None)]
SLOT += [("invoke", t) for t in [("LA;", "m2", "()V"), ("LB;", "m1", "()V"), ("LC;", "m1", "()V"), ("LX;", "ext", "()V"),
                                 ("[LB;", "clone", "()Ljava/lang/Object;"), ("[I", "clone", "()Ljava/lang/Object;"),
                                 ("[[LC;", "clone", "()Ljava/lang/Object;"), ("[[[B", "clone", "()Ljava/lang/Object;")]]
SLOT += [("string", s) for s in ("s1", "s2")]
TYPES = ["LA;", "LB;", "LC;", "LX;", "[LB;", "[I", "I", "[[LB;", "[[[LX;"]
SLOT += [("new", t) for t in TYPES] + [("constclass", t) for t in TYPES]
FIELDS = [("LA;", "f", "I"), ("LB;", "f", "I"), ("LC;", "g", "I"), ("LX;", "f", "I")]
SLOT += [("read", f) for f in FIELDS] + [("write", f) for f in FIELDS]


def enum_inputs(tier, chunk):
    k = 0
    for si, split in enumerate(SPLITS):
        orders = list(itertools.permutations(range(len(split))))
        for oi in range(len(orders)):
            for a in range(len(SLOT)):
                for b in range(len(SLOT)):
                    if tier == "quick" and (si, oi) != (0, 0) and (a * 31 + b + si + oi) % 7:
                        continue        # quick: single-DEX world exhaustive, split worlds 1/7 sample
                    k += 1
                    if k % NCHUNK == chunk:
                        yield {"split": si, "order": oi, "a": a, "b": b}


def build(U, g, split_override=None, order_override=None):
    """returns (dx, vms, index, prog) -- prog = [(off, kind, target)] of LA;->m1"""
    ana = U.mod(ANA)
    split = SPLITS[g["split"] if split_override is None else split_override]
    vms, index = X.make_world(split)
    prog = [(0, ) + SLOT[g["a"]], (4, ) + SLOT[g["b"]]]
    vmA = X.vm_of(vms, "LA;")
    mA = index["LA;"].methods[0]
    for off, kind, tgt in prog:
        vmA.emit(mA, off, kind, tgt, op=g.get("op"))
    vmB = X.vm_of(vms, "LB;")
    vmB.emit(index["LB;"].methods[0], 8, "invoke", ("LA;", "m2", "()V"))
    vmB.emit(index["LB;"].methods[0], 12, "string", "s1")
    # LB;->m1 reads a field of its own class: in a split world this is field@0 of another DEX file, the same index LA;->m1 uses
    # for the first field it touches (pool indices are per DEX file)
    vmB.emit(index["LB;"].methods[0], 16, "read", ("LB;", "g", "I"))
    vmB.emit(index["LB;"].methods[0], 20, "new", "LC;")        # likewise type@0 of LB;'s DEX file
    orders = list(itertools.permutations(range(len(split))))
    order = orders[(g["order"] if order_override is None else order_override) % len(orders)]
    dx = ana.Analysis()
    for i in order:
        dx.add(vms[i])
    dx.create_xref()
    return dx, vms, index, prog


def mkey(ma):
    m = ma.get_method()
    return (m.get_class_name(), m.get_name(), str(m.get_descriptor()), bool(ma.is_external()))


def ckey(ca):
    return (ca.name, bool(ca.is_external()))


def view(dx):
    """canonical, order-free description of everything the analysis reports"""
    v = {"classes": sorted(ckey(c) for c in dx.get_classes()), "methods": {}, "classx": {}, "fields": {}, "strings": {}}
    for ma in dx.get_methods():
        v["methods"][mkey(ma)] = {
            "to": sorted((ckey(c), mkey(m), o) for c, m, o in ma.get_xref_to()),
            "from": sorted((ckey(c), mkey(m), o) for c, m, o in ma.get_xref_from()),
            "read": sorted((fkey(f), o) for c, f, o in ma.get_xref_read()),
            "write": sorted((fkey(f), o) for c, f, o in ma.get_xref_write()),
            "new": sorted((ckey(c), o) for c, o in ma.get_xref_new_instance()),
            "const": sorted((ckey(c), o) for c, o in ma.get_xref_const_class()),
        }
    for ca in dx.get_classes():
        v["classx"][ckey(ca)] = {
            "new": sorted((mkey(m), o) for m, o in ca.get_xref_new_instance()),
            "const": sorted((mkey(m), o) for m, o in ca.get_xref_const_class()),
            "to": sorted((ckey(c), sorted((int(k), mkey(m), o) for k, m, o in refs)) for c, refs in ca.get_xref_to().items()),
            "from": sorted((ckey(c), sorted((int(k), mkey(m), o) for k, m, o in refs)) for c, refs in ca.get_xref_from().items()),
        }
    for fa in dx.get_fields():
        d = v["fields"].setdefault(fkey(fa.get_field()), {"n": 0, "read": [], "write": []})
        d["n"] += 1
        d["read"] += sorted((ckey(c), mkey(m), o) for c, m, o in fa.get_xref_read(with_offset=True))
        d["write"] += sorted((ckey(c), mkey(m), o) for c, m, o in fa.get_xref_write(with_offset=True))
    for s, sa in dx.get_strings_analysis().items():
        v["strings"][s] = sorted((ckey(c), mkey(m), o) for c, m, o in sa.get_xref_from(with_offset=True))
    return v


def _has(o, n):
    return hasattr(o, n)


def fkey(f):
    return (f.get_class_name(), f.get_name(), f.get_descriptor())


DEFINED_M = {(c, m, "()V") for c in ("LA;", "LB;", "LC;") for m in ("m1", "m2")}
DEFINED_F = {(c, f, "I") for c in ("LA;", "LB;", "LC;") for f in ("f", "g")}
A_M1 = ("LA;", "m1", "()V", False)


def strip(t):
    return t.lstrip("[")


def expected_invokes(prog):
    """[(off, class name after '[' stripping, method key)] for LA;->m1"""
    out = []
    for off, kind, tgt in prog:
        if kind != "invoke":
            continue
        c = strip(tgt[0])
        if not c.startswith("L"):
            continue
        k = (c, tgt[1], tgt[2])
        out.append((off, c, k + (k not in DEFINED_M,)))
    return out


PARAMS = [{"chunk": c} for c in range(NCHUNK)]
NOTE = ("worlds of three classes LA; LB; LC; (two methods, two fields each) in 1..3 DEX files in every add order; LA;->m1 holds "
        "every pair of instructions from {invoke x 8 targets (internal, other class, other DEX, external, 1- and 2-dimensional array of "
        "class, arrays of primitive), const-string x 2, new-instance/const-class x 9 types (incl. multi-dimensional arrays), field read/write x 4 fields, other}; single-DEX world "
        "exhaustive (961 programs), split worlds sampled 1/7 in quick, exhaustive in thorough")
