"""C30  Locale qualifiers round-trip through the configuration encoding (DESIGN §7 C30)."""
from pyvc.core import And, Eq, Implies, Ite, Not, Or
from pyvc.strings import mk
from pyvc.unit import bare, unit
from specs import locale as S

AXML = "androguard/core/axml/__init__.py"
META = {
    "level": "proof",
    "level_text": "_unpack_language_or_region is proved equal to AOSP's unpackLanguageOrRegion for all 2^16 byte pairs and both "
                  "bases; for every two- or three-letter language (letters symbolic in a..z) and every absent / two-letter (A..Z) / "
                  "three-digit region, get_language_and_region() on the AOSP-packed configuration word is proved to return the encoded "
                  "string and set_language_and_region() of that string is proved to rebuild the same word (all letters symbolic, "
                  "string operations executed on symbolic code points).",
    "trusted": ["str model (code-point sequences of concrete length: pyvc/strings.py)"],
    "assumptions": [],
}


def _cfg(m):
    return bare(m.ARSCResTableConfig)


@unit("C30", covers=[(AXML, "ARSCResTableConfig._unpack_language_or_region")], params=[{"base": ord("a")}, {"base": ord("0")}])
def unpack_all_pairs(U, base):
    m = U.mod(AXML)
    b0, b1 = U.int("b0", 0, 255), U.int("b1", 0, 255)
    o = U.call(_cfg(m)._unpack_language_or_region, [b0, b1], base)
    U.ensures("does not raise", o.ok, exc=repr(o.exc))
    if not o.ok:
        return
    if b0 & 0x80:
        want = mk(S.unpack_packed(b0, b1, base))
    else:
        want = mk(([b0] if b0 else []) + ([b1] if b1 else []))
    U.ensures("equals AOSP unpackLanguageOrRegion", o.value == want, got=o.value if U.mode == "conc" else None)


def _codes(U, llen, rlen):
    lang = U.str("lang", llen, ord("a"), ord("z"))
    if rlen == 2:
        region = U.str("region", 2, ord("A"), ord("Z"))
    elif rlen == 3:
        region = U.str("region", 3, ord("0"), ord("9"))
    else:
        region = ""
    return lang, region


def _cps(s):
    return s.items if hasattr(s, "items") else [ord(c) for c in s]


PARAMS = [{"llen": l, "rlen": r} for l in (2, 3) for r in (0, 2, 3)]


@unit("C30", covers=[(AXML, "ARSCResTableConfig.get_language_and_region"), (AXML, "ARSCResTableConfig._unpack_language_or_region")],
      params=PARAMS)
def reported_string(U, llen, rlen):
    """the reported string of the AOSP-encoded configuration is the code that was encoded"""
    m = U.mod(AXML)
    lang, region = _codes(U, llen, rlen)
    c = _cfg(m)
    c.locale = S.word(_cps(lang), _cps(region))
    o = U.call(c.get_language_and_region)
    want = lang + "-r" + region if rlen else lang
    U.ensures("reported language-and-region is the encoded one", And(o.ok, o.value == want if o.ok else False),
              got=o.value if U.mode == "conc" else None, exc=repr(o.exc))


@unit("C30", covers=[(AXML, "ARSCResTableConfig.set_language_and_region"), (AXML, "ARSCResTableConfig._pack_language_or_region")],
      params=PARAMS)
def encoding_again(U, llen, rlen):
    """encoding the reported string gives the same configuration word; and get(set(s)) == s"""
    m = U.mod(AXML)
    lang, region = _codes(U, llen, rlen)
    s = lang + "-r" + region if rlen else lang
    c = _cfg(m)
    o = U.call(c.set_language_and_region, s)
    U.ensures("set_language_and_region does not raise", o.ok, exc=repr(o.exc))
    if not o.ok:
        return
    want = S.word(_cps(lang), _cps(region))
    U.ensures("same configuration word as AOSP's packing", c.locale == want, got=c.locale if U.mode == "conc" else None)
    g = U.call(c.get_language_and_region)
    U.ensures("get(set(s)) == s", And(g.ok, g.value == s if g.ok else False), got=g.value if U.mode == "conc" else None)


@unit("C30", covers=[(AXML, "ARSCResTableConfig.get_language_and_region")])
def default_locale(U):
    m = U.mod(AXML)
    c = _cfg(m)
    c.locale = 0
    o = U.call(c.get_language_and_region)
    U.ensures("default locale is reported as two NULs", o.ok and o.value == "\x00\x00")
    c2 = _cfg(m)
    o2 = U.call(lambda: m.ARSCResTableConfig.default_config().get_language_and_region())
    U.ensures("default_config has the default locale", o2.ok and o2.value == "\x00\x00", exc=repr(o2.exc))
