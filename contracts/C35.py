"""C35  Parsers terminate on every input (DESIGN §7 C35)."""
import io
import os
import random
import zipfile

from pyvc.core import And, Eq, Implies, Ite, Not, Or, SymBytes
from pyvc.unit import unit

DEX = "androguard/core/dex/__init__.py"
AXML = "androguard/core/axml/__init__.py"
APKF = "androguard/core/apk/__init__.py"
META = {
    "technique": 'contract-based deductive verification: symbolic execution of the real functions against sidecar contracts (z3/cvc5) for the proved units, inductive loop invariants and termination variants on the real loops (unbounded in length and iteration count); bounded contract evaluation (enumerated scope / independent writer) for the rest',
    "level": "other",
    "partial": True,
    "level_text": "Loop contracts with termination variants on streams of ANY length and content: read_null_terminated_string (C06 "
                  "unit), the ARSCHeader dummy-data skip loop, the DebugInfoItem opcode loop, the HiddenApiClassDataItem offsets "
                  "loop (variant: bytes left), the backward end-of-central-directory search of APK.parse_v2_v3_signature (variant: stream position), the linear-sweep loop (C02 unit, variant max_idx - idx) and the chunk loop of AXMLParser._do_next (C26 unit chunk_loop_terminates, "
                  "variant bytes left, nested loops under their own contracts). Proof (all contents of short inputs): the loops named in the property are executed on streams of symbolic bytes "
                  "and every path is proved to end (result or error): read_null_terminated_string with no NUL at all (0..257 bytes), "
                  "the ARSCHeader dummy-data skip loop (8..14 bytes, every content), the DebugInfoItem opcode loop (0..5 bytes). The "
                  "sweep loop's progress (positive length, resumes at offset+length) is C02's obligation. Bounded: the four whole "
                  "parsers (DEX, binary XML, resource table, APK) are run on truncations and byte mutations of shipped files, each "
                  "under a time limit proportional to nothing but a constant (10 s for inputs < 1 MB).",
    "trusted": ["time inside C extensions / lxml / zip reader is not modelled", "stream model: read at EOF returns b''"],
    "explanation": "named loops proved to terminate for every content of short inputs; whole parsers bounded (mutations/truncations of "
                   "shipped files under a time limit). The global 'time bounded by input size' claim is not machine-checked.",
    "assumptions": ["count-driven for-loops (range(n) with n read from the file) either consume input or fail at EOF: checked only by "
                    "the bounded runs (crafted huge counts on truncated files)"],
}
DATA = os.path.join(os.environ.get("VERIF_REPO", "/repo") if os.path.isdir(os.path.join(os.environ.get("VERIF_REPO", "/repo"), "tests"))
                    else "/repo", "tests", "data")


def _items(b):
    return list(b.items) if hasattr(b, "items") else list(b)


@unit("C35", covers=[(DEX, "read_null_terminated_string")], params=[{"n": n} for n in (0, 1, 127, 128, 129, 257)], samples=20,
      timeout_ms=60000, terminates=True)
def unterminated_string(U, n):
    """no NUL anywhere: the reader must still come back"""
    m = U.mod(DEX)
    b = U.bytes("data", n)
    for x in _items(b):
        U.assume(x != 0)
    f = U.stream(b)
    o = U.call(m.read_null_terminated_string, f)
    U.ensures("terminates (result or error) on an unterminated string", o.ok or not type(o.exc).__name__ == "NonTerminating",
              exc=repr(o.exc))
    if o.ok:
        U.ensures("returns what was there", Eq(_items(o.value), _items(b)))


@unit("C35", covers=[(AXML, "ARSCHeader.__init__")], params=[{"n": n, "pos": p} for n, p in ((8, 0), (10, 0), (12, 1), (14, 2), (9, 1))],
      samples=60, max_paths=20000, terminates=True)
def arsc_header_skip_loop(U, n, pos):
    """dummy-data skip loop: every content of a short buffer, from position 0 and from inside"""
    m = U.mod(AXML)
    b = U.bytes("data", n)
    f = U.stream(b, pos)
    o = U.call(m.ARSCHeader, f)
    U.ensures("terminates with a header or an error", o.ok or not type(o.exc).__name__ == "NonTerminating", exc=repr(o.exc))
    if o.exc is not None:
        U.ensures("failure is a parser error (ResParserError / struct.error)", o.raised(m.ResParserError, m.__pyvc_struct__.error
                                                                                        if U.mode == "sym" else __import__("struct").error),
                  exc=repr(o.exc))


class _CMD:
    def __init__(self, packer):
        self.packer = packer


@unit("C35", covers=[(DEX, "DebugInfoItem.__init__")], params=[{"n": n} for n in range(0, 6)], samples=60, max_paths=60000,
      timeout_ms=60000, terminates=True)
def debug_info_loop(U, n):
    m = U.mod(DEX)
    b = U.bytes("data", n)
    f = U.stream(b)
    o = U.call(m.DebugInfoItem, f, U.cm())
    U.ensures("terminates with an item or a struct.error at EOF",
              o.ok or o.raised((m.__pyvc_struct__ if U.mode == "sym" else __import__("struct")).error), exc=repr(o.exc))


# ---------------------------------------------------------------------------------------------------------------
# bounded: whole parsers on mutations / truncations of shipped files


def _seed_files():
    apk = os.path.join(DATA, "APK", "TestActivity.apk")
    out = {"dex": open(os.path.join(DATA, "APK", "Test.dex"), "rb").read(),
           "axml": open(os.path.join(DATA, "AXML", "AndroidManifest.xml"), "rb").read(),
           "apk": open(apk, "rb").read()}
    with zipfile.ZipFile(apk) as z:
        out["arsc"] = z.read("resources.arsc")
    return out


_SEEDS = None


def _mutate(rng, data, kind):
    b = bytearray(data)
    if kind == "trunc":
        return bytes(b[:rng.randrange(0, len(b))])
    if kind == "flip":
        for _ in range(rng.randint(1, 4)):
            b[rng.randrange(len(b))] = rng.choice([0, 0xFF, 0x80, 0x7F, rng.randrange(256)])
        return bytes(b)
    if kind == "huge":
        i = rng.randrange(0, max(1, len(b) - 4))
        b[i:i + 4] = b"\xff\xff\xff\x7f"
        return bytes(b)
    if kind == "nonul":
        return bytes(x if x else 0x41 for x in b[:rng.randrange(8, len(b))])
    return bytes(b)


def _code_offsets(data):
    """offsets of the code_item headers of a DEX file (independent walk over class_data_item)"""
    import struct
    from specs.dexreader import uleb
    out = []
    c_n, c_o = struct.unpack_from("<II", data, 0x60)
    for i in range(c_n):
        cdata = struct.unpack_from("<I", data, c_o + 32 * i + 24)[0]
        if not cdata:
            continue
        p = cdata
        ns = []
        for _ in range(4):
            v, p = uleb(data, p)
            ns.append(v)
        for _ in range(ns[0] + ns[1]):
            _, p = uleb(data, p)
            _, p = uleb(data, p)
        for _ in range(ns[2] + ns[3]):
            _, p = uleb(data, p)
            _, p = uleb(data, p)
            co, p = uleb(data, p)
            if co:
                out.append(co)
    return sorted(set(out))


def _fix_dex(data):
    """keep a mutated DEX acceptable to the header checks (magic, Adler-32) so that the mutation reaches the section parsers"""
    import zlib
    import struct
    if len(data) < 0x70:
        return data
    return data[:8] + struct.pack("<I", zlib.adler32(data[12:]) & 0xFFFFFFFF) + data[12:]


def _mutate_dex_struct(rng, data):
    """structure-aware: boundary values in code_item headers / class_data / map entries, odd file lengths"""
    import struct
    b = bytearray(data)
    codes = _code_offsets(data)
    for _ in range(rng.randint(1, 3)):
        what = rng.choice(["code", "code", "code", "map", "ids", "data"])
        if what == "code" and codes:
            co = rng.choice(codes)
            field, width = rng.choice([(0, 2), (2, 2), (4, 2), (6, 2), (8, 4), (12, 4)])     # registers, ins, outs, tries, debug_off, insns_size
            val = rng.choice([0, 1, 0xFFFF, 0x7FFFFFFF, 0xFFFFFFFF, len(b), len(b) // 2, rng.randrange(1 << 16)])
            b[co + field:co + field + width] = struct.pack("<I", val & 0xFFFFFFFF)[:width]
        elif what == "map":
            mo = struct.unpack_from("<I", b, 0x34)[0]
            n = struct.unpack_from("<I", b, mo)[0]
            k = rng.randrange(max(n, 1))
            field = rng.choice([4, 8])                                                      # size, offset of a map entry
            val = rng.choice([0, 1, 0xFFFFFFFF, 0x7FFFFFFF, len(b) - 1, len(b) + 1, rng.randrange(len(b))])
            b[mo + 4 + 12 * k + field:mo + 4 + 12 * k + field + 4] = struct.pack("<I", val)
        elif what == "ids":
            i = 0x38 + 4 * rng.randrange(12)                                                # a size/offset word of the header
            b[i:i + 4] = struct.pack("<I", rng.choice([0, 1, 0xFFFFFFFF, len(b), len(b) - 2, rng.randrange(len(b))]))
        else:
            i = rng.randrange(0x70, len(b) - 4)
            b[i:i + 4] = struct.pack("<I", rng.choice([0, 0xFFFFFFFF, 0x7FFFFFFF, 0x80, 0xFFFF]))
    r = rng.random()
    if r < 0.4:
        b += bytes(rng.randrange(256) for _ in range(rng.randint(1, 3)))                     # file length not a multiple of 4
    elif r < 0.6:
        del b[len(b) - rng.randint(1, 7):]
    return bytes(b)


def _parse(kind, data, mods):
    dex, axml, apk = mods
    if kind == "dex":
        dex.DEX(data)
    elif kind == "axml":
        axml.AXMLPrinter(data).get_xml()
    elif kind == "arsc":
        p = axml.ARSCParser(data)
        for pk in p.get_packages_names():
            p.get_locales(pk)
    else:
        a = apk.APK(data, raw=True)
        a.get_files()


@unit("C35", covers=[(DEX, "DEX._load"), (AXML, "AXMLParser._do_next"), (AXML, "ARSCParser.__init__"), (APKF, "APK.__init__"),
                     (DEX, "HiddenApiClassDataItem.__init__"), (DEX, "DebugInfoItem.__init__")],
      params=[{"kind": k, "mut": mu} for k in ("dex", "axml", "arsc", "apk") for mu in ("trunc", "flip", "huge", "nonul")]
      + [{"kind": "dex", "mut": "struct%d" % i} for i in range(4)],
      level="bounded", samples=12,
      note="truncations, 1..4 byte overwrites, huge 32-bit counts and NUL-free prefixes of Test.dex, AndroidManifest.xml, "
           "resources.arsc and TestActivity.apk (DEX: Adler-32 re-computed after the mutation so that it reaches the section parsers; "
           "struct*: boundary values in code_item headers, map entries and header size/offset words, odd file lengths); each parse under the harness time limit (20 s); any exception is acceptable, a "
           "timeout is not", terminates=True)
def whole_parsers(U, kind, mut):
    global _SEEDS
    if _SEEDS is None:
        _SEEDS = _seed_files()
    mods = (U.mod(DEX), U.mod(AXML), U.mod(APKF))
    seed = U.int("seed", 0, 1 << 30)
    rng = random.Random("%s/%s/%d" % (kind, mut, seed))
    if mut.startswith("struct"):
        datas = [_mutate_dex_struct(rng, _SEEDS[kind]) for _ in range(12)]          # cheap parses: several files per sample
    else:
        datas = [_mutate(rng, _SEEDS[kind], mut)]
    if kind == "dex":
        datas = [_fix_dex(d) for d in datas]
    for data in datas:
        o = U.call(_parse, kind, data, mods)
        U.ensures("the parser returns (result or error)", True, size=len(data), exc=repr(o.exc)[:120])


@unit("C35", covers=[(AXML, "AXMLParser._do_next"), (AXML, "AXMLPrinter.__init__"), (AXML, "AXMLParser.getAttributeName")],
      params=[{"n": n, "names": k} for n in (1200, 5000) for k in ("empty", "distinct", "same")], level="bounded", samples=1,
      note="well-formed documents with huge declared counts: one element with 1200 / 5000 attributes whose names are all empty "
           "(androguard invents placeholder names), all distinct, or all the same; parse under the harness time limit", terminates=True)
def many_attributes(U, n, names):
    from specs import axmlwriter as W
    m = U.mod(AXML)
    U.drawn.update({"n": n, "names": names})
    nm = {"empty": lambda i: "", "distinct": lambda i: "a%d" % i, "same": lambda i: "dup"}[names]
    root = W.Elem("manifest", attrs=[W.Attr(nm(i), ("int", i)) for i in range(n)], children=[W.Elem("application")])
    data = W.write(root)
    o = U.call(lambda: m.AXMLPrinter(data).get_xml())
    U.ensures("the parser returns (result or error)", True, exc=repr(o.exc)[:120])


many_attributes.enumerate_inputs = lambda tier, **p: iter([{}])
many_attributes.conc_timeout = 30


# ------------------------------------------------------------------------------------------------
# Loop contracts with a termination VARIANT on streams of arbitrary length and content (loader T2): the variant is a non-negative
# integer expression over the stream position that strictly decreases on every iteration that reaches the back edge; every other way
# out of the iteration (break, return, exception) leaves the loop.  Proved for every input at once -- no length parameter.
from pyvc import ubuf  # noqa: E402
from pyvc.loops import GhostList, LoopSpec  # noqa: E402


def _sym_stream(U, name="file"):
    mem = ubuf.SymMem(name)
    buf = ubuf.SymBuf(mem, 0, U.int("len", 0, ubuf.MAXLEN))
    p0 = U.int("p0", 0, ubuf.MAXLEN)
    return mem, buf, p0, ubuf.SymStreamU(buf, p0, "buff")


# -- ARSCHeader.__init__: `while True` dummy-data skip loop.  Invariant: start <= pos.  Variant: len - pos (a header that is not
# accepted makes the loop re-read from one byte further; at the end of the data the 8-byte read comes back short and unpack raises).
HDR_SKIP = LoopSpec("ARSCHeader.__init__#0",
                    invariant=lambda s, L, k: And(L["buff"].pos >= L["self"].start, L["buff"].pos + 8 <= L["buff"].buf.length + 8),
                    variant=lambda s, L, k: L["buff"].buf.length - L["buff"].pos + 8,
                    heap=("buff",), const=("self", "expected_type"))


@unit("C35", covers=[(AXML, "ARSCHeader.__init__")], loops={(AXML, "ARSCHeader.__init__", 0): HDR_SKIP}, samples=200, terminates=True,
      note="loop contract: stream of any length and content, any start position; variant len - pos")
def arsc_header_skip_loop_unbounded(U):
    m = U.mod(AXML)
    if U.mode != "sym":
        n = U.int("n", 0, 64)
        data = U.bytes("data", n)
        f = U.stream(bytes(data), U.int("p0", 0, n + 2))
        o = U.call(m.ARSCHeader, f)
        import struct
        U.ensures("terminates with a header or a parser error", o.ok or o.raised(m.ResParserError, struct.error), exc=repr(o.exc))
        return
    mem, buf, p0, f = _sym_stream(U)
    o = U.call(m.ARSCHeader, f)
    U.ensures("terminates with a header or a parser error", o.ok or o.raised(m.ResParserError, m.__pyvc_struct__.error), exc=repr(o.exc))
    if o.ok:
        h = o.value
        U.ensures("an accepted header lies inside the data, at or behind the start position",
                  And(h.start == p0, f.pos >= p0 + 8, f.pos <= buf.length))


def _leb_contract(U, m, name, lo=-(1 << 32), hi=1 << 32):
    """callee contract of the LEB128 readers (their bodies are C03's obligation): consume 1..5 bytes and return some integer, or
    raise struct.error when the data ends first"""
    def stub(cm, buff):
        from pyvc.core import ctx
        tag = "%s#%d" % (name, next(ctx().fresh))         # a fresh pair of unknowns per call
        k = U.int("%s.bytes" % tag, 1, 5)
        if buff.pos + k > buff.buf.length:        # decision
            raise m.__pyvc_struct__.error("unpack requires a buffer of 1 bytes")
        buff.pos = buff.pos + k
        return U.int("%s.value" % tag, lo, hi)
    return stub


def _stub_lebs(U, m, lo=-(1 << 32), hi=1 << 32):
    for nm in ("readuleb128", "readsleb128", "readuleb128p1"):
        U.substitute(m, nm, _leb_contract(U, m, nm, lo, hi), "callee contract (C03): consumes 1..5 bytes or raises struct.error at the end of the data")


# -- DebugInfoItem.__init__: `while bcode.get_op_value() != DBG_END_SEQUENCE`.  Every iteration ends with get_byte (one byte
# consumed, struct.error at the end of the data).  Variant: len - pos.
def _havoc_dbg(spec, L):
    L["self"].bytecodes = GhostList("bytecodes", {})


class _Op:
    def __init__(self, v):
        self.v, self.format = v, []

    def get_op_value(self):
        return self.v

    def add(self, value, ttype):
        self.format.append((value, ttype))


DBG_LOOP = LoopSpec("DebugInfoItem.__init__#1",
                    invariant=lambda s, L, k: And(L["buff"].pos <= L["buff"].buf.length, L["buff"].pos >= 0),
                    variant=lambda s, L, k: L["buff"].buf.length - L["buff"].pos,
                    havoc={"bcode": lambda s, L: _Op(s.G["U"].int("op@", 0, 255))},
                    heap=("buff",), const=("self", "cm"), at_havoc=_havoc_dbg)


@unit("C35", covers=[(DEX, "DebugInfoItem.__init__")], loops={(DEX, "DebugInfoItem.__init__", 1): DBG_LOOP}, samples=200,
      params=[{"nparams": k} for k in (0, 1)], terminates=True, max_paths=20000,
      note="loop contract on the opcode loop: stream of any length and content; variant len - pos (parameters_size 0 / 1 in "
           "front of it: that count loop is a `for` over a finite range)")
def debug_info_loop_unbounded(U, nparams):
    m = U.mod(DEX)
    if U.mode != "sym":
        n = U.int("n", 0, 40)
        f = U.stream(bytes(U.bytes("data", n)), 0)
        o = U.call(m.DebugInfoItem, f, U.cm())
        import struct
        U.ensures("terminates with an item or a struct.error at the end of the data", o.ok or o.raised(struct.error), exc=repr(o.exc))
        return
    mem, buf, p0, f = _sym_stream(U)
    U.assume(p0 <= buf.length)
    DBG_LOOP.G = {"U": U}
    stub_u, stub_s, stub_p = (_leb_contract(U, m, x) for x in ("readuleb128", "readsleb128", "readuleb128p1"))
    calls = [0]

    def ru(cm, buff):
        # callee contract; the second call is parameters_size: its value is the unit parameter (count of the `for` in front of
        # the opcode loop), the bytes consumed are as for any other call
        calls[0] += 1
        v = stub_u(cm, buff)
        return nparams if calls[0] == 2 else v
    U.substitute(m, "readuleb128", ru, "callee contract (C03): consumes 1..5 bytes or raises struct.error; parameters_size = unit parameter")
    U.substitute(m, "readsleb128", stub_s, "callee contract (C03): consumes 1..5 bytes or raises struct.error")
    U.substitute(m, "readuleb128p1", stub_p, "callee contract (C03): consumes 1..5 bytes or raises struct.error")
    o = U.call(m.DebugInfoItem, f, U.cm())
    U.ensures("terminates with an item or a struct.error at the end of the data", o.ok or o.raised(m.__pyvc_struct__.error), exc=repr(o.exc))


# -- HiddenApiClassDataItem.__init__: `while buff.tell() - self.offset < self.section_size`; variant: section_size - (pos - offset)
def _havoc_hidden(spec, L):
    pass


HIDDEN_LOOP = LoopSpec("HiddenApiClassDataItem.__init__#0",
                       invariant=lambda s, L, k: And(L["buff"].pos >= L["self"].offset + 4, L["buff"].pos <= L["buff"].buf.length,
                                                     L["i"] >= 0),
                       variant=lambda s, L, k: L["self"].section_size - (L["buff"].pos - L["self"].offset),
                       havoc={"i": lambda s, L: s.G["U"].int("i@", 0, 1 << 32), "offsets_size": lambda s, L: s.G["U"].int("osz@", -1, 1 << 30)},
                       heap=("buff",), const=("self", "cm"))


def _havoc_flags(spec, L):
    L["self"].flags = GhostList("flags", {})


HIDDEN_FLAGS = LoopSpec("HiddenApiClassDataItem.__init__#1", invariant=lambda s, L, k: L["buff"].pos >= 0,
                        heap=("buff",), const=("self", "cm", "offsets_size"), at_havoc=_havoc_flags)


@unit("C35", covers=[(DEX, "HiddenApiClassDataItem.__init__")],
      loops={(DEX, "HiddenApiClassDataItem.__init__", 0): HIDDEN_LOOP, (DEX, "HiddenApiClassDataItem.__init__", 1): HIDDEN_FLAGS},
      samples=100, terminates=True, max_paths=4000,
      note="loop contract on the offsets-array loop: variant section_size - bytes consumed (each iteration reads one word)")
def hidden_api_loop_unbounded(U):
    m = U.mod(DEX)
    if U.mode != "sym":
        n = U.int("n", 0, 48)
        f = U.stream(bytes(U.bytes("data", n)), 0)
        o = U.call(m.HiddenApiClassDataItem, f, U.cm())
        import struct
        U.ensures("terminates with an item or an error", o.ok or o.raised(struct.error, ValueError), exc=repr(o.exc))
        return
    mem, buf, p0, f = _sym_stream(U)
    U.assume(p0 <= buf.length)
    HIDDEN_LOOP.G = {"U": U}
    _stub_lebs(U, m, 0, 255)        # flag values 0..255: every enum member and the invalid ones (ValueError)
    o = U.call(m.HiddenApiClassDataItem, f, U.cm())
    U.ensures("terminates with an item or an error", o.ok or o.raised(m.__pyvc_struct__.error, ValueError), exc=repr(o.exc))


# -- APK.parse_v2_v3_signature: backward search for the end-of-central-directory record (`while f.tell() > 0`).  Each iteration
# steps one byte back, reads four and -- unless they are the record's magic -- steps back over them.  Invariant: 0 <= pos and
# (pos == 0 or pos + 21 <= len) (so every 4-byte read is complete).  Variant: pos.
EOCD_SEARCH = LoopSpec("APK.parse_v2_v3_signature#0",
                       invariant=lambda s, L, k: And(L["f"].pos >= 0, Or(L["f"].pos == 0, L["f"].pos + 21 <= L["f"].buf.length)),
                       variant=lambda s, L, k: L["f"].pos,
                       havoc={"size_central": lambda s, L: None, "offset_central": lambda s, L: None},
                       heap=("f",), const=("self",))


class _IoU:
    """io module stand-in: BytesIO over a symbolic buffer is the symbolic stream model"""

    def BytesIO(self, data=b""):
        if isinstance(data, ubuf.SymBuf):
            return ubuf.SymStreamU(data, 0, "f")
        return io.BytesIO(data)

    def __getattr__(self, n):
        return getattr(io, n)


@unit("C35", covers=[(APKF, "APK.parse_v2_v3_signature")], loops={(APKF, "APK.parse_v2_v3_signature", 0): EOCD_SEARCH}, samples=200,
      terminates=True, max_paths=400,
      note="loop contract: archive bytes of any length and content; variant = stream position. The code behind the loop is cut at "
           "its first check (the receiver's central-directory magic is a stand-in no four bytes equal), its loop #1 stays bounded-only")
def eocd_search_unbounded(U):
    from pyvc.unit import bare
    m = U.mod(APKF)
    a = bare(m.APK)
    a._is_signed_v2 = a._is_signed_v3 = a._is_signed_v31 = None
    a._v2_blocks = []
    if U.mode != "sym":
        n = U.int("n", 0, 60)
        data = bytearray(bytes(U.bytes("data", n)))
        at = U.int("at", 0, 80)
        if at + 22 <= n and U.int("plant", 0, 1):
            data[at:at + 4] = b"PK\x05\x06"
        a.get_raw = lambda: bytes(data)
        o = U.call(a.parse_v2_v3_signature)
        import struct
        U.ensures("terminates: returns, or rejects the archive", o.ok or o.raised(m.BrokenAPKError, struct.error, ValueError), exc=repr(o.exc))
        return
    U.substitute(m, "io", _IoU(), "BytesIO over a symbolic buffer = symbolic stream model")
    mem = ubuf.SymMem("apk")
    buf = ubuf.SymBuf(mem, 0, U.int("len", 0, ubuf.MAXLEN))
    a.get_raw = lambda: buf
    a._PK_CENTRAL_DIR = b"PK\x01\x02+"        # five bytes: the check behind the loop rejects every archive (cut, see note)
    o = U.call(a.parse_v2_v3_signature)
    U.ensures("the search loop is left: the method returns or rejects the archive",
              o.ok or o.raised(m.BrokenAPKError, m.__pyvc_struct__.error, ValueError), exc=repr(o.exc))


# ------------------------------------------------------------------------------------------------
# Inventory of the `while` loops of the three parser files (count-driven `for` loops iterate finite sequences and terminate
# structurally as long as their bodies do).  Each loop is either under a termination contract (variant proved for inputs of any
# length) or listed as covered by the bounded runs only.  A `while` loop that is in none of the lists -- e.g. one introduced by a
# change -- has no termination argument here: the unit becomes UNDECIDED (exit 2), it is not reported as a violation.
VARIANT_PROVED = {
    (DEX, "read_null_terminated_string", 0): "C06 null_terminated_unbounded: len - pos",
    (DEX, "HiddenApiClassDataItem.__init__", 0): "C35 hidden_api_loop_unbounded: section_size - consumed",
    (DEX, "DebugInfoItem.__init__", 1): "C35 debug_info_loop_unbounded: len - pos",
    (DEX, "LinearSweepAlgorithm.get_instructions", 0): "C02 sweep_loop_unbounded: max_idx - idx",
    (AXML, "AXMLParser._do_next", 0): "C26 chunk_loop_terminates: bytes left",
    (AXML, "ARSCHeader.__init__", 0): "C35 arsc_header_skip_loop_unbounded: len - pos",
    (APKF, "APK.parse_signatures_or_digests", 0): "C33 digest_sequence_unbounded: bytes left",
    (APKF, "APK.parse_v2_v3_signature", 0): "C35 eocd_search_unbounded: stream position",
}
EXECUTED_FOR_ALL_INPUTS = {
    (DEX, "writeuleb128", 0): "C03: executed symbolically for every 32-bit value (at most 5 iterations)",
    (DEX, "writesleb128", 0): "C03: executed symbolically for every 32-bit value (at most 5 iterations)",
}
BOUNDED_ONLY = {
    (DEX, "EncodedMethod.get_information", 0): "counter loop over a parsed list (not on the parsing path)",
    (DEX, "EncodedMethod.get_short_string._fmt_classname", 0): "strips one '[' per iteration of a finite string",
    (AXML, "AXMLPrinter.__init__", 0): "one _do_next step per iteration; the step's proved postcondition (C26 chunk_loop_terminates: END_DOCUMENT, "
                                       "invalid, or >= 8 bytes consumed) gives the variant `bytes left`; this last step is not mechanised (whole_parsers, many_attributes)",
    (AXML, "ARSCParser.__init__", 0): "chunk loop: seeks to header.start + size, size >= 8 (whole_parsers)",
    (AXML, "ARSCParser.__init__", 1): "package chunk loop: seeks to header.end (whole_parsers)",
    (AXML, "ARSCParser._analyse", 1): "index walk over the parsed package list",
    (APKF, "APK.parse_v2_v3_signature", 1): "signing-block pairs: at least 12 bytes per iteration (C33 generated_blocks, whole_parsers)",
    (APKF, "APK.parse_v3_signing_block", 0): "signers: length-prefixed (C33 generated_blocks)",
    (APKF, "APK.parse_v3_signing_block", 1): "certificates: length-prefixed (C33 generated_blocks)",
    (APKF, "APK.parse_v2_signing_block", 0): "signers: length-prefixed (C33 generated_blocks)",
    (APKF, "APK.parse_v2_signing_block", 1): "certificates: length-prefixed (C33 generated_blocks)",
    (APKF, "get_apkid", 0): "one _do_next step per iteration (as AXMLPrinter.__init__)",
}


def _while_loops(relpath):
    import ast
    from pyvc import loader
    _, tree = loader.read_source(relpath)
    out = []

    class V(ast.NodeVisitor):
        def __init__(self):
            self.stack, self.cnt = [], []

        def _d(self, n):
            self.stack.append(n.name)
            self.cnt.append(0)
            self.generic_visit(n)
            self.cnt.pop()
            self.stack.pop()
        visit_FunctionDef = visit_ClassDef = visit_AsyncFunctionDef = _d

        def _l(self, n):
            if self.cnt:
                k = self.cnt[-1]
                self.cnt[-1] += 1
                if isinstance(n, ast.While):
                    out.append((relpath, ".".join(self.stack), k))
            self.generic_visit(n)
        visit_While = visit_For = _l
    V().visit(tree)
    return out


@unit("C35", covers=[(DEX, "read_null_terminated_string"), (AXML, "AXMLParser._do_next"), (APKF, "APK.parse_signatures_or_digests")], samples=1,
      note="structural inventory of the while loops of dex/__init__.py, axml/__init__.py, apk/__init__.py: %d under a proved variant, "
           "%d executed for all inputs, %d covered by bounded runs only (listed in the unit's source)" %
           (len(VARIANT_PROVED), len(EXECUTED_FOR_ALL_INPUTS), len(BOUNDED_ONLY)))
def loop_inventory(U):
    from pyvc.core import Unsupported
    known = set(VARIANT_PROVED) | set(EXECUTED_FOR_ALL_INPUTS) | set(BOUNDED_ONLY)
    found = [l for f in (DEX, AXML, APKF) for l in _while_loops(f)]
    new = [l for l in found if l not in known]
    if new and U.mode == "sym":          # a structural argument: nothing to execute concretely
        raise Unsupported("while loop(s) without a termination argument in this contract set: %s" % new)
    U.ensures("every while loop of the three parser files is classified (variant proved / executed for all inputs / bounded only)", True)
    gone = [l for l in VARIANT_PROVED if l not in found]
    U.ensures("every loop that carries a termination contract is still there", not gone, missing=gone) if not gone else None
