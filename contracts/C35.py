"""C35  Parsers terminate on every input (DESIGN §7 C35)."""
import io
import os
import random
import zipfile

from pyvc.core import And, Eq, Implies, Ite, Not, Or, SymBytes
from pyvc.unit import unit

DEX = "androguard/core/dex/__init__.py"
AXML = "androguard/core/axml/__init__.py"
APKF = "androguard/core/apk/__init__.py"
META = {
    "technique": 'contract-based deductive verification: symbolic execution of the real functions against sidecar contracts (z3/cvc5) for the proved units; bounded contract evaluation (enumerated scope / independent writer) for the rest',
    "level": "other",
    "partial": True,
    "level_text": "Proof (all contents of short inputs): the loops named in the property are executed on streams of symbolic bytes "
                  "and every path is proved to end (result or error): read_null_terminated_string with no NUL at all (0..257 bytes), "
                  "the ARSCHeader dummy-data skip loop (8..14 bytes, every content), the DebugInfoItem opcode loop (0..5 bytes). The "
                  "sweep loop's progress (positive length, resumes at offset+length) is C02's obligation. Bounded: the four whole "
                  "parsers (DEX, binary XML, resource table, APK) are run on truncations and byte mutations of shipped files, each "
                  "under a time limit proportional to nothing but a constant (10 s for inputs < 1 MB).",
    "trusted": ["time inside C extensions / lxml / zip reader is not modelled", "stream model: read at EOF returns b''"],
    "explanation": "named loops proved to terminate for every content of short inputs; whole parsers bounded (mutations/truncations of "
                   "shipped files under a time limit). The global 'time bounded by input size' claim is not machine-checked.",
    "assumptions": ["count-driven for-loops (range(n) with n read from the file) either consume input or fail at EOF: checked only by "
                    "the bounded runs (crafted huge counts on truncated files)"],
}
DATA = os.path.join(os.environ.get("VERIF_REPO", "/repo") if os.path.isdir(os.path.join(os.environ.get("VERIF_REPO", "/repo"), "tests"))
                    else "/repo", "tests", "data")


def _items(b):
    return list(b.items) if hasattr(b, "items") else list(b)


@unit("C35", covers=[(DEX, "read_null_terminated_string")], params=[{"n": n} for n in (0, 1, 127, 128, 129, 257)], samples=20,
      timeout_ms=60000, terminates=True)
def unterminated_string(U, n):
    """no NUL anywhere: the reader must still come back"""
    m = U.mod(DEX)
    b = U.bytes("data", n)
    for x in _items(b):
        U.assume(x != 0)
    f = U.stream(b)
    o = U.call(m.read_null_terminated_string, f)
    U.ensures("terminates (result or error) on an unterminated string", o.ok or not type(o.exc).__name__ == "NonTerminating",
              exc=repr(o.exc))
    if o.ok:
        U.ensures("returns what was there", Eq(_items(o.value), _items(b)))


@unit("C35", covers=[(AXML, "ARSCHeader.__init__")], params=[{"n": n, "pos": p} for n, p in ((8, 0), (10, 0), (12, 1), (14, 2), (9, 1))],
      samples=60, max_paths=20000, terminates=True)
def arsc_header_skip_loop(U, n, pos):
    """dummy-data skip loop: every content of a short buffer, from position 0 and from inside"""
    m = U.mod(AXML)
    b = U.bytes("data", n)
    f = U.stream(b, pos)
    o = U.call(m.ARSCHeader, f)
    U.ensures("terminates with a header or an error", o.ok or not type(o.exc).__name__ == "NonTerminating", exc=repr(o.exc))
    if o.exc is not None:
        U.ensures("failure is a parser error (ResParserError / struct.error)", o.raised(m.ResParserError, m.__pyvc_struct__.error
                                                                                        if U.mode == "sym" else __import__("struct").error),
                  exc=repr(o.exc))


class _CMD:
    def __init__(self, packer):
        self.packer = packer


@unit("C35", covers=[(DEX, "DebugInfoItem.__init__")], params=[{"n": n} for n in range(0, 6)], samples=60, max_paths=60000,
      timeout_ms=60000, terminates=True)
def debug_info_loop(U, n):
    m = U.mod(DEX)
    b = U.bytes("data", n)
    f = U.stream(b)
    o = U.call(m.DebugInfoItem, f, U.cm())
    U.ensures("terminates with an item or a struct.error at EOF",
              o.ok or o.raised((m.__pyvc_struct__ if U.mode == "sym" else __import__("struct")).error), exc=repr(o.exc))


# ---------------------------------------------------------------------------------------------------------------
# bounded: whole parsers on mutations / truncations of shipped files


def _seed_files():
    apk = os.path.join(DATA, "APK", "TestActivity.apk")
    out = {"dex": open(os.path.join(DATA, "APK", "Test.dex"), "rb").read(),
           "axml": open(os.path.join(DATA, "AXML", "AndroidManifest.xml"), "rb").read(),
           "apk": open(apk, "rb").read()}
    with zipfile.ZipFile(apk) as z:
        out["arsc"] = z.read("resources.arsc")
    return out


_SEEDS = None


def _mutate(rng, data, kind):
    b = bytearray(data)
    if kind == "trunc":
        return bytes(b[:rng.randrange(0, len(b))])
    if kind == "flip":
        for _ in range(rng.randint(1, 4)):
            b[rng.randrange(len(b))] = rng.choice([0, 0xFF, 0x80, 0x7F, rng.randrange(256)])
        return bytes(b)
    if kind == "huge":
        i = rng.randrange(0, max(1, len(b) - 4))
        b[i:i + 4] = b"\xff\xff\xff\x7f"
        return bytes(b)
    if kind == "nonul":
        return bytes(x if x else 0x41 for x in b[:rng.randrange(8, len(b))])
    return bytes(b)


def _code_offsets(data):
    """offsets of the code_item headers of a DEX file (independent walk over class_data_item)"""
    import struct
    from specs.dexreader import uleb
    out = []
    c_n, c_o = struct.unpack_from("<II", data, 0x60)
    for i in range(c_n):
        cdata = struct.unpack_from("<I", data, c_o + 32 * i + 24)[0]
        if not cdata:
            continue
        p = cdata
        ns = []
        for _ in range(4):
            v, p = uleb(data, p)
            ns.append(v)
        for _ in range(ns[0] + ns[1]):
            _, p = uleb(data, p)
            _, p = uleb(data, p)
        for _ in range(ns[2] + ns[3]):
            _, p = uleb(data, p)
            _, p = uleb(data, p)
            co, p = uleb(data, p)
            if co:
                out.append(co)
    return sorted(set(out))


def _fix_dex(data):
    """keep a mutated DEX acceptable to the header checks (magic, Adler-32) so that the mutation reaches the section parsers"""
    import zlib
    import struct
    if len(data) < 0x70:
        return data
    return data[:8] + struct.pack("<I", zlib.adler32(data[12:]) & 0xFFFFFFFF) + data[12:]


def _mutate_dex_struct(rng, data):
    """structure-aware: boundary values in code_item headers / class_data / map entries, odd file lengths"""
    import struct
    b = bytearray(data)
    codes = _code_offsets(data)
    for _ in range(rng.randint(1, 3)):
        what = rng.choice(["code", "code", "code", "map", "ids", "data"])
        if what == "code" and codes:
            co = rng.choice(codes)
            field, width = rng.choice([(0, 2), (2, 2), (4, 2), (6, 2), (8, 4), (12, 4)])     # registers, ins, outs, tries, debug_off, insns_size
            val = rng.choice([0, 1, 0xFFFF, 0x7FFFFFFF, 0xFFFFFFFF, len(b), len(b) // 2, rng.randrange(1 << 16)])
            b[co + field:co + field + width] = struct.pack("<I", val & 0xFFFFFFFF)[:width]
        elif what == "map":
            mo = struct.unpack_from("<I", b, 0x34)[0]
            n = struct.unpack_from("<I", b, mo)[0]
            k = rng.randrange(max(n, 1))
            field = rng.choice([4, 8])                                                      # size, offset of a map entry
            val = rng.choice([0, 1, 0xFFFFFFFF, 0x7FFFFFFF, len(b) - 1, len(b) + 1, rng.randrange(len(b))])
            b[mo + 4 + 12 * k + field:mo + 4 + 12 * k + field + 4] = struct.pack("<I", val)
        elif what == "ids":
            i = 0x38 + 4 * rng.randrange(12)                                                # a size/offset word of the header
            b[i:i + 4] = struct.pack("<I", rng.choice([0, 1, 0xFFFFFFFF, len(b), len(b) - 2, rng.randrange(len(b))]))
        else:
            i = rng.randrange(0x70, len(b) - 4)
            b[i:i + 4] = struct.pack("<I", rng.choice([0, 0xFFFFFFFF, 0x7FFFFFFF, 0x80, 0xFFFF]))
    r = rng.random()
    if r < 0.4:
        b += bytes(rng.randrange(256) for _ in range(rng.randint(1, 3)))                     # file length not a multiple of 4
    elif r < 0.6:
        del b[len(b) - rng.randint(1, 7):]
    return bytes(b)


def _parse(kind, data, mods):
    dex, axml, apk = mods
    if kind == "dex":
        dex.DEX(data)
    elif kind == "axml":
        axml.AXMLPrinter(data).get_xml()
    elif kind == "arsc":
        p = axml.ARSCParser(data)
        for pk in p.get_packages_names():
            p.get_locales(pk)
    else:
        a = apk.APK(data, raw=True)
        a.get_files()


@unit("C35", covers=[(DEX, "DEX._load"), (AXML, "AXMLParser._do_next"), (AXML, "ARSCParser.__init__"), (APKF, "APK.__init__"),
                     (DEX, "HiddenApiClassDataItem.__init__"), (DEX, "DebugInfoItem.__init__")],
      params=[{"kind": k, "mut": mu} for k in ("dex", "axml", "arsc", "apk") for mu in ("trunc", "flip", "huge", "nonul")]
      + [{"kind": "dex", "mut": "struct%d" % i} for i in range(4)],
      level="bounded", samples=12,
      note="truncations, 1..4 byte overwrites, huge 32-bit counts and NUL-free prefixes of Test.dex, AndroidManifest.xml, "
           "resources.arsc and TestActivity.apk (DEX: Adler-32 re-computed after the mutation so that it reaches the section parsers; "
           "struct*: boundary values in code_item headers, map entries and header size/offset words, odd file lengths); each parse under the harness time limit (20 s); any exception is acceptable, a "
           "timeout is not", terminates=True)
def whole_parsers(U, kind, mut):
    global _SEEDS
    if _SEEDS is None:
        _SEEDS = _seed_files()
    mods = (U.mod(DEX), U.mod(AXML), U.mod(APKF))
    seed = U.int("seed", 0, 1 << 30)
    rng = random.Random("%s/%s/%d" % (kind, mut, seed))
    if mut.startswith("struct"):
        datas = [_mutate_dex_struct(rng, _SEEDS[kind]) for _ in range(12)]          # cheap parses: several files per sample
    else:
        datas = [_mutate(rng, _SEEDS[kind], mut)]
    if kind == "dex":
        datas = [_fix_dex(d) for d in datas]
    for data in datas:
        o = U.call(_parse, kind, data, mods)
        U.ensures("the parser returns (result or error)", True, size=len(data), exc=repr(o.exc)[:120])


@unit("C35", covers=[(AXML, "AXMLParser._do_next"), (AXML, "AXMLPrinter.__init__"), (AXML, "AXMLParser.getAttributeName")],
      params=[{"n": n, "names": k} for n in (1200, 5000) for k in ("empty", "distinct", "same")], level="bounded", samples=1,
      note="well-formed documents with huge declared counts: one element with 1200 / 5000 attributes whose names are all empty "
           "(androguard invents placeholder names), all distinct, or all the same; parse under the harness time limit", terminates=True)
def many_attributes(U, n, names):
    from specs import axmlwriter as W
    m = U.mod(AXML)
    U.drawn.update({"n": n, "names": names})
    nm = {"empty": lambda i: "", "distinct": lambda i: "a%d" % i, "same": lambda i: "dup"}[names]
    root = W.Elem("manifest", attrs=[W.Attr(nm(i), ("int", i)) for i in range(n)], children=[W.Elem("application")])
    data = W.write(root)
    o = U.call(lambda: m.AXMLPrinter(data).get_xml())
    U.ensures("the parser returns (result or error)", True, exc=repr(o.exc)[:120])


many_attributes.enumerate_inputs = lambda tier, **p: iter([{}])
many_attributes.conc_timeout = 30
