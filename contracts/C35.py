"""C35  Parsers terminate on every input (DESIGN §7 C35)."""
import io
import os
import random
import zipfile

from pyvc.core import And, Eq, Implies, Ite, Not, Or, SymBytes
from pyvc.unit import unit

DEX = "androguard/core/dex/__init__.py"
AXML = "androguard/core/axml/__init__.py"
APKF = "androguard/core/apk/__init__.py"
META = {
    "technique": 'contract-based deductive verification: symbolic execution of the real functions against sidecar contracts (z3/cvc5) for the proved units; bounded contract evaluation (enumerated scope / independent writer) for the rest',
    "level": "other",
    "partial": True,
    "level_text": "Proof (all contents of short inputs): the loops named in the property are executed on streams of symbolic bytes "
                  "and every path is proved to end (result or error): read_null_terminated_string with no NUL at all (0..257 bytes), "
                  "the ARSCHeader dummy-data skip loop (8..14 bytes, every content), the DebugInfoItem opcode loop (0..5 bytes). The "
                  "sweep loop's progress (positive length, resumes at offset+length) is C02's obligation. Bounded: the four whole "
                  "parsers (DEX, binary XML, resource table, APK) are run on truncations and byte mutations of shipped files, each "
                  "under a time limit proportional to nothing but a constant (10 s for inputs < 1 MB).",
    "trusted": ["time inside C extensions / lxml / zip reader is not modelled", "stream model: read at EOF returns b''"],
    "explanation": "named loops proved to terminate for every content of short inputs; whole parsers bounded (mutations/truncations of "
                   "shipped files under a time limit). The global 'time bounded by input size' claim is not machine-checked.",
    "assumptions": ["count-driven for-loops (range(n) with n read from the file) either consume input or fail at EOF: checked only by "
                    "the bounded runs (crafted huge counts on truncated files)"],
}
DATA = os.path.join(os.environ.get("VERIF_REPO", "/repo") if os.path.isdir(os.path.join(os.environ.get("VERIF_REPO", "/repo"), "tests"))
                    else "/repo", "tests", "data")


def _items(b):
    return list(b.items) if hasattr(b, "items") else list(b)


@unit("C35", covers=[(DEX, "read_null_terminated_string")], params=[{"n": n} for n in (0, 1, 127, 128, 129, 257)], samples=20,
      timeout_ms=60000, terminates=True)
def unterminated_string(U, n):
    """no NUL anywhere: the reader must still come back"""
    m = U.mod(DEX)
    b = U.bytes("data", n)
    for x in _items(b):
        U.assume(x != 0)
    f = U.stream(b)
    o = U.call(m.read_null_terminated_string, f)
    U.ensures("terminates (result or error) on an unterminated string", o.ok or not type(o.exc).__name__ == "NonTerminating",
              exc=repr(o.exc))
    if o.ok:
        U.ensures("returns what was there", Eq(_items(o.value), _items(b)))


@unit("C35", covers=[(AXML, "ARSCHeader.__init__")], params=[{"n": n, "pos": p} for n, p in ((8, 0), (10, 0), (12, 1), (14, 2), (9, 1))],
      samples=60, max_paths=20000, terminates=True)
def arsc_header_skip_loop(U, n, pos):
    """dummy-data skip loop: every content of a short buffer, from position 0 and from inside"""
    m = U.mod(AXML)
    b = U.bytes("data", n)
    f = U.stream(b, pos)
    o = U.call(m.ARSCHeader, f)
    U.ensures("terminates with a header or an error", o.ok or not type(o.exc).__name__ == "NonTerminating", exc=repr(o.exc))
    if o.exc is not None:
        U.ensures("failure is a parser error (ResParserError / struct.error)", o.raised(m.ResParserError, m.__pyvc_struct__.error
                                                                                        if U.mode == "sym" else __import__("struct").error),
                  exc=repr(o.exc))


class _CMD:
    def __init__(self, packer):
        self.packer = packer


@unit("C35", covers=[(DEX, "DebugInfoItem.__init__")], params=[{"n": n} for n in range(0, 6)], samples=60, max_paths=60000,
      timeout_ms=60000, terminates=True)
def debug_info_loop(U, n):
    m = U.mod(DEX)
    b = U.bytes("data", n)
    f = U.stream(b)
    o = U.call(m.DebugInfoItem, f, U.cm())
    U.ensures("terminates with an item or a struct.error at EOF",
              o.ok or o.raised((m.__pyvc_struct__ if U.mode == "sym" else __import__("struct")).error), exc=repr(o.exc))


# ---------------------------------------------------------------------------------------------------------------
# bounded: whole parsers on mutations / truncations of shipped files


def _seed_files():
    apk = os.path.join(DATA, "APK", "TestActivity.apk")
    out = {"dex": open(os.path.join(DATA, "APK", "Test.dex"), "rb").read(),
           "axml": open(os.path.join(DATA, "AXML", "AndroidManifest.xml"), "rb").read(),
           "apk": open(apk, "rb").read()}
    with zipfile.ZipFile(apk) as z:
        out["arsc"] = z.read("resources.arsc")
    return out


_SEEDS = None


def _mutate(rng, data, kind):
    b = bytearray(data)
    if kind == "trunc":
        return bytes(b[:rng.randrange(0, len(b))])
    if kind == "flip":
        for _ in range(rng.randint(1, 4)):
            b[rng.randrange(len(b))] = rng.choice([0, 0xFF, 0x80, 0x7F, rng.randrange(256)])
        return bytes(b)
    if kind == "huge":
        i = rng.randrange(0, max(1, len(b) - 4))
        b[i:i + 4] = b"\xff\xff\xff\x7f"
        return bytes(b)
    if kind == "nonul":
        return bytes(x if x else 0x41 for x in b[:rng.randrange(8, len(b))])
    return bytes(b)


def _parse(kind, data, mods):
    dex, axml, apk = mods
    if kind == "dex":
        dex.DEX(data)
    elif kind == "axml":
        axml.AXMLPrinter(data).get_xml()
    elif kind == "arsc":
        p = axml.ARSCParser(data)
        for pk in p.get_packages_names():
            p.get_locales(pk)
    else:
        a = apk.APK(data, raw=True)
        a.get_files()


@unit("C35", covers=[(DEX, "DEX._load"), (AXML, "AXMLParser._do_next"), (AXML, "ARSCParser.__init__"), (APKF, "APK.__init__"),
                     (DEX, "HiddenApiClassDataItem.__init__"), (DEX, "DebugInfoItem.__init__")],
      params=[{"kind": k, "mut": mu} for k in ("dex", "axml", "arsc", "apk") for mu in ("trunc", "flip", "huge", "nonul")],
      level="bounded", samples=12,
      note="truncations, 1..4 byte overwrites, huge 32-bit counts and NUL-free prefixes of Test.dex, AndroidManifest.xml, "
           "resources.arsc and TestActivity.apk; each parse under the harness time limit (20 s); any exception is acceptable, a "
           "timeout is not", terminates=True)
def whole_parsers(U, kind, mut):
    global _SEEDS
    if _SEEDS is None:
        _SEEDS = _seed_files()
    mods = (U.mod(DEX), U.mod(AXML), U.mod(APKF))
    seed = U.int("seed", 0, 1 << 30)
    rng = random.Random("%s/%s/%d" % (kind, mut, seed))
    data = _mutate(rng, _SEEDS[kind], mut)
    o = U.call(_parse, kind, data, mods)
    U.ensures("the parser returns (result or error)", True, size=len(data), exc=repr(o.exc)[:120])
