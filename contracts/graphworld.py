"""Graph enumerations and independent reference algorithms for C18-C20 (bounded units)."""
import itertools
import random


class N:
    """node usable by decompiler.graph.Graph (rpo numbering, catch edges, instruction numbering)"""

    def __init__(self, name, ins=()):
        self.name = name
        self.num = self.po = None
        self.in_catch = False
        self.catch_type = None
        self.ins = list(ins)
        self.loc_ins = []

    def set_catch_type(self, t):
        self.catch_type = t

    def number_ins(self, num):
        self.loc_ins = [(num + i, x) for i, x in enumerate(self.ins)]
        return num + len(self.ins)

    def get_loc_with_ins(self):
        return self.loc_ins

    def get_ins(self):
        return self.ins

    def __repr__(self):
        return "n%s" % self.name


def build(gmod, n, edges, catch=(), ins=None):
    g = gmod.Graph()
    nodes = [N(i, (ins or {}).get(i, ())) for i in range(n)]
    for x in nodes:
        g.add_node(x)
    for a, b in edges:
        g.add_edge(nodes[a], nodes[b])
    for a, b in catch:
        g.add_catch_edge(nodes[a], nodes[b])
    g.entry = nodes[0]
    return g, nodes


def all_edge_sets(n, self_loops):
    pairs = [(a, b) for a in range(n) for b in range(n) if self_loops or a != b]
    for mask in range(1 << len(pairs)):
        yield [p for i, p in enumerate(pairs) if mask >> i & 1]


def random_graph(rng, n, density):
    edges = []
    for a in range(n):
        for _ in range(rng.randint(0, density)):
            edges.append((a, rng.randrange(n)))
    # make most nodes reachable: a random spanning arborescence
    for b in range(1, n):
        if rng.random() < 0.9:
            edges.append((rng.randrange(b), b))
    return sorted(set(edges))


def reachable(n, succ, src=0, removed=None):
    seen, st = set(), [src]
    if removed == src:
        return seen
    while st:
        x = st.pop()
        if x in seen or x == removed:
            continue
        seen.add(x)
        st.extend(succ.get(x, ()))
    return seen


def idoms(n, edges):
    """immediate dominators by definition: d dominates v iff v is unreachable once d is removed"""
    succ = {}
    for a, b in edges:
        succ.setdefault(a, []).append(b)
    reach = reachable(n, succ)
    dom = {}
    for v in reach:
        dom[v] = {d for d in reach if d == v or v not in reachable(n, succ, 0, d)}
    res = {0: None}
    for v in reach:
        if v == 0:
            continue
        strict = dom[v] - {v}
        # the immediate dominator is the strict dominator dominated by all other strict dominators
        cand = [d for d in strict if all(o in dom[d] for o in strict)]
        res[v] = cand[0] if len(cand) == 1 else ("ambiguous", cand)
    return res, reach
