"""C40  Disassembly and analysis agree on instruction offsets (DESIGN §7 C40)."""
from contracts import cfgsuite as S, cfgworld as W
from pyvc.core import And, Eq, Implies, Ite, Not, Or
from pyvc.unit import unit

ANA, DEX = S.ANA, S.DEX
META = {
    "technique": 'contract-based deductive verification: symbolic execution of the real functions against sidecar contracts (z3/cvc5) for the proved units; bounded contract evaluation (enumerated scope / independent writer) for the rest',
    "level": "other",
    "partial": True,
    "level_text": "Proof (leaves, symbolic instruction lengths/offsets): EncodedMethod.get_instructions_idx yields each instruction "
                  "with the sum of the lengths before it; DCode.get_ins_off / off_to_pos return the instruction whose offset equals "
                  "the argument (None / -1 otherwise); DEXBasicBlock.push keys special_ins by the instruction's own offset and stores "
                  "the object found at offset + 2*ref_off. Bounded (composition): on every enumerated small method all block bounds "
                  "are instruction offsets and every switch/fill-array instruction is linked to the payload object the disassembler "
                  "yields at the encoded offset. The cross-reference offsets are covered by the xref units of C13-C15.",
    "trusted": ["stub world (contracts/cfgworld.py)"],
    "explanation": "offset bookkeeping leaves proved for symbolic lengths; block bounds / payload links bounded: " + S.NOTE,
    "assumptions": [],
}


class _I:
    def __init__(self, n, op=0x12, ref=0):
        self.n, self.op, self.ref = n, op, ref

    def get_length(self):
        return self.n

    def get_op_value(self):
        return self.op

    def get_ref_off(self):
        return self.ref


class _BCL:
    def __init__(self, ins):
        self.ins = ins

    def get_instructions(self):
        return iter(self.ins)


class _CodeL:
    def __init__(self, ins):
        self.bc = _BCL(ins)

    def get_bc(self):
        return self.bc


def _three(U):
    return [_I(U.int("l%d" % i, 1, 600) * 2) for i in range(3)]


@unit("C40", covers=[(DEX, "EncodedMethod.get_instructions_idx")], samples=60)
def instruction_offsets(U):
    dex = U.mod(DEX)
    ins = _three(U)
    em = object.__new__(dex.EncodedMethod)
    em.code = _CodeL(ins)
    em.get_code = lambda: em.code
    o = U.call(lambda: list(em.get_instructions_idx()))
    U.ensures("does not raise", o.ok, exc=repr(o.exc))
    if o.ok:
        l0, l1 = ins[0].n, ins[1].n
        U.ensures("yields (sum of previous lengths, instruction) in order",
                  And(len(o.value) == 3, o.value[0][0] == 0, o.value[1][0] == l0, o.value[2][0] == l0 + l1,
                      all(o.value[i][1] is ins[i] for i in range(3))))


@unit("C40", covers=[(DEX, "DCode.get_ins_off"), (DEX, "DCode.off_to_pos"), (DEX, "DCode.get_instructions")], samples=100)
def lookup_by_offset(U):
    dex = U.mod(DEX)
    ins = _three(U)
    dc = object.__new__(dex.DCode)
    dc.cached_instructions = ins
    off = U.int("off", -4, 4000)
    o = U.call(dc.get_ins_off, off)
    p = U.call(dc.off_to_pos, off)
    l0, l1 = ins[0].n, ins[1].n
    U.ensures("get_ins_off: the instruction at exactly that offset, else None",
              And(o.ok, Ite(off == 0, o.value is ins[0], Ite(off == l0, o.value is ins[1], Ite(off == l0 + l1, o.value is ins[2],
                                                                                                o.value is None)))))
    U.ensures("off_to_pos: its position, else -1",
              And(p.ok, p.value == Ite(off == 0, 0, Ite(off == l0, 1, Ite(off == l0 + l1, 2, -1)))))


class _BCQ:
    def __init__(self):
        self.asked = []

    def get_ins_off(self, off):
        self.asked.append(off)
        return ("ins@", len(self.asked))


class _CodeQ:
    def __init__(self, bc):
        self.bc = bc

    def get_bc(self):
        return self.bc


class _MQ:
    def __init__(self, bc):
        self.c = _CodeQ(bc)

    def get_code(self):
        return self.c

    def get_name(self):
        return "m"


@unit("C40", covers=[(ANA, "DEXBasicBlock.push"), (ANA, "DEXBasicBlock.get_special_ins")], samples=100)
def special_ins_link(U):
    ana = U.mod(ANA)
    start = U.choice("start", [0, 6, 4000])          # dictionary keys must be concrete in the engine
    l0 = U.choice("l0", [2, 4, 10])
    op = U.int("op", 0, 255)
    ref = U.int("ref", -(1 << 20), 1 << 20)
    bc = _BCQ()
    b = ana.DEXBasicBlock(start, None, _MQ(bc), ana.BasicBlocks())
    b.push(_I(l0))
    o = U.call(b.push, _I(6, op, ref))
    U.ensures("does not raise", o.ok, exc=repr(o.exc))
    own = start + l0
    is_special = Or(op == 0x26, op == 0x2B, op == 0x2C)
    if is_special:      # forks
        U.ensures("payload looked up at own offset + 2*ref_off", And(len(bc.asked) == 1, bc.asked[0] == own + 2 * ref if bc.asked else False))
        g = U.call(b.get_special_ins, own)
        U.ensures("link is keyed by the instruction's own offset", g.ok and g.value == ("ins@", 1))
        other = U.call(b.get_special_ins, start)
        U.ensures("no link under another offset", other.ok and other.value is None)
    else:
        U.ensures("ordinary instructions create no link", len(bc.asked) == 0 and b.get_special_ins(own) is None)


@unit("C40", covers=[(ANA, "MethodAnalysis._create_basic_block"), (ANA, "DEXBasicBlock.push"), (DEX, "DCode.get_ins_off"),
                     (DEX, "EncodedMethod.get_instructions_idx")], params=S.PARAMS, level="bounded", note=S.NOTE)
def offsets_agree(U, chunk):
    dex = U.mod(DEX)
    prog, meth, o = S.build(U)
    d = S.describe(prog)
    if not o.ok:
        U.ensures("analysis does not raise", False, exc=repr(o.exc), **d)
        return
    bl = S.blocks_of(o.value)
    dis = list(meth.get_instructions_idx())
    dis_offs = [x for x, _ in dis]
    U.ensures("the disassembler reports an instruction at every laid-out offset", dis_offs == prog.ins_offsets(),
              got=dis_offs, want=prog.ins_offsets(), **d)
    by_off = dict(dis)
    U.ensures("every block boundary is an offset at which the disassembler reports an instruction (or the end)",
              all(b.get_start() in by_off and (b.get_end() in by_off or b.get_end() == prog.total) for b in bl), **d)
    kinds = {"pswitch": "PackedSwitch", "sswitch": "SparseSwitch", "fill": "FillArrayData"}
    for i, (k, a) in enumerate(prog.items):
        if k not in kinds:
            continue
        at = prog.offs[i]
        owner = [b for b in bl if b.get_start() <= at < b.get_end()]
        link = owner[0].get_special_ins(at) if owner else None
        want = by_off.get(prog.payload_off[i])
        U.ensures("switch/fill-array instruction is linked to the payload at the offset it encodes",
                  link is not None and link is want and type(link).__name__ == kinds[k], at=at, got=type(link).__name__, **d)
    for b in bl:
        for key in getattr(b, "special_ins", {}):
            U.ensures("payload links are keyed by instruction offsets of that block",
                      key in by_off and b.get_start() <= key < b.get_end(), key=key, **d)


offsets_agree.enumerate_inputs = lambda tier, chunk: S.enumerator(tier, chunk)


from contracts import xrefsuite as XS  # noqa: E402


@unit("C40", covers=[(ANA, "Analysis._create_xref")], params=XS.PARAMS, level="bounded", note=XS.NOTE)
def xref_offsets_are_instruction_offsets(U, chunk):
    g = U.given or {"split": 0, "order": 0, "a": 1, "b": 7}
    U.drawn.update(g)
    o = U.call(XS.build, U, g)
    if not o.ok:
        U.ensures("analysis does not raise", False, exc=repr(o.exc), **g)
        return
    dx, vms, index, prog = o.value
    offs = {("LA;", "m1"): {0, 4}, ("LB;", "m1"): {8, 12}}
    v = XS.view(dx)
    bad = []
    for mk, d in v["methods"].items():
        mine = offs.get((mk[0], mk[1]), set())
        for kind in ("to", "read", "write", "new", "const"):
            for entry in d[kind]:
                if entry[-1] not in mine:
                    bad.append((mk, kind, entry))
        for (_, src, off) in d["from"]:
            if off not in offs.get((src[0], src[1]), set()):
                bad.append((mk, "from", off))
    for s, refs in v["strings"].items():
        for (_, src, off) in refs:
            if off not in offs.get((src[0], src[1]), set()):
                bad.append((s, "string", off))
    U.ensures("every cross-reference offset is an offset at which the source method's disassembly reports an instruction",
              not bad, bad=bad[:5], **g)


xref_offsets_are_instruction_offsets.enumerate_inputs = lambda tier, chunk: XS.enum_inputs(tier, chunk)
