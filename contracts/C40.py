"""C40  Disassembly and analysis agree on instruction offsets (DESIGN §7 C40)."""
from contracts import cfgsuite as S, cfgworld as W
from pyvc.core import And, Eq, Implies, Ite, Not, Or
from pyvc.unit import bare, unit

ANA, DEX = S.ANA, S.DEX
META = {
    "technique": 'contract-based deductive verification: symbolic execution of the real functions against sidecar contracts (z3/cvc5) for the proved units, inductive loop invariants and termination variants on the real loops (unbounded in length and iteration count); bounded contract evaluation (enumerated scope / independent writer) for the rest',
    "level": "other",
    "partial": True,
    "level_text": "Loop contracts (unbounded): DCode.get_ins_off / off_to_pos / EncodedMethod.get_instructions_idx over an instruction "
                  "sequence of any length (uninterpreted prefix sums S(k) of positive lengths, Skolem witness): the instruction "
                  "whose offset equals the argument is returned, a returned instruction starts exactly there, iteration k yields "
                  "(S(k), instruction k). Proof (leaves, symbolic instruction lengths/offsets): EncodedMethod.get_instructions_idx yields each instruction "
                  "with the sum of the lengths before it; DCode.get_ins_off / off_to_pos return the instruction whose offset equals "
                  "the argument (None / -1 otherwise); DEXBasicBlock.push keys special_ins by the instruction's own offset and stores "
                  "the object found at offset + 2*ref_off. Bounded (composition): on every enumerated small method all block bounds "
                  "are instruction offsets and every switch/fill-array instruction is linked to the payload object the disassembler "
                  "yields at the encoded offset. The cross-reference offsets are covered by the xref units of C13-C15.",
    "trusted": ["stub world (contracts/cfgworld.py)"],
    "explanation": "offset bookkeeping leaves proved for symbolic lengths; block bounds / payload links bounded: " + S.NOTE,
    "assumptions": [],
}


class _I:
    def __init__(self, n, op=0x12, ref=0):
        self.n, self.op, self.ref = n, op, ref

    def get_length(self):
        return self.n

    def get_op_value(self):
        return self.op

    def get_ref_off(self):
        return self.ref


def _code_of(dex, get_instructions):
    """a DalvikCode whose DCode delivers the given instructions: the real classes (so helper methods a refactoring adds to them
    exist), not initialised from a file; only get_instructions is the contract's"""
    bc = _dcode(dex)
    if get_instructions is not None:
        bc.get_instructions = get_instructions
    dc = bare(dex.DalvikCode)
    dc.code = bc
    return dc


def _dcode(dex):
    """a DCode made by its real constructor (class manager None, empty code): whatever state the constructor sets up is there"""
    return dex.DCode(None, 0, 0, b"")


def _three(U):
    return [_I(U.int("l%d" % i, 1, 600) * 2) for i in range(3)]


@unit("C40", covers=[(DEX, "EncodedMethod.get_instructions_idx")], samples=60)
def instruction_offsets(U):
    dex = U.mod(DEX)
    ins = _three(U)
    em = bare(dex.EncodedMethod)
    em.code = _code_of(dex, None)
    em.code.code.set_instructions(ins)
    em.get_code = lambda: em.code
    o = U.call(lambda: list(em.get_instructions_idx()))
    U.ensures("does not raise", o.ok, exc=repr(o.exc))
    if o.ok:
        l0, l1 = ins[0].n, ins[1].n
        U.ensures("yields (sum of previous lengths, instruction) in order",
                  And(len(o.value) == 3, o.value[0][0] == 0, o.value[1][0] == l0, o.value[2][0] == l0 + l1,
                      all(o.value[i][1] is ins[i] for i in range(3))))


@unit("C40", covers=[(DEX, "DCode.get_ins_off"), (DEX, "DCode.off_to_pos"), (DEX, "DCode.get_instructions")], samples=100)
def lookup_by_offset(U):
    dex = U.mod(DEX)
    ins = _three(U)
    dc = _dcode(dex)
    dc.set_instructions(ins)
    off = U.int("off", -4, 4000)
    o = U.call(dc.get_ins_off, off)
    p = U.call(dc.off_to_pos, off)
    l0, l1 = ins[0].n, ins[1].n
    U.ensures("get_ins_off: the instruction at exactly that offset, else None",
              And(o.ok, Ite(off == 0, o.value is ins[0], Ite(off == l0, o.value is ins[1], Ite(off == l0 + l1, o.value is ins[2],
                                                                                                o.value is None)))))
    U.ensures("off_to_pos: its position, else -1",
              And(p.ok, p.value == Ite(off == 0, 0, Ite(off == l0, 1, Ite(off == l0 + l1, 2, -1)))))


@unit("C40", covers=[(DEX, "DCode.get_ins_off"), (DEX, "DCode.off_to_pos"), (DEX, "DCode.set_instructions"), (DEX, "DCode.get_instructions")],
      samples=100)
def lookup_after_set_instructions(U):
    """the instructions of a method can be replaced (EncodedMethod.set_instructions): lookups answer for the instructions the code
    has NOW -- whatever was looked up before"""
    dex = U.mod(DEX)
    dc = _dcode(dex)
    first = [_I(U.int("a%d" % i, 1, 600) * 2) for i in range(2)]
    dc.set_instructions(first)
    off0 = U.int("off0", -2, 2500)
    U.call(dc.get_ins_off, off0)
    U.call(dc.off_to_pos, off0)
    ins = _three(U)
    dc.set_instructions(ins)
    off = U.int("off", -4, 4000)
    o = U.call(dc.get_ins_off, off)
    p = U.call(dc.off_to_pos, off)
    l0, l1 = ins[0].n, ins[1].n
    U.ensures("get_ins_off after the instructions were replaced: the instruction now at exactly that offset, else None",
              And(o.ok, Ite(off == 0, o.value is ins[0], Ite(off == l0, o.value is ins[1], Ite(off == l0 + l1, o.value is ins[2],
                                                                                                o.value is None)))), exc=repr(o.exc))
    U.ensures("off_to_pos after the instructions were replaced: its position now, else -1",
              And(p.ok, p.value == Ite(off == 0, 0, Ite(off == l0, 1, Ite(off == l0 + l1, 2, -1)))), exc=repr(p.exc))


class _BCQ:
    def __init__(self):
        self.asked = []

    def get_ins_off(self, off):
        self.asked.append(off)
        return ("ins@", len(self.asked))


class _CodeQ:
    def __init__(self, bc):
        self.bc = bc

    def get_bc(self):
        return self.bc


class _MQ:
    def __init__(self, bc):
        self.c = _CodeQ(bc)

    def get_code(self):
        return self.c

    def get_name(self):
        return "m"


@unit("C40", covers=[(ANA, "DEXBasicBlock.push"), (ANA, "DEXBasicBlock.get_special_ins")], samples=100)
def special_ins_link(U):
    ana = U.mod(ANA)
    start = U.choice("start", [0, 6, 4000])          # dictionary keys must be concrete in the engine
    l0 = U.choice("l0", [2, 4, 10])
    op = U.int("op", 0, 255)
    ref = U.int("ref", -(1 << 20), 1 << 20)
    bc = _BCQ()
    b = ana.DEXBasicBlock(start, None, _MQ(bc), ana.BasicBlocks())
    b.push(_I(l0))
    o = U.call(b.push, _I(6, op, ref))
    U.ensures("does not raise", o.ok, exc=repr(o.exc))
    own = start + l0
    is_special = Or(op == 0x26, op == 0x2B, op == 0x2C)
    if is_special:      # forks
        U.ensures("payload looked up at own offset + 2*ref_off", And(len(bc.asked) == 1, bc.asked[0] == own + 2 * ref if bc.asked else False))
        g = U.call(b.get_special_ins, own)
        U.ensures("link is keyed by the instruction's own offset", g.ok and g.value == ("ins@", 1))
        other = U.call(b.get_special_ins, start)
        U.ensures("no link under another offset", other.ok and other.value is None)
    else:
        U.ensures("ordinary instructions create no link", len(bc.asked) == 0 and b.get_special_ins(own) is None)


@unit("C40", covers=[(ANA, "MethodAnalysis._create_basic_block"), (ANA, "DEXBasicBlock.push"), (DEX, "DCode.get_ins_off"),
                     (DEX, "EncodedMethod.get_instructions_idx")], params=S.PARAMS, level="bounded", note=S.NOTE)
def offsets_agree(U, chunk):
    dex = U.mod(DEX)
    prog, meth, o = S.build(U)
    d = S.describe(prog)
    if not o.ok:
        U.ensures("analysis does not raise", False, exc=repr(o.exc), **d)
        return
    bl = S.blocks_of(o.value)
    dis = list(meth.get_instructions_idx())
    dis_offs = [x for x, _ in dis]
    U.ensures("the disassembler reports an instruction at every laid-out offset", dis_offs == prog.ins_offsets(),
              got=dis_offs, want=prog.ins_offsets(), **d)
    by_off = dict(dis)
    U.ensures("every block boundary is an offset at which the disassembler reports an instruction (or the end)",
              all(b.get_start() in by_off and (b.get_end() in by_off or b.get_end() == prog.total) for b in bl), **d)
    kinds = {"pswitch": "PackedSwitch", "sswitch": "SparseSwitch", "fill": "FillArrayData"}
    for i, (k, a) in enumerate(prog.items):
        if k not in kinds:
            continue
        at = prog.offs[i]
        owner = [b for b in bl if b.get_start() <= at < b.get_end()]
        link = owner[0].get_special_ins(at) if owner else None
        want = by_off.get(prog.payload_off[i])
        U.ensures("switch/fill-array instruction is linked to the payload at the offset it encodes",
                  link is not None and link is want and type(link).__name__ == kinds[k], at=at, got=type(link).__name__, **d)
    for b in bl:
        for key in getattr(b, "special_ins", {}):
            U.ensures("payload links are keyed by instruction offsets of that block",
                      key in by_off and b.get_start() <= key < b.get_end(), key=key, **d)


offsets_agree.enumerate_inputs = lambda tier, chunk: S.enumerator(tier, chunk)


from contracts import xrefsuite as XS  # noqa: E402


@unit("C40", covers=[(ANA, "Analysis._create_xref")], params=XS.PARAMS, level="bounded", note=XS.NOTE)
def xref_offsets_are_instruction_offsets(U, chunk):
    g = U.given or {"split": 0, "order": 0, "a": 1, "b": 7}
    U.drawn.update(g)
    o = U.call(XS.build, U, g)
    if not o.ok:
        U.ensures("analysis does not raise", False, exc=repr(o.exc), **g)
        return
    dx, vms, index, prog = o.value
    offs = {("LA;", "m1"): {0, 4}, ("LB;", "m1"): {8, 12, 16, 20}}
    v = XS.view(dx)
    bad = []
    for mk, d in v["methods"].items():
        mine = offs.get((mk[0], mk[1]), set())
        for kind in ("to", "read", "write", "new", "const"):
            for entry in d[kind]:
                if entry[-1] not in mine:
                    bad.append((mk, kind, entry))
        for (_, src, off) in d["from"]:
            if off not in offs.get((src[0], src[1]), set()):
                bad.append((mk, "from", off))
    for s, refs in v["strings"].items():
        for (_, src, off) in refs:
            if off not in offs.get((src[0], src[1]), set()):
                bad.append((s, "string", off))
    U.ensures("every cross-reference offset is an offset at which the source method's disassembly reports an instruction",
              not bad, bad=bad[:5], **g)


xref_offsets_are_instruction_offsets.enumerate_inputs = lambda tier, chunk: XS.enum_inputs(tier, chunk)


# ------------------------------------------------------------------------------------------------
# Loop contracts (unbounded): DCode.off_to_pos / DCode.get_ins_off / EncodedMethod.get_instructions_idx over an instruction
# sequence of ARBITRARY length.  The sequence is ghost: n symbolic, element k has length S(k+1) - S(k) for an uninterpreted
# prefix-sum function S with S(0) = 0 and positive differences (instantiated at the indices the proof touches).  Quantifiers are
# Skolemised: `w` is an arbitrary index whose offset equals the argument (witness mode), `j` an arbitrary earlier index.
import z3  # noqa: E402

from pyvc import core  # noqa: E402
from pyvc.loops import AbstractSeq, LoopSpec  # noqa: E402


class _GI:
    """ghost instruction k of the abstract sequence"""

    def __init__(self, world, k):
        self.world, self.k = world, k

    def get_length(self):
        return self.world.S(self.k + 1) - self.world.S(self.k)


class _SeqWorld:
    def __init__(self, U, tag="c40"):
        self.U = U
        if U.mode == "sym":
            self.n = U.int("n", 0, 1 << 24)
            self.f = z3.Function("S_" + tag, z3.BitVecSort(core.W), z3.BitVecSort(core.W))
            core.ctx().add_fact(self.f(z3.BitVecVal(0, core.W)) == 0)
            self.items = None
        else:
            self.n = U.int("n", 0, 6)
            self.lens = [2 * U.int("len%d" % i, 1, 5) for i in range(self.n)]
            self.items = [_GI(self, i) for i in range(self.n)]

    def S(self, k):
        if self.U.mode != "sym":
            return sum(self.lens[:k])
        kt = core.SymInt.lift(k).t
        t = self.f(kt)
        c = core.ctx()
        # instantiation of: S(k) in 0..2^34, 1 <= S(k+1) - S(k) <= 2^18  (instruction lengths are positive)
        c.add_fact(z3.And(t >= 0, t <= (1 << 34), self.f(kt + 1) - t >= 1, self.f(kt + 1) - t <= (1 << 18)))
        return core.SymInt(t, 0, 1 << 34)

    def mono(self, a, b):
        """instance of the lemma `S is strictly increasing` (induction on b - a from the positive differences)"""
        if self.U.mode != "sym":
            return
        at, bt = core.SymInt.lift(a).t, core.SymInt.lift(b).t
        core.ctx().add_fact(z3.And(z3.Implies(at < bt, self.f(at) < self.f(bt)), z3.Implies(bt < at, self.f(bt) < self.f(at))))

    def seq(self):
        if self.U.mode != "sym":
            return list(self.items)
        return AbstractSeq(self.n, lambda k: _GI(self, k), "instructions")


def _inv_lookup(spec, L, k):
    w, g = spec.G["world"], spec.G
    inv = And(L["idx"] == w.S(k), (L["nb"] == k) if "nb" in L and spec.G.get("counts") else True)
    if g.get("witness") is not None:
        w.mono(k, g["witness"])
        inv = And(inv, k <= g["witness"])
    return inv


LOOKUP_OFF = LoopSpec("DCode.get_ins_off#0", invariant=_inv_lookup, havoc={"idx": lambda s, L: s.G["U"].int("idx@", 0, 1 << 34)},
                      const=("off", "self"))
LOOKUP_POS = LoopSpec("DCode.off_to_pos#0", invariant=_inv_lookup,
                      havoc={"idx": lambda s, L: s.G["U"].int("idx@", 0, 1 << 34), "nb": lambda s, L: s.G["U"].int("nb@", 0, 1 << 24)},
                      const=("off", "self"))


@unit("C40", covers=[(DEX, "DCode.get_ins_off"), (DEX, "DCode.off_to_pos")],
      params=[{"fn": f, "mode": m} for f in ("get_ins_off", "off_to_pos") for m in ("witness", "free")],
      loops={(DEX, "DCode.get_ins_off", 0): LOOKUP_OFF, (DEX, "DCode.off_to_pos", 0): LOOKUP_POS}, samples=150,
      note="loop contract, any number of instructions: invariant idx = S(k) (and nb = k); witness mode: some index w has S(w) = off")
def lookup_by_offset_unbounded(U, fn, mode):
    dex = U.mod(DEX)
    world = _SeqWorld(U)
    seq = world.seq()
    dc = _dcode(dex)
    if U.mode == "sym":
        dc.get_instructions = lambda: seq        # callee contract: yields the instructions in order (ghost sequence of any length)
    else:
        dc.set_instructions(list(seq))           # concrete run: the real accessor over the real cache
    if U.mode == "sym":
        U.substitutions.append("DCode.get_instructions := contract (abstract instruction sequence of symbolic length)")
    wit = None
    if mode == "witness":
        wit = U.int("w", 0, 1 << 24)
        U.assume(wit < world.n)
        off = world.S(wit)
    else:
        off = U.int("off", -4, (1 << 34) if U.mode == "sym" else 44)
    for sp in (LOOKUP_OFF, LOOKUP_POS):
        sp.G = {"world": world, "U": U, "witness": wit, "counts": sp is LOOKUP_POS}
    o = U.call(getattr(dc, fn), off)
    U.ensures("does not raise", o.ok, exc=repr(o.exc))
    if not o.ok:
        return
    r = o.value
    missing = (r is None) if fn == "get_ins_off" else Eq(r, -1)
    if mode == "witness":
        U.cover("an instruction starts at the offset")
        if fn == "get_ins_off":
            U.ensures("the instruction that starts at the offset is returned", r is not None and Eq(r.k, wit))
        else:
            U.ensures("the position of the instruction that starts at the offset is returned", Eq(r, wit))
    else:
        if fn == "get_ins_off":
            if r is not None:
                U.ensures("a returned instruction belongs to the method and starts exactly at the offset",
                          And(0 <= r.k, r.k < world.n, world.S(r.k) == off))
        else:
            if not missing:     # forks
                U.ensures("a returned position is an instruction index whose offset is exactly the argument",
                          And(0 <= r, r < world.n, world.S(r) == off))


def _inv_idx(spec, L, k):
    return L["idx"] == spec.G["world"].S(k)


IDX_LOOP = LoopSpec("EncodedMethod.get_instructions_idx#0", invariant=_inv_idx,
                    havoc={"idx": lambda s, L: s.G["U"].int("idx@", 0, 1 << 34)}, const=("self",))


@unit("C40", covers=[(DEX, "EncodedMethod.get_instructions_idx")], loops={(DEX, "EncodedMethod.get_instructions_idx", 0): IDX_LOOP},
      samples=80, note="loop contract on the generator: an arbitrary iteration k yields (S(k), instruction k)")
def instruction_offsets_unbounded(U):
    dex = U.mod(DEX)
    world = _SeqWorld(U)
    seq = world.seq()
    em = bare(dex.EncodedMethod)
    em.code = _code_of(dex, (lambda: seq) if U.mode == "sym" else None)
    if U.mode != "sym":
        em.code.code.set_instructions(list(seq))
    em.get_code = lambda: em.code
    IDX_LOOP.G = {"world": world, "U": U}
    if U.mode == "sym":
        g = em.get_instructions_idx()
        o = U.call(lambda: next(g))
        if o.raised(StopIteration):
            U.cover("generator exhausted")
            U.ensures("the generator ends only after the last instruction", IDX_LOOP.it.k == world.n)
            return
        U.ensures("does not raise", o.ok, exc=repr(o.exc))
        if o.ok:
            off, ins = o.value
            k = IDX_LOOP.it.k - 1
            U.cover("an arbitrary iteration yields")
            U.ensures("iteration k yields instruction k together with the sum of the lengths before it", And(Eq(ins.k, k), off == world.S(k)))
            U.call(lambda: next(g))       # the back edge: invariant preserved (path ends there)
    else:
        o = U.call(lambda: list(em.get_instructions_idx()))
        U.ensures("does not raise", o.ok, exc=repr(o.exc))
        if o.ok:
            U.ensures("yields every instruction once, in order, with the sum of the lengths before it",
                      len(o.value) == world.n and all(p[1] is seq[i] and p[0] == world.S(i) for i, p in enumerate(o.value)))
