"""C13  Method cross-references are exact and symmetric (DESIGN §7 C13)."""
from contracts import xrefsuite as S, xrefworld as X
from pyvc.core import And, Eq, Implies, Ite, Not, Or
from pyvc.unit import unit

ANA = S.ANA
META = {
    "technique": 'contract-based deductive verification: symbolic execution of the real functions against sidecar contracts (z3/cvc5) for the proved units; bounded contract evaluation (enumerated scope / independent writer) for the rest',
    "level": "other",
    "partial": True,
    "level_text": "Bounded on REAL DEX files (no stub objects): random class models assembled by the independent DEX writer, merged or split into 1..3 files, parsed by the real DEX parser and analysed by the real Analysis: every method's callees / callers with offsets, the external flag and the call graph equal the model. Proof: _create_xref is executed on a stub method whose single instruction has a *symbolic opcode* (all 256 "
                  "values, one path per opcode class): exactly the invoke opcodes 0x6e-0x72 / 0x74-0x78 record a method xref, with "
                  "the instruction's offset, on the caller (xref_to) and on the resolved callee (xref_from), and nothing else is "
                  "recorded for them; _resolve_method returns the analysed method for a defined (class, name, descriptor) and one "
                  "shared external stub otherwise (second resolution returns the same object). Bounded: exactness/symmetry and the "
                  "call graph on every enumerated world.",
    "trusted": ["stub DEX world (contracts/xrefworld.py)", "networkx DiGraph"],
    "explanation": "opcode dispatch and resolver proved (symbolic opcode); exactness over whole worlds bounded: " + S.NOTE,
    "assumptions": ["array receivers ([LB;->clone): androguard models the call on the element class; the statement does not fix the "
                    "class of the shared external stub, so only existence/sharing/offset are demanded there"],
}


@unit("C13", covers=[(ANA, "Analysis._create_xref"), (ANA, "ClassAnalysis.add_method_xref_to"), (ANA, "ClassAnalysis.add_method_xref_from"),
                     (ANA, "MethodAnalysis.add_xref_to"), (ANA, "MethodAnalysis.add_xref_from")],
      params=[{"target": t, "dims": d} for t in ("internal", "external") for d in (0, 1, 2, 3)], samples=256)
def invoke_opcodes(U, target, dims):
    """which opcodes create a method xref, and what they record"""
    op = U.int("op", 0, 255)
    tgt = ("LB;", "m1", "()V") if target == "internal" else ("LX;", "ext", "()V")
    ana = U.mod(ANA)
    vms, index = X.make_world(S.SPLITS[0])
    vm = vms[0]
    mA = index["LA;"].methods[0]
    # pools: index 0 of every table is a valid entry, so whatever table the opcode selects, the lookup works
    vm.types.append("LB;")
    vm.methods.append(("[" * dims + tgt[0],) + tgt[1:])      # array receivers of any dimension denote the element class
    vm.strings.append("s1")
    vm.fields.append(("LB;", "f", "I"))
    mA.ins.append((6, X.Ins(op, 0, vm.holder)))
    dx = ana.Analysis()
    dx.add(vm)
    o = U.call(dx.create_xref)
    U.ensures("does not raise", o.ok, exc=repr(o.exc))
    if not o.ok:
        return
    v = S.view(dx)
    me = v["methods"][S.A_M1]
    opc = op if isinstance(op, int) else op.concretize()
    tk = tgt + (target == "external",)
    if opc in X.INVOKES:
        U.ensures("invoke: callee with offset in the caller's xref_to", me["to"] == [((tgt[0], target == "external"), tk, 6)], got=me["to"])
        U.ensures("invoke: caller with offset in the callee's xref_from",
                  v["methods"][tk]["from"] == [(("LA;", False), S.A_M1, 6)], got=v["methods"].get(tk))
        U.ensures("invoke: no field/string/class-usage reference is recorded",
                  me["read"] == [] and me["write"] == [] and me["new"] == [] and me["const"] == [] and
                  all(x == [] for x in v["strings"].values()))
    else:
        U.ensures("not an invoke opcode: no method xref", me["to"] == [] and all(mm["from"] == [] for mm in v["methods"].values()),
                  op=opc, got=me["to"])


@unit("C13", covers=[(ANA, "Analysis._resolve_method")])
def resolve_method(U):
    ana = U.mod(ANA)
    vms, index = X.make_world(S.SPLITS[1])
    dx = ana.Analysis()
    for vm in vms:
        dx.add(vm)
    which = U.choice("which", ["internal", "other_dex", "external", "external_class_known"])
    t = {"internal": ("LA;", "m2", ["()V"]), "other_dex": ("LC;", "m1", ["()V"]), "external": ("LX;", "ext", ["(I)", "V"]),
         "external_class_known": ("LA;", "nosuch", ["()V"])}[which]
    n_before = len(list(dx.get_methods()))
    r1 = U.call(dx._resolve_method, *t)
    r2 = U.call(dx._resolve_method, *t)
    U.ensures("does not raise", r1.ok and r2.ok)
    if not (r1.ok and r2.ok):
        return
    U.ensures("same (class, name, descriptor) resolves to the same object every time", r1.value is r2.value)
    k = S.mkey(r1.value)
    U.ensures("resolved triple", k[:3] == (t[0], t[1], "".join(t[2])))
    if which in ("internal", "other_dex"):
        U.ensures("defined method: the analysed method (not a stub), nothing created",
                  not r1.value.is_external() and len(list(dx.get_methods())) == n_before)
    else:
        U.ensures("undefined method: exactly one external stub is created and registered with its class",
                  r1.value.is_external() and len(list(dx.get_methods())) == n_before + 1 and
                  r1.value in list(dx.get_class_analysis(t[0]).get_methods()))


@unit("C13", covers=[(ANA, "Analysis._create_xref"), (ANA, "Analysis._resolve_method"), (ANA, "Analysis.get_call_graph"),
                     (ANA, "Analysis.add"), (ANA, "Analysis.create_xref")], params=S.PARAMS, level="bounded", note=S.NOTE)
def exact_and_symmetric(U, chunk):
    g = U.given or {"split": 0, "order": 0, "a": 1, "b": 2}
    U.drawn.update(g)
    o = U.call(S.build, U, g)
    U.ensures("analysis does not raise", o.ok, exc=repr(o.exc), **g)
    if not o.ok:
        return
    dx, vms, index, prog = o.value
    v = S.view(dx)
    exp = S.expected_invokes(prog)
    me = v["methods"][S.A_M1]
    want_to = sorted(((c, k[3] and c not in ("LA;", "LB;", "LC;")), k, off) for off, c, k in exp)
    U.ensures("callees (with offsets) are exactly the targets of the invoke instructions", me["to"] == want_to,
              got=me["to"], want=want_to, **g)
    # symmetry + exactness of every caller list in the world
    want_from = {}
    for off, c, k in exp:
        want_from.setdefault(k, []).append((("LA;", False), S.A_M1, off))
    want_from.setdefault(("LA;", "m2", "()V", False), []).append((("LB;", False), ("LB;", "m1", "()V", False), 8))
    for k, mm in v["methods"].items():
        U.ensures("caller lists are exactly the inverse of the callee lists", mm["from"] == sorted(want_from.get(k, [])),
                  method=k, got=mm["from"], **g)
    ext = [k for k in v["methods"] if k[3]]
    U.ensures("one shared external stub per undefined (class, name, descriptor)", len(ext) == len(set(ext)) ==
              len({k for _, _, k in exp if k[3]}), ext=ext, **g)
    cg = U.call(dx.get_call_graph)
    if cg.ok:
        edges = {(S.mkey(dx.get_method(a)) if dx.get_method(a) else None, S.mkey(dx.get_method(b)) if dx.get_method(b) else None)
                 for a, b in cg.value.edges()}
        want_edges = {(S.A_M1, k) for _, _, k in exp} | {(("LB;", "m1", "()V", False), ("LA;", "m2", "()V", False))}
        U.ensures("the call graph has an edge exactly where a callee is reported", edges == want_edges,
                  got=sorted(map(str, edges)), want=sorted(map(str, want_edges)), **g)
    else:
        U.ensures("call graph can be built", False, exc=repr(cg.exc))


exact_and_symmetric.enumerate_inputs = lambda tier, chunk: S.enum_inputs(tier, chunk)


from contracts import xrefreal as XR  # noqa: E402
import random as _random  # noqa: E402


@unit("C13", covers=[(ANA, "Analysis._create_xref"), (ANA, "Analysis._resolve_method"), (ANA, "Analysis.get_call_graph")],
      level="bounded", samples=60, note=XR.NOTE)
def real_dex_method_xrefs(U):
    seed = U.int("seed", 0, 1 << 30)
    rng = _random.Random(seed)
    classes = XR.model(rng)
    groups = rng.choice(list(XR.splits(classes)))
    o = U.call(XR.analyse, U, classes, groups)
    U.ensures("analysis does not raise", o.ok, exc=repr(o.exc)[:200])
    if not o.ok:
        return
    dx = o.value
    exp, defined = XR.expected(classes)
    v = S.view(dx)
    want_from = {}
    for me, calls in exp["to"].items():
        for (cls, name, desc, off) in calls:
            want_from.setdefault((cls, name, desc), set()).add((me, off))
    for mk, d in v["methods"].items():
        me = mk[:3]
        got_to = {(m2[0], m2[1], m2[2], off) for _, m2, off in d["to"]}
        if not mk[3]:
            U.ensures("a method lists exactly the methods its invoke instructions name, with their offsets", got_to == exp["to"].get(me, set()),
                      method=me, got=sorted(got_to), want=sorted(exp["to"].get(me, set())), groups=groups)
        got_from = {(m2[:3], off) for _, m2, off in d["from"]}
        U.ensures("a method lists exactly its callers, with the offsets of the calls", got_from == want_from.get(me, set()),
                  method=me, got=sorted(got_from), want=sorted(want_from.get(me, set())), groups=groups)
        declared = any(c["name"] == mk[0] and mk[1] in c["methods"] and mk[2] == "()V" for c in classes)
        U.ensures("external = not declared by any class of the DEX files", mk[3] == (not declared), method=mk)
    for me in exp["to"]:
        U.ensures("every calling method is known to the analysis", any(k[:3] == me for k in v["methods"]), method=me)
    cg = U.call(dx.get_call_graph)
    if cg.ok:
        edges = {((a.get_class_name(), a.get_name()), (b.get_class_name(), b.get_name())) for a, b in cg.value.edges()}
        want_e = {((me[0], me[1]), (c[0], c[1])) for me, calls in exp["to"].items() for c in calls}
        U.ensures("the call graph has exactly one edge per (caller, callee) pair", edges == want_e, got=sorted(edges)[:8], want=sorted(want_e)[:8])


@unit("C13", covers=[(ANA, "Analysis.create_xref"), (ANA, "Analysis._create_xref"), (ANA, "Analysis.add")], level="bounded",
      params=[{"order": o} for o in (0, 1)], samples=1,
      note="two real DEX files that both define class Lp/Dup; (different methods, each with invoke instructions) next to a class of "
           "their own, added in either order: the invoke instructions of BOTH definitions are cross references of their methods")
def duplicate_class_definitions(U, order):
    U.drawn.update({"order": order})
    dexm, anam = U.mod(XR.DEXF), U.mod(ANA)
    ext = lambda n: ("Lext/E;", n, XR.V)
    f1 = [{"name": "Lp/Dup;", "methods": {"a": [("invoke", ext("x1"), 0x71), ("nop", None, 0)], "b": [("invoke", ("Lp/One;", "m", XR.V), 0x71)]}},
          {"name": "Lp/One;", "methods": {"m": [("invoke", ext("y"), 0x71)]}}]
    f2 = [{"name": "Lp/Dup;", "methods": {"c": [("nop", None, 0), ("invoke", ext("x2"), 0x71)], "a": [("invoke", ext("x3"), 0x71)]}},
          {"name": "Lp/Two;", "methods": {"m": [("invoke", ("Lp/Dup;", "c", XR.V), 0x71)]}}]
    files = [f1, f2] if order == 0 else [f2, f1]
    dx = anam.Analysis()
    vms = []
    for f in files:
        vm = dexm.DEX(XR.dex_bytes(f))
        vms.append((vm, f))
        dx.add(vm)
    o = U.call(dx.create_xref)
    U.ensures("create_xref does not raise", o.ok, exc=repr(o.exc)[:200])
    if not o.ok:
        return
    for vm, f in vms:
        for c in f:
            for mn, body in c["methods"].items():
                em = [m for m in vm.get_encoded_methods() if m.get_class_name() == c["name"] and m.get_name() == mn]
                U.ensures("the method is in the file", len(em) == 1, cls=c["name"], method=mn)
                if len(em) != 1:
                    continue
                ma = dx.get_method(em[0])
                want = {(p[0], p[1], off) for off, (kind, p, op) in XR.offsets(body) if kind == "invoke"}
                got = {(m2.class_name, m2.name, off) for _, m2, off in (ma.get_xref_to() if ma is not None else [])}
                U.ensures("every invoke instruction of a method of either definition is a cross reference of that method", got == want,
                          cls=c["name"], method=mn, file=files.index(f), got=sorted(got), want=sorted(want))


duplicate_class_definitions.enumerate_inputs = lambda tier, **p: iter([{}])
