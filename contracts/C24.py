"""C24  Type descriptors are rendered as the right Java type names (DESIGN §7 C24)."""
from pyvc.core import And, Eq, Implies, Ite, Not, Or
from pyvc.models import SymKeyDict
from pyvc.strings import mk
from pyvc.unit import unit

UTIL = "androguard/decompiler/util.py"
DEX = "androguard/core/dex/__init__.py"
META = {
    "level": "proof",
    "level_text": "decompiler.util.get_type and dex.get_type are executed on the nine primitive descriptors, on class descriptors "
                  "L<s>; whose name s consists of 1..12 symbolic characters (any character but ';'), on Ljava/lang/<s>; with 1..8 "
                  "symbolic characters, and on 1..3-dimensional arrays of those; the result is proved equal to the Java-name spec "
                  "(dotted name, java.lang. dropped only for direct members, one [] per dimension). Bounded in the *length* of the "
                  "name (all contents for each length); recursion on '[' runs the real code.",
    "trusted": ["str model (code-point sequences)", "TYPE_DESCRIPTOR looked up by equality (same mapping object)"],
    "assumptions": ["class-name length <= 12 (+ java/lang/ prefix up to 18); the functions do not branch on positions beyond the prefix",
                    "dex.get_type: the statement allows dropping java.lang. of direct members; the full dotted name is also accepted"],
}

PRIM = {"V": "void", "Z": "boolean", "B": "byte", "S": "short", "C": "char", "I": "int", "J": "long", "F": "float", "D": "double"}


def _prep(U, m):
    if U.mode == "sym":
        U.substitute(m, "TYPE_DESCRIPTOR", SymKeyDict(m.TYPE_DESCRIPTOR), "same mapping, proxy-key lookup by equality")


def _items(s):
    return list(s.items) if hasattr(s, "items") else [ord(c) for c in s]


def java_name(inner):
    """spec: inner = code points between 'L' and ';'.  returns (full dotted name, name with java.lang. dropped or None)"""
    dotted = [Ite(c == 0x2F, 0x2E, c) for c in inner]
    pre = [ord(c) for c in "java/lang/"]
    direct = None
    if len(inner) > len(pre):
        is_pre = And(*[a == b for a, b in zip(inner, pre)])
        rest = inner[len(pre):]
        no_slash = And(*[c != 0x2F for c in rest])
        if And(is_pre, no_slash):          # forks
            direct = mk(rest)
    return mk(dotted), direct


def _class_desc(U, shape, n):
    if shape == "any":
        s = U.str("s", n, 0x21, 0x7E)
        inner = _items(s)
    else:
        s = U.str("s", n, 0x21, 0x7E)
        inner = [ord(c) for c in "java/lang/"] + _items(s)
    for c in inner:
        U.assume(c != 0x3B)
    U.assume(inner[-1] != 0x2F)     # well-formed descriptor: the simple name is not empty
    return mk([ord("L")] + inner + [ord(";")]), inner


CLS_PARAMS = [{"shape": "any", "n": k} for k in range(1, 13)] + [{"shape": "javalang", "n": k} for k in range(1, 9)]


@unit("C24", covers=[(UTIL, "get_type"), (DEX, "get_type")])
def primitives(U):
    u, d = U.mod(UTIL), U.mod(DEX)
    p = U.choice("p", sorted(PRIM))
    U.ensures("decompiler get_type: primitive keyword", U.call(u.get_type, p).value == PRIM[p])
    U.ensures("dex get_type: primitive keyword", U.call(d.get_type, p).value == PRIM[p])


@unit("C24", covers=[(UTIL, "get_type")], params=CLS_PARAMS, samples=200, max_paths=20000)
def util_class_names(U, shape, n):
    m = U.mod(UTIL)
    _prep(U, m)
    desc, inner = _class_desc(U, shape, n)
    o = U.call(m.get_type, desc)
    U.ensures("does not raise", o.ok, exc=repr(o.exc))
    if not o.ok:
        return
    full, direct = java_name(inner)
    want = direct if direct is not None else full
    U.ensures("dotted name; java.lang. dropped only for direct members", o.value == want,
              got=o.value if U.mode == "conc" else None, want=want if U.mode == "conc" else None)


@unit("C24", covers=[(DEX, "get_type")], params=CLS_PARAMS, samples=200, max_paths=20000)
def dex_class_names(U, shape, n):
    m = U.mod(DEX)
    _prep(U, m)
    desc, inner = _class_desc(U, shape, n)
    o = U.call(m.get_type, desc)
    U.ensures("does not raise", o.ok, exc=repr(o.exc))
    if not o.ok:
        return
    full, direct = java_name(inner)
    U.ensures("dotted name (java.lang. may be dropped for direct members only)",
              Or(o.value == full, (o.value == direct) if direct is not None else False),
              got=o.value if U.mode == "conc" else None)


ARR = [{"dims": d, "base": b, "which": w} for d in (1, 2, 3) for b in ("prim", "cls", "javalang") for w in ("util", "dex")]


@unit("C24", covers=[(UTIL, "get_type"), (DEX, "get_type")], params=ARR, samples=60)
def arrays(U, dims, base, which):
    m = U.mod(UTIL if which == "util" else DEX)
    _prep(U, m)
    if base == "prim":
        p = U.choice("p", sorted(PRIM))
        bdesc, names = p, [PRIM[p]]
    else:
        bdesc, inner = _class_desc(U, "any" if base == "cls" else "javalang", 3)
        full, direct = java_name(inner)
        names = [direct if direct is not None else full] if which == "util" else [full] + ([direct] if direct is not None else [])
    o = U.call(m.get_type, "[" * dims + bdesc)
    U.ensures("does not raise", o.ok, exc=repr(o.exc))
    if o.ok:
        from pyvc.text import text_eq
        U.ensures("one [] per dimension after the element type name", Or(*[text_eq(o.value, nm + "[]" * dims) for nm in names]),
                  got=o.value if U.mode == "conc" else None)
