"""C28  Resource tables resolve to the values they contain (DESIGN §7 C28)."""
import random

from pyvc.core import And, Eq, Implies, Ite, Not, Or, SymBytes
from pyvc.unit import unit
from specs import arscwriter as AW, resvalue as RV

AXML = "androguard/core/axml/__init__.py"
META = {
    "technique": 'contract-based deductive verification: symbolic execution of the real functions against sidecar contracts (z3/cvc5) for the proved units; bounded contract evaluation (enumerated scope / independent writer) for the rest',
    "level": "other",
    "partial": True,
    "level_text": "Proof (carriers): ARSCResTableEntry.__init__ and is_complex/is_compact/is_weak/is_public decode size, flags, key "
                  "index and -- per flag -- the plain Res_value, the compact (key, type, data) triple or the map entry, for all "
                  "symbolic header words. Bounded (model-based): random resource models (1..2 packages, several types, default and "
                  "locale/density/version/script/variant configurations, plain / complex / compact entries (compact ones of every "
                  "value type), plain, sparse and 16-bit-offset type chunks with holes, package headers with and without "
                  "typeIdOffset (0/1/2/5), references between entries) are serialised by an independent writer and every resource id is "
                  "resolved through the real ARSCParser / ResourceResolver and compared with the model, together with the package, "
                  "locale, type and key-to-id listings, the text the resolver gives for every typed value, and the "
                  "configuration-specific queries (a stored configuration returns its entry; an absent one without fallback nothing). "
                  "Proof: two configurations are the same key iff all their configuration words are equal (sizes 28..64).",
    "trusted": ["independent writer specs/arscwriter.py (ResourceTypes.h)", "string pool decoding (C26)"],
    "explanation": "entry decoding proved on symbolic bytes; chunk walk, value-table construction and resolution bounded (generated "
                   "tables).",
    "assumptions": [],
}


class _Pool:
    def getString(self, i):
        return ("str", i)


class _PC:
    stringpool_main = _Pool()
    mKeyStrings = _Pool()


@unit("C28", covers=[(AXML, "ARSCResTableEntry.__init__"), (AXML, "ARSCResTableEntry.is_complex"), (AXML, "ARSCResTableEntry.is_compact"),
                     (AXML, "ARSCResTableEntry.is_weak"), (AXML, "ARSCResTableEntry.is_public"), (AXML, "ARSCResStringPoolRef.__init__"),
                     (AXML, "ARSCComplex.__init__")], samples=80, max_paths=2000)
def entry_decoding(U):
    m = U.mod(AXML)
    if U.mode == "sym":
        from pyvc.models import IoModel
    b = U.bytes("e", 8)
    tail = U.bytes("t", 24)
    bl = (list(b.items) if hasattr(b, "items") else list(b)) + (list(tail.items) if hasattr(tail, "items") else list(tail))
    data = SymBytes([0xEE] * 4 + bl) if U.mode == "sym" else bytes([0xEE] * 4) + bytes(b) + bytes(tail)
    buff = U.stream(data)
    # a map entry must fit the chunk: at most one ResTable_map in the 16 bytes behind the map header
    U.assume(Or((bl[2] & 1) == 0, And(bl[12] <= 1, bl[13] == 0, bl[14] == 0, bl[15] == 0)))
    o = U.call(m.ARSCResTableEntry, buff, 4, 4 + len(bl), 0x7F010005, _PC())
    U.ensures("does not raise", o.ok, exc=repr(o.exc))
    if not o.ok:
        return
    e = o.value
    size = bl[0] | (bl[1] << 8)
    flags = bl[2] | (bl[3] << 8)
    word = bl[4] | (bl[5] << 8) | (bl[6] << 16) | (bl[7] << 24)
    U.ensures("size, flags, key word", And(e.size == size, e.flags == flags, e.index == word, e.mResId == 0x7F010005))
    U.ensures("flag accessors", And(e.is_complex() == ((flags & 1) != 0), e.is_public() == ((flags & 2) != 0),
                                    e.is_weak() == ((flags & 4) != 0), e.is_compact() == ((flags & 8) != 0)))
    if e.is_complex():                     # forks
        U.ensures("map entry: parent and count", And(e.item.id_parent == (bl[8] | (bl[9] << 8) | (bl[10] << 16) | (bl[11] << 24)),
                                                     e.item.count == (bl[12] | (bl[13] << 8) | (bl[14] << 16) | (bl[15] << 24))))
    elif e.is_compact():
        U.ensures("compact entry: key in the size field, type in the flags' high byte, data in the last word",
                  And(e.key == size, e.datatype == ((flags >> 8) & 0xFF), e.data == word))
    else:
        U.ensures("plain entry: Res_value follows (size, res0, type, data)",
                  And(e.key.data_type == bl[11], e.key.data == (bl[12] | (bl[13] << 8) | (bl[14] << 16) | (bl[15] << 24))))


def _rand_model(rng):
    pkgs = []
    for pi in range(rng.randint(1, 2)):
        pid = 0x7F if pi == 0 else 0x10 + pi
        types = []
        for tname in rng.sample(["string", "color", "dimen", "bool", "integer", "style", "id"], rng.randint(1, 4)):
            n = rng.randint(1, 6)
            configs = []
            cfgs = [dict()] + rng.sample([dict(lang="de"), dict(lang="fr", region="CA"), dict(lang="fil"), dict(density=240),
                                          dict(sdk=21), dict(lang="es", region="419"), dict(color_mode=1), dict(color_mode=8),
                                          dict(layout2=1), dict(mcc=310), dict(orientation=2), dict(keyboard=3), dict(width=320),
                                          dict(layout=2), dict(ui_mode=0x21), dict(smallest=600), dict(width_dp=720),
                                          dict(lang="de", color_mode=4), dict(lang="sr", script=b"Latn"), dict(lang="sr", script=b"Cyrl"),
                                          dict(lang="ca", region="ES", variant=b"valencia")], rng.randint(0, 3))
            for cfg in cfgs:
                entries = {}
                for i in range(n):
                    if cfg and rng.random() < 0.5:
                        continue
                    if not cfg and rng.random() < 0.15:
                        continue
                    key = "%s_%d" % (tname, i)
                    if tname == "style" and rng.random() < 0.7:
                        entries[i] = dict(key=key, kind="complex", parent=0, items=[(0x01010000 + k, 0x10, rng.randrange(100)) for k in range(rng.randint(0, 3))])
                    elif tname == "string":
                        entries[i] = dict(key=key, kind=rng.choice(["plain", "plain", "compact"]), type=3, data="v%d_%s" % (i, cfg.get("lang", "")))
                    elif tname == "color":
                        entries[i] = dict(key=key, kind="plain", type=0x1C, data=rng.randrange(1 << 32))
                    elif tname == "dimen":
                        entries[i] = dict(key=key, kind="plain", type=5, data=(rng.randrange(1 << 24) << 8) | (rng.randrange(4) << 4) | rng.randrange(6))
                    elif tname == "bool":
                        entries[i] = dict(key=key, kind="plain", type=0x12, data=rng.choice([0, 0xFFFFFFFF]))
                    else:
                        entries[i] = dict(key=key, kind="plain", type=0x10, data=rng.randrange(1 << 32))
                    if entries[i]["kind"] == "plain" and entries[i]["type"] != 3 and rng.random() < 0.3:
                        entries[i]["kind"] = "compact"          # typed compact entry: the type travels in the entry's flags
                    if rng.random() < 0.3:
                        entries[i]["flags"] = 2
                if entries:
                    configs.append(dict(config=cfg, entries=entries, form=rng.choice(["plain", "plain", "sparse", "offset16"])))
            if configs:
                types.append(dict(name=tname, entry_count=n, configs=configs))
        if types:
            # header with typeIdOffset (0 or, as in feature splits, > 0) or the older 284-byte header without the field
            opts = rng.choice([{}, {}, {"hdr": 284}, {"type_id_offset": rng.choice([1, 2, 5])}])
            pkgs.append((pid, "com.example.p%d" % pi, types, opts))
    return pkgs


FIELDS = ("density", "sdk", "mcc", "orientation", "keyboard", "width", "layout", "ui_mode", "smallest", "width_dp", "layout2", "color_mode")


def _cfg_key(cfg):
    return (cfg.get("lang", ""), cfg.get("region", "")) + tuple(cfg.get(f, 0) for f in FIELDS) + \
        ((cfg.get("script", b"") + b"\0" * 4)[:4], (cfg.get("variant", b"") + b"\0" * 8)[:8])


def _got_cfg_key(c):
    loc = c.get_language_and_region()
    lang, _, region = loc.partition("-r")
    if loc == "\x00\x00":
        lang = region = ""
    return (lang, region, c.screenType >> 16, c.version & 0xFFFF, c.imsi & 0xFFFF, c.screenType & 0xFF, c.input & 0xFF,
            c.screenSize & 0xFFFF, c.screenConfig & 0xFF, (c.screenConfig >> 8) & 0xFF, c.screenConfig >> 16, c.screenSizeDp & 0xFFFF,
            c.screenConfig2 & 0xFF, (c.screenConfig2 >> 8) & 0xFF, bytes(c.localeScript), bytes(c.localeVariant))


@unit("C28", covers=[(AXML, "ARSCParser.__init__"), (AXML, "ARSCParser._analyse"), (AXML, "ARSCParser.get_res_configs"),
                     (AXML, "ARSCParser.ResourceResolver.resolve"), (AXML, "ARSCParser.get_packages_names"), (AXML, "ARSCParser.get_locales"),
                     (AXML, "ARSCParser.get_types"), (AXML, "ARSCParser.get_res_id_by_key"), (AXML, "ARSCResTablePackage.__init__"),
                     (AXML, "ARSCResType.__init__"), (AXML, "ARSCResTypeSpec.__init__"), (AXML, "ARSCResTableConfig.__init__")],
      level="bounded", samples=150,
      note="seeded random resource models (1..2 packages x 1..4 types x 1..3 configurations x <= 6 entries; plain/complex/compact "
           "entries; plain/sparse/offset16 type chunks with holes) from the independent writer")
def generated_tables(U):
    m = U.mod(AXML)
    seed = U.int("seed", 0, 1 << 30)
    rng = random.Random(seed)
    model = _rand_model(rng)
    if not model:
        U.assume(False)
    data = AW.table(model)
    o = U.call(lambda: m.ARSCParser(data))
    U.ensures("parses", o.ok, exc=repr(o.exc)[:300])
    if not o.ok:
        return
    p = o.value
    U.ensures("package listing", sorted(p.get_packages_names()) == sorted(pk[1] for pk in model), got=p.get_packages_names())
    for pid, pname, types, opts in model:
        tid0 = 1 + opts.get("type_id_offset", 0)
        all_cfgs, multi = {}, []
        locs = set()
        for t in types:
            for c in t["configs"]:
                cfg = c["config"]
                loc = cfg.get("lang", "") + ("-r" + cfg["region"] if cfg.get("region") else "")
                locs.add(loc or "\x00\x00")
        U.ensures("locale listing", set(p.get_locales(pname)) == locs, got=sorted(p.get_locales(pname)), want=sorted(locs))
        for loc in sorted(locs):
            want_t = set()
            for t in types:
                for c in t["configs"]:
                    cfg = c["config"]
                    if (cfg.get("lang", "") + ("-r" + cfg["region"] if cfg.get("region") else "") or "\x00\x00") == loc and c["entries"]:
                        want_t.add(t["name"])
            gt = U.call(p.get_types, pname, loc)
            U.ensures("type listing of a locale: the names of the types with entries there", gt.ok and set(gt.value) - {"public"} == want_t,
                      got=gt.value, want=sorted(want_t), locale=loc, exc=repr(gt.exc)[:100])
        for ti, t in enumerate(types, tid0):
            for i in range(t["entry_count"]):
                rid = (pid << 24) | (ti << 16) | i
                want = {}
                for c in t["configs"]:
                    if i in c["entries"]:
                        want[_cfg_key(c["config"])] = c["entries"][i]
                got = U.call(p.get_res_configs, rid)
                if not want:
                    U.ensures("an id without entries resolves to nothing", got.ok and got.value == [], rid=hex(rid))
                    continue
                U.ensures("lookup does not raise", got.ok, exc=repr(got.exc)[:200], rid=hex(rid))
                if not got.ok:
                    continue
                gk = {_got_cfg_key(c): ate for c, ate in got.value}
                all_cfgs.update((_got_cfg_key(c), c) for c, _ in got.value)
                for c, ate in got.value:
                    one = U.call(p.get_res_configs, rid, c)
                    U.ensures("asking for a configuration that defines the id returns that configuration's entry",
                              one.ok and len(one.value) == 1 and one.value[0][1] is ate and _got_cfg_key(one.value[0][0]) == _got_cfg_key(c),
                              rid=hex(rid), config=repr(c), got=repr(one.value)[:200], exc=repr(one.exc)[:100])
                multi.append((rid, set(gk)))
                U.ensures("one entry per configuration that defines the id", set(gk) == set(want), rid=hex(rid), got=sorted(gk), want=sorted(want))
                for k, e in want.items():
                    ate = gk.get(k)
                    if ate is None:
                        continue
                    U.ensures("entry key name", ate.get_value() == e["key"], rid=hex(rid), got=ate.get_value())
                    if e["kind"] == "complex":
                        U.ensures("complex entry items (name reference, type, data)", ate.is_complex() and
                                  [(n, it.get_data_type(), it.get_data()) for n, it in ate.item.items] == [(n, t2, d) for n, t2, d in e["items"]],
                                  rid=hex(rid))
                    elif e["type"] == 3:
                        U.ensures("string value", ate.get_key_data() == e["data"], rid=hex(rid), got=ate.get_key_data(), want=e["data"])
                    elif e["kind"] == "compact":
                        U.ensures("typed value of a compact entry", ate.is_compact() and (ate.datatype, ate.data) == (e["type"], e["data"]), rid=hex(rid),
                                  got=(ate.datatype, ate.data))
                    elif e["kind"] == "plain":
                        U.ensures("typed value", (ate.key.get_data_type(), ate.key.get_data()) == (e["type"], e["data"]), rid=hex(rid))
                        U.ensures("formatted value", ate.key.format_value() == RV.format_value(e["type"], e["data"], None, e["data"] & 0xF),
                                  rid=hex(rid), got=ate.key.format_value())
                # key -> id
                any_e = next(iter(want.values()))
                back = U.call(p.get_res_id_by_key, pname, t["name"], any_e["key"])
                U.ensures("key-to-id listing", back.ok and back.value == rid, rid=hex(rid), got=back.value, exc=repr(back.exc)[:100])
        # a configuration for which an id with several configurations has no entry: nothing is returned (no fallback asked for)
        for rid, have in multi:
            if len(have) < 2:
                continue            # with a single stored configuration get_res_configs answers it for any request (documented leniency)
            for k, c in sorted(all_cfgs.items(), key=lambda kv: repr(kv[0])):
                if k not in have:
                    none = U.call(p.get_res_configs, rid, c, False)
                    U.ensures("a configuration without an entry for the id yields nothing when no fallback is asked for",
                              none.ok and none.value == [], rid=hex(rid), config=repr(c), got=repr(none.value)[:200])
                    break
        # resolver: concrete values for the default configuration
        rr = m.ARSCParser.ResourceResolver(p, None)
        for ti, t in enumerate(types, tid0):
            for c in t["configs"]:
                for i, e in c["entries"].items():
                    if e.get("type") == 3 and e["kind"] in ("plain", "compact"):
                        r = U.call(rr.resolve, (pid << 24) | (ti << 16) | i)
                        U.ensures("resolver returns the stored string among the id's values",
                                  r.ok and e["data"] in [v for _, v in r.value if isinstance(v, str)], got=str(r.value)[:200], exc=repr(r.exc)[:100])
                    elif e["kind"] in ("plain", "compact"):
                        # a typed value (colour, dimension, boolean, integer) resolves to its text, whether the entry is plain or compact
                        r = U.call(rr.resolve, (pid << 24) | (ti << 16) | i)
                        want_v = RV.format_value(e["type"], e["data"], None, e["data"] & 0xF)
                        U.ensures("resolver returns the text of the stored typed value among the id's values",
                                  r.ok and want_v in [v for _, v in r.value if isinstance(v, str)], got=str(r.value)[:200], want=want_v,
                                  kind=e["kind"], exc=repr(r.exc)[:100])
        iv = U.call(lambda: p.get_integer_resources(pname))
        U.ensures("integer listing can be produced (plain and compact integer entries)", iv.ok, exc=repr(iv.exc)[:200])


@unit("C28", covers=[(AXML, "ARSCResTableConfig.__init__"), (AXML, "ARSCResTableConfig.__eq__"), (AXML, "ARSCResTableConfig._get_tuple")],
      params=[{"size": z} for z in (28, 36, 52, 64)], samples=60, max_paths=4000)
def config_identity(U, size):
    """two configurations are the same key iff every configuration word they carry is equal"""
    m = U.mod(AXML)
    words = {28: 6, 36: 8, 52: 9, 64: 9}[size]
    b1, b2 = U.bytes("c1", size - 4), U.bytes("c2", size - 4)
    hdr = [size, 0, 0, 0]
    mk = lambda b: (SymBytes(hdr + list(b.items)) if U.mode == "sym" else bytes(hdr) + bytes(b))
    o1, o2 = U.call(m.ARSCResTableConfig, U.stream(mk(b1))), U.call(m.ARSCResTableConfig, U.stream(mk(b2)))
    U.ensures("parses", o1.ok and o2.ok, exc=repr(o1.exc or o2.exc))
    if not (o1.ok and o2.ok):
        return
    l1 = list(b1.items) if hasattr(b1, "items") else list(b1)
    l2 = list(b2.items) if hasattr(b2, "items") else list(b2)
    # the words compared: imsi, locale, screenType, input, screenSize, version, screenConfig, screenSizeDp (offsets 0..31),
    # localeScript (32..35), localeVariant (36..43) and screenConfig2 (44..47), as far as the structure size carries them
    offs = list(range(0, 4 * min(words, 8))) + (list(range(32, 36)) if size >= 40 else []) + (list(range(36, 44)) if size >= 44 else []) \
        + (list(range(44, 48)) if words == 9 else [])
    same = And(*[l1[i] == l2[i] for i in offs])
    eq = o1.value == o2.value
    U.ensures("equal configuration words <=> same configuration key", Eq(bool(eq) if not isinstance(eq, bool) else eq, bool(same) if not isinstance(same, bool) else same))


@unit("C28", covers=[(AXML, "ARSCParser.__init__"), (AXML, "ARSCParser._analyse"), (AXML, "ARSCParser.get_res_configs")], level="bounded",
      params=[{"form": f} for f in ("offset16", "plain", "sparse")], samples=1,
      note="one type chunk with 9000 sixteen-byte entries (entry data > 128 KiB): 16-bit entry offsets use their whole unsigned "
           "range (stored value >= 0x8000), sparse indices / 32-bit offsets likewise beyond 2^15 words")
def large_type_chunk(U, form):
    m = U.mod(AXML)
    n = 9000
    U.drawn.update({"form": form})
    entries = {i: {"key": "k%d" % i, "kind": "plain", "type": 0x10, "data": 100000 + i} for i in range(n) if form != "sparse" or i % 3 != 1}
    model = [(0x7F, "com.big", [{"name": "integer", "entry_count": n, "configs": [{"config": {}, "entries": entries, "form": form}]}])]
    data = AW.table(model)
    o = U.call(lambda: m.ARSCParser(data))
    U.ensures("parses", o.ok, exc=repr(o.exc)[:300])
    if not o.ok:
        return
    p = o.value
    bad = []
    for i in list(range(0, 4)) + list(range(8185, 8200)) + list(range(n - 3, n)) + list(range(0, n, 97)):
        got = U.call(p.get_res_configs, 0x7F010000 | i)
        if i not in entries:
            if not (got.ok and got.value == []):
                bad.append((i, "absent id resolves to something"))
            continue
        if not got.ok or len(got.value) != 1:
            bad.append((i, repr(got.exc or len(got.value))))
            continue
        ate = got.value[0][1]
        if ate.get_value() != "k%d" % i or (ate.key.get_data_type(), ate.key.get_data()) != (0x10, 100000 + i):
            bad.append((i, ate.get_value(), ate.key.get_data()))
    U.ensures("every sampled id resolves to its own entry (key name, type, data), also beyond the first 128 KiB of entry data",
              not bad, bad=bad[:5])


large_type_chunk.enumerate_inputs = lambda tier, **p: iter([{}])
