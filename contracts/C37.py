"""C37  Decompile output stays inside the output directory (DESIGN §7 C37)."""
import builtins
import io
import os
import shutil
import tempfile

from pyvc.core import And, Eq, Implies, Ite, Not, Or
from pyvc.osmodel import FS, OsModel, PathModel
from pyvc.strings import mk
from pyvc.unit import unit

MAIN = "androguard/cli/main.py"
META = {
    "technique": 'contract-based deductive verification: symbolic execution of the real functions against sidecar contracts (z3/cvc5) for the proved units; bounded contract evaluation (enumerated scope / independent writer) for the rest',
    "level": "other",
    "partial": True,
    "level_text": "Proof: valid_class_name is executed on class names L<s>; and <s> with 1..5 symbolic code points (any character "
                  "incl. '/', '.', NUL); the path it returns, joined under a relative and under an absolute output directory and "
                  "normalised by the posixpath rules, is proved to stay inside that directory; create_directory is proved to create "
                  "exactly the directory it is given. Bounded: the real export_apps_to_format is run in a scratch directory on a stub "
                  "session with enumerated hostile class/method names and every created path is checked (realpath) to be inside.",
    "trusted": ["posixpath model (pyvc/osmodel.py)", "str model", "decompiler / dot export replaced by stubs in the bounded unit"],
    "explanation": "valid_class_name proved for all short names; whole export function bounded (enumerated hostile names).",
    "assumptions": ["class names longer than 5 characters: the function only splits on '/' and filters segments, no length-dependent logic"],
}


def _inside(pm, base, p):
    """normpath(p) has normpath(base) as a component-wise prefix (dual through the path model)"""
    nb, np_ = pm.normpath(base), pm.normpath(p)
    if isinstance(nb, str) and isinstance(np_, str):
        return np_ == nb or np_.startswith(nb.rstrip("/") + "/")
    return Or(np_ == nb, np_.startswith(nb.rstrip("/") + "/") if hasattr(np_, "startswith") else False)


@unit("C37", covers=[(MAIN, "valid_class_name")], params=[{"n": n, "wrapped": w} for n in range(1, 6) for w in (True, False)],
      samples=200, max_paths=60000)
def class_name_path(U, n, wrapped):
    m = U.mod(MAIN)
    pm = PathModel(FS())
    if U.mode == "sym":
        U.substitute(m, "os", OsModel(), "posixpath model")
    s = U.str("cls", n)
    name = ("L" + s + ";") if wrapped else s
    if not wrapped:
        U.assume(name[-1] != ";")
    o = U.call(m.valid_class_name, name)
    U.ensures("does not raise", o.ok, exc=repr(o.exc))
    if not o.ok:
        return
    for base in ("out", "/abs/out"):
        joined = pm.join(base, o.value) if U.mode == "sym" else os.path.join(base, o.value)
        ok = _inside(pm if U.mode == "sym" else os.path, base, joined)
        U.ensures("class directory stays inside the output directory %r" % base, ok,
                  path=joined if U.mode == "conc" else None)


@unit("C37", covers=[(MAIN, "create_directory")])
def create_directory(U):
    m = U.mod(MAIN)
    exists = U.choice("exists", [True, False])
    fs = FS(dirs=["out/a"] if exists else [])
    saved = m.os
    m.os = OsModel(fs)
    try:
        o = U.call(m.create_directory, "out/a")
    finally:
        m.os = saved
    U.ensures("creates exactly the requested directory, only when missing", o.ok and fs.created_dirs == ([] if exists else ["out/a"]))


HOSTILE = ["La/b/C;", "Lcom/example/;", "L../../esc;", "L../x;", "L/abs/x;", "L./x;", "La//b;", "La/../../../y;", "L..;", "L.;", "L;", "La/..;",
           "L" + "x" * 300 + ";", "Lsp ace/dot./x;", "La/b/../../../../z;"]
METHS = ["m", "../../m", "/abs", "a/b", "..", "<init>", "a/../../../pwn/xyz", "x/../../../../../e", "a/b/../../../../../../f/g", "/../../../h/i",
         "@WATCHED@/escaped"]          # an absolute path into an existing directory (the watched directory above the output directory)
# classes that cooperate: the folder the first one creates makes the '..' chain in a method name of the second one resolvable
PAIRS = [(("LA/A x;", "m"), ("LA;", "x/../../../esc")), (("La/b/c;", "m"), ("La;", "b/c/../../../../esc2")),
         (("Lp/q;", "m"), ("Lp/q;", "../../../esc3"))]


class _M:
    def __init__(self, cls, name):
        self.cls, self.name = cls, name

    def get_class_name(self):
        return self.cls

    def get_name(self):
        return self.name

    def get_descriptor(self):
        return "()V"

    def get_short_string(self):
        # the real EncodedMethod.get_short_string (it only uses the three accessors above), not a copy of its format
        from pyvc import loader
        return loader.import_real("androguard/core/dex/__init__.py").EncodedMethod.get_short_string(self)


class _C:
    def __init__(self, n):
        self.n = n

    def get_name(self):
        return self.n

    def get_source(self):
        return "class X {}"


class _VM:
    def __init__(self, ms):
        self.ms = ms

    def get_encoded_methods(self):
        return self.ms

    def get_class(self, n):
        return _C(n)


class _VMX:
    def get_method(self, m):
        return m


class _S:
    def __init__(self, vm):
        self.vm = vm

    def get_objects_dex(self):
        yield None, self.vm, _VMX()


def _enum(tier, **_):
    for ci in range(len(HOSTILE)):
        for mi in range(len(METHS)):
            yield {"cls": ci, "meth": mi}
    for pi in range(len(PAIRS)):
        yield {"pair": pi}


@unit("C37", covers=[(MAIN, "export_apps_to_format"), (MAIN, "valid_class_name"), (MAIN, "create_directory")], level="bounded",
      note="real export_apps_to_format in a scratch directory, stub session; hostile class names x method names; every created "
           "file/directory must resolve inside the output directory (the directory above it is watched)")
def export_sandbox(U):
    m = U.mod(MAIN)
    g = U.given or {"cls": 1, "meth": 0}
    U.drawn.update(g)
    root = tempfile.mkdtemp(prefix="c37_", dir=os.environ.get("VERIF_SCRATCH") or None)
    out = os.path.join(root, "w", "x", "y", "out")
    os.makedirs(os.path.dirname(out))
    import androguard.core.bytecode as bc
    saved = (bc.method2dot, bc.method2format, m.get_bytecodes_method)
    bc.method2dot = lambda mx: "digraph{}"
    bc.method2format = lambda *a, **k: None
    m.get_bytecodes_method = lambda vm, vmx, meth: "bytecodes"
    if "pair" in g:
        ms = [_M(c, n) for c, n in PAIRS[g["pair"]]]
    else:
        ms = [_M(HOSTILE[g["cls"]], METHS[g["meth"]].replace("@WATCHED@", os.path.join(root, "w")))]
    try:
        o = U.call(m.export_apps_to_format, "in.dex", _S(_VM(ms)), out)
    finally:
        bc.method2dot, bc.method2format, m.get_bytecodes_method = saved
    created = []
    for dp, dn, fn in os.walk(root):
        for x in dn + fn:
            created.append(os.path.join(dp, x))
    outside = [p for p in created if not (os.path.realpath(p) + "/").startswith(os.path.realpath(out) + "/")
               and not out.startswith(p)]
    shutil.rmtree(root, ignore_errors=True)
    U.ensures("nothing is created outside the output directory", not outside, outside=outside,
              cls=[x.cls[:40] for x in ms], meth=[x.name[:60] for x in ms], exc=repr(o.exc)[:200])


export_sandbox.enumerate_inputs = lambda tier, **p: _enum(tier)
