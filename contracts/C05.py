"""C05  The parsed DEX object model matches the file's declared structure (DESIGN §7 C05)."""
import os
import random
import struct
import zlib

from pyvc.core import And, Eq, Implies, Ite, Not, Or, SymBytes
from pyvc.unit import bare, unit
from specs import dexreader as R

DEX = "androguard/core/dex/__init__.py"
META = {
    "technique": 'contract-based deductive verification: symbolic execution of the real functions against sidecar contracts (z3/cvc5) for the proved units, inductive loop invariants and termination variants on the real loops (unbounded in length and iteration count); bounded contract evaluation (enumerated scope / independent writer) for the rest',
    "level": "other",
    "partial": True,
    "level_text": "Loop contract (unbounded): ClassDataItem._load_elements with the real EncodedField constructor and LEB128 reader "
                  "on a member group of any size in a file of any length: element j carries the sum of the index differences up to "
                  "its own and its own flags (ghost functions defined by the file content, Skolem index). Proof (carriers, symbolic bytes): ClassDataItem.__init__/_load_elements with EncodedField/EncodedMethod.__init__ and "
                  "adjust_idx decode the four member groups in file order with the declared sizes and turn the index *differences* "
                  "into indices by prefix sums (group sizes 0..2 each, all diffs/flags/code offsets symbolic); the DEX lookup helpers "
                  "(get_class, get_encoded_method_descriptor, get_encoded_field_descriptor, get_encoded_methods_class, "
                  "get_encoded_fields_class) return exactly the matching items on a stub class list. Bounded (model-based): seeded random class models (0..5 classes, non-ASCII / $ identifiers, primitive / array / class types, "
                  "wide parameters, equal field names of different type, fields whose class+name+type concatenations collide, classes "
                  "without superclass (open finding KF-C05-1), overloads, abstract / native methods without code, "
                  "interfaces, source files) are serialised by an independent DEX writer, parsed (two files per process) and every "
                  "reported class / field / method / lookup compared with the model. Bounded: every shipped DEX file "
                  "(and seeded variants whose class_data index-diff encodings are re-written in non-canonical multi-byte ULEB128) is "
                  "parsed and the object model compared with an independent minimal DEX reader (specs/dexreader.py).",
    "trusted": ["LEB128 readers (C03)", "independent reader specs/dexreader.py", "MapItem/id-table glue is only covered by the bounded runs"],
    "explanation": "member-list decoding and lookups proved on symbolic input; whole-file object model bounded: random class "
                   "models through the independent DEX writer (specs/dexwriter.py) compared with the model itself, and shipped files "
                   "vs the independent reader.",
    "assumptions": ["(class, name, descriptor) triples are unique in a DEX file (DEX rule) for the lookup helpers"],
}


class _CM:
    def __init__(self, packer):
        self.packer = packer

    def get_odex_format(self):
        return False


SIZES = [(a, b, c, d) for a in (0, 2) for b in (0, 1) for c in (0, 2) for d in (0, 1)]


@unit("C05", covers=[(DEX, "ClassDataItem.__init__"), (DEX, "ClassDataItem._load_elements"), (DEX, "EncodedField.__init__"),
                     (DEX, "EncodedField.adjust_idx"), (DEX, "EncodedMethod.__init__"), (DEX, "EncodedMethod.adjust_idx")],
      params=[{"sizes": list(s)} for s in SIZES], samples=30)
def member_lists(U, sizes):
    m = U.mod(DEX)
    sf, inf, dm, vm = sizes
    data = [sf, inf, dm, vm]
    groups = []
    k = 0
    for gi, (n, is_method) in enumerate(((sf, False), (inf, False), (dm, True), (vm, True))):
        items = []
        for j in range(n):
            diff = U.int("d%d" % k, 0, 127)
            acc = U.int("a%d" % k, 0, 127)
            k += 1
            data += [diff, acc]
            co = None
            if is_method:
                co = 0     # no code: the constructor does not seek into the file then
                data.append(co)
            items.append((diff, acc))
        groups.append(items)
    buff = U.stream(SymBytes(data + [0x55]) if U.mode == "sym" else bytes(data + [0x55]))
    o = U.call(m.ClassDataItem, buff, _CM(U.packer()))
    U.ensures("does not raise", o.ok, exc=repr(o.exc))
    if not o.ok:
        return
    c = o.value
    got = [c.get_static_fields(), c.get_instance_fields(), c.get_direct_methods(), c.get_virtual_methods()]
    U.ensures("four groups with the declared sizes, in file order", [len(x) for x in got] == [sf, inf, dm, vm])
    for gi, (items, objs) in enumerate(zip(groups, got)):
        run = 0
        for j, ((diff, acc), ob) in enumerate(zip(items, objs)):
            run = run + diff
            idx = ob.get_field_idx() if gi < 2 else ob.get_method_idx()
            U.ensures("index = sum of the index differences of the group so far (group %d, element %d)" % (gi, j), idx == run, got=idx)
            U.ensures("access flags of that element", ob.get_access_flags() == acc)
    U.ensures("consumes exactly the class_data_item", buff.tell() == len(data), pos=buff.tell())


class _It:
    def __init__(self, cls, name, desc):
        self.c, self.n, self.d = cls, name, desc

    def get_class_name(self):
        return self.c

    def get_name(self):
        return self.n

    def get_descriptor(self):
        return self.d


class _Cls:
    def __init__(self, name, methods, fields):
        self.n, self.m, self.f = name, methods, fields

    def get_name(self):
        return self.n

    def get_methods(self):
        return self.m

    def get_fields(self):
        return self.f


@unit("C05", covers=[(DEX, "DEX.get_class"), (DEX, "DEX.get_encoded_method_descriptor"), (DEX, "DEX.get_encoded_field_descriptor"),
                     (DEX, "DEX.get_encoded_methods_class"), (DEX, "DEX.get_encoded_fields_class")])
def lookups(U):
    m = U.mod(DEX)
    a = _Cls("LA;", [_It("LA;", "m", "()V"), _It("LA;", "m", "(I)V"), _It("LA;", "n", "()V")], [_It("LA;", "f", "I"), _It("LA;", "f", "J")])
    b = _Cls("LB;", [_It("LB;", "m", "()V")], [_It("LB;", "f", "I")])
    d = bare(m.DEX)
    d.classes = None
    d.get_classes = lambda: [a, b]
    d.get_encoded_methods = lambda: a.m + b.m
    d.get_encoded_fields = lambda: a.f + b.f
    setattr(d, "_DEX__cache_methods", None)
    setattr(d, "_DEX__cache_fields", None)
    q = U.choice("q", [("LA;", "m", "()V"), ("LA;", "m", "(I)V"), ("LB;", "m", "()V"), ("LB;", "n", "()V"), ("LC;", "m", "()V"),
                       ("LA;", "f", "I"), ("LA;", "f", "J"), ("LB;", "f", "J")])
    em = U.call(d.get_encoded_method_descriptor, *q)
    want = [x for x in a.m + b.m if (x.c, x.n, x.d) == q]
    U.ensures("method lookup by (class, name, descriptor) returns exactly the matching item or None",
              em.ok and em.value is (want[0] if want else None))
    ef = U.call(d.get_encoded_field_descriptor, *q)
    wantf = [x for x in a.f + b.f if (x.c, x.n, x.d) == q]
    U.ensures("field lookup by (class, name, descriptor) returns exactly the matching item or None",
              ef.ok and ef.value is (wantf[0] if wantf else None))
    U.ensures("class lookup by name", d.get_class(q[0]) is {"LA;": a, "LB;": b}.get(q[0]))
    U.ensures("members of a class by class name", d.get_encoded_methods_class(q[0]) == [x for x in a.m + b.m if x.c == q[0]] and
              d.get_encoded_fields_class(q[0]) == [x for x in a.f + b.f if x.c == q[0]])


def _model(d):
    out = []
    for c in d.get_classes():
        cd = c.get_class_data() if hasattr(c, "get_class_data") else None
        def fl(lst):
            return [(f.get_class_name(), f.get_name(), f.get_descriptor(), f.get_access_flags()) for f in lst]
        def ml(lst):
            r = []
            for me in lst:
                code = me.get_code()
                r.append((me.get_class_name(), me.get_name(), me.get_descriptor(), me.get_access_flags(),
                          None if code is None else (code.get_registers_size(), code.get_ins_size(), code.get_outs_size(),
                                                     bytes(code.get_bc().get_insn()))))
            return r
        out.append({"name": c.get_name(), "access": c.get_access_flags(), "super": c.get_superclassname(),
                    "interfaces": list(c.get_interfaces()), "source": (None if c.get_source_file_idx() == 0xFFFFFFFF else d.get_cm_string(c.get_source_file_idx())),
                    "sfields": fl(cd.get_static_fields()) if cd else [], "ifields": fl(cd.get_instance_fields()) if cd else [],
                    "dmethods": ml(cd.get_direct_methods()) if cd else [], "vmethods": ml(cd.get_virtual_methods()) if cd else []})
    return out


FILES = ["Test.dex", "AnalysisTest.dex", "FieldsTest.dex", "InterfaceCls.dex", "StringTests.dex", "ExceptionHandling.dex", "FillArrays.dex"]


@unit("C05", covers=[(DEX, "DEX._load"), (DEX, "ClassDefItem.reload"), (DEX, "ClassManager.get_type"), (DEX, "ClassManager.get_proto"),
                     (DEX, "ClassManager.get_field"), (DEX, "ClassManager.get_method"), (DEX, "ClassDataItem._load_elements")],
      level="bounded", params=[{"file": f} for f in FILES + ["classes.dex"]], samples=1,
      note="each shipped DEX file: classes, superclasses, interfaces, flags, source files, fields, methods (flags, code presence, "
           "register/in/out counts, code bytes) and strings compared with the independent reader")
def shipped_files(U, file):
    m = U.mod(DEX)
    data = open(os.path.join("/repo/tests/data/APK", file), "rb").read()
    want = R.read(data)
    o = U.call(lambda: m.DEX(data))
    U.ensures("parses", o.ok, exc=repr(o.exc)[:200])
    if not o.ok:
        return
    d = o.value
    got = _model(d)
    wc = want["classes"]
    U.ensures("same classes in file order", [c["name"] for c in got] == [c["name"] for c in wc])
    for g, w in zip(got, wc):
        for key in ("access", "super", "interfaces", "sfields", "ifields"):
            if key == "super" and w["super"] is None:
                continue
            U.ensures("class %s" % key, g[key] == w[key], cls=g["name"], got=str(g[key])[:200], want=str(w[key])[:200])
        if w["source"] is not None and g["source"] is not None:
            U.ensures("source file name", g["source"] == w["source"], cls=g["name"])
        for key in ("dmethods", "vmethods"):
            U.ensures("class %s (name, descriptor, flags, registers/ins/outs, code bytes)" % key, g[key] == w[key], cls=g["name"],
                      got=str(g[key])[:300], want=str(w[key])[:300])
    U.ensures("string pool", list(d.get_strings()) == want["strings"])
    # lookups on the real object
    for w in wc[:5]:
        U.ensures("get_class finds every declared class", d.get_class(w["name"]) is not None and d.get_class(w["name"]).get_name() == w["name"])
        for me in (w["dmethods"] + w["vmethods"])[:6]:
            em = d.get_encoded_method_descriptor(me[0], me[1], me[2])
            U.ensures("descriptor lookup returns the declared method", em is not None and (em.get_class_name(), em.get_name(), em.get_descriptor()) == me[:3])
    U.ensures("lookup of an undeclared method returns None", d.get_encoded_method_descriptor("Lno/Such;", "x", "()V") is None)


class _Tab:
    def __init__(self, d):
        self.d = d

    def get(self, idx):
        return self.d.get(idx, -1)


class _Rec:
    """ClassManager stand-in whose resolvers return tagged tuples"""

    def __init__(self):
        self.log = []

    def get_type(self, i):
        return ("type", i)

    def get_string(self, i):
        return ("string", i)

    def get_proto(self, i):
        return [("params", i), ("ret", i)]

    def get_type_list(self, off):
        return ("type_list", off)

    def get_class_data_item(self, off):
        return ("class_data", off)

    def get_annotations_directory_item(self, off):
        return ("annotations", off)

    def get_encoded_array_item(self, off):
        self.log.append(("encoded_array", off))
        return None


@unit("C05", covers=[(DEX, "ClassManager.get_type"), (DEX, "ClassManager.get_type_ref"), (DEX, "ClassManager.get_field"),
                     (DEX, "ClassManager.get_method"), (DEX, "FieldIdItem.reload"), (DEX, "MethodIdItem.reload"), (DEX, "ClassDefItem.reload")],
      samples=30)
def index_chains(U):
    """each name/descriptor is obtained by following exactly the index chain the DEX format prescribes"""
    m = U.mod(DEX)
    T = m.TypeMapItem
    cm = bare(m.ClassManager)
    cm.hook_strings = {}
    cm.get_raw_string = lambda i: ("raw_string", i)
    tidx = U.choice("tidx", [0, 3, 7])
    sidx_c = U.choice("string_idx", [0, 1, 77, 65535, 1 << 20])
    setattr(cm, "_ClassManager__manage_item", {T.TYPE_ID_ITEM: _Tab({tidx: sidx_c})})
    U.ensures("type name = string_ids[type_ids[idx].descriptor_idx]", cm.get_type(tidx) == ("raw_string", sidx_c))
    U.ensures("unknown type index is reported, not mis-resolved", cm.get_type(tidx + 1) == "AG:ITI: invalid type")
    rec = _Rec()
    ci, ti, ni = U.choice("c", [0, 5]), U.choice("t", [1, 6]), U.choice("n", [2, 9])
    f = bare(m.FieldIdItem)
    f.CM, f.class_idx, f.type_idx, f.name_idx = rec, ci, ti, ni
    f.reload()
    U.ensures("field id: class = type(class_idx), type = type(type_idx), name = string(name_idx)",
              (f.class_idx_value, f.type_idx_value, f.name_idx_value) == (("type", ci), ("type", ti), ("string", ni)))
    me = bare(m.MethodIdItem)
    me.CM, me.class_idx, me.proto_idx, me.name_idx = rec, ci, ti, ni
    me.reload()
    U.ensures("method id: class = type(class_idx), proto = proto(proto_idx), name = string(name_idx)",
              (me.class_idx_value, me.proto_idx_value, me.name_idx_value) == (("type", ci), [("params", ti), ("ret", ti)], ("string", ni)))
    cd = bare(m.ClassDefItem)
    cd.CM = rec
    cd.class_idx, cd.superclass_idx, cd.interfaces_off = ci, ti, ni
    cd.class_data_off = U.choice("cdo", [0, 64])
    cd.annotations_off = U.choice("ao", [0, 96])
    cd.static_values_off = 0
    cd.class_data_item = cd.annotations_directory_item = cd.static_values = None
    cd.reload()
    U.ensures("class def: name, superclass and interfaces through their own indices",
              (cd.name, cd.sname, cd.interfaces) == (("type", ci), ("type", ti), ("type_list", ni)))
    U.ensures("class data / annotations are attached iff their offsets are non-zero",
              cd.class_data_item == (("class_data", 64) if cd.class_data_off else None) and
              cd.annotations_directory_item == (("annotations", 96) if cd.annotations_off else None))


# ------------------------------------------------------------------------------------------------
# Loop contract (unbounded): ClassDataItem._load_elements over a member group of ARBITRARY size on a file of arbitrary length.
# Ghost functions of the element index k, *defined by the file content* (their defining equations are instantiated at the index the
# arbitrary iteration works on): P(k) = offset of element k, IDX(k) = sum of the index differences of elements < k, FL(k) = access
# flags of element k, with  P(k+1) = P(k) + len(uleb@P(k)) + len(uleb@..),  IDX(k+1) = IDX(k) + uleb@P(k)  (spec: specs/leb128.py).
# Invariant: pos = P(k), prev = IDX(k), len(l) = k, and (Skolem j < k) element j of the list carries index IDX(j+1) and flags FL(j).
import z3  # noqa: E402

from pyvc import core, ubuf  # noqa: E402
from pyvc.loops import GhostList, LoopSpec  # noqa: E402
from specs import leb128 as LEB  # noqa: E402


class _Members:
    def __init__(self, U, mem, p0):
        self.U, self.mem = U, mem
        mk = lambda n: z3.Function(n, z3.BitVecSort(core.W), z3.BitVecSort(core.W))
        self.fP, self.fI, self.fF = mk("P"), mk("IDX"), mk("FL")
        c = core.ctx()
        zero = z3.BitVecVal(0, core.W)
        c.add_fact(self.fP(zero) == core.SymInt.lift(p0).t)
        c.add_fact(self.fI(zero) == 0)

    def _app(self, f, k, lo, hi):
        t = f(core.SymInt.lift(k).t)
        core.ctx().add_fact(z3.And(t >= lo, t <= hi))
        return core.SymInt(t, lo, hi)

    def P(self, k):
        return self._app(self.fP, k, 0, ubuf.MAXLEN + (1 << 36))

    def IDX(self, k):
        return self._app(self.fI, k, 0, 1 << 62)

    def FL(self, k):
        return self._app(self.fF, k, 0, 1 << 32)

    def define_at(self, k):
        """defining equations of P(k+1), IDX(k+1), FL(k) from the bytes at P(k)"""
        p = self.P(k)
        b1 = [self.mem.byte(p + i) for i in range(5)]
        v1, n1 = LEB.uleb32(b1), LEB.leb_len(b1)
        b2 = [self.mem.byte(p + n1 + i) for i in range(5)]
        v2, n2 = LEB.uleb32(b2), LEB.leb_len(b2)
        c = core.ctx()
        c.add_fact((self.P(k + 1) == p + n1 + n2).t)
        c.add_fact((self.IDX(k + 1) == self.IDX(k) + v1).t)
        c.add_fact((self.FL(k) == v2).t)
        return n1


def _inv_members(spec, L, k):
    w, j, l = spec.G["world"], spec.G["j"], L["l"]
    return And(L["buff"].pos == w.P(k), L["prev"] == w.IDX(k), l.n == k,
               Implies(And(0 <= j, j < k), And(l.obs("idx", j) == w.IDX(j + 1), l.obs("flags", j) == w.FL(j))))


MEMBERS = LoopSpec("ClassDataItem._load_elements#0", invariant=_inv_members,
                   havoc={"prev": lambda s, L: s.G["U"].int("prev@", 0, 1 << 62)},
                   heap=("buff", "l"), const=("self", "Type", "cm", "size"),
                   at_iteration=lambda s, L, k: s.G["U"].assume(s.G["world"].define_at(k) == s.G["n1"]))


@unit("C05", covers=[(DEX, "ClassDataItem._load_elements"), (DEX, "EncodedField.__init__"), (DEX, "EncodedField.adjust_idx"),
                     (DEX, "readuleb128")],
      loops={(DEX, "ClassDataItem._load_elements", 0): MEMBERS}, samples=60, max_paths=4000, params=[{"n1": k} for k in (1, 2, 3, 4, 5)],
      note="loop contract: a field group of any size in a file of any length; real EncodedField constructor and LEB128 reader "
           "(every 1..5-byte encoding; the arbitrary iteration is split by the length n1 of the element's first LEB128, which is "
           "1..5 by definition); the element list is a ghost list observed through index and access flags")
def member_group_unbounded(U, n1):
    m = U.mod(DEX)
    cd = bare(m.ClassDataItem)
    if U.mode != "sym":
        n = U.int("n", 0, 6)
        diffs = [U.int("d%d" % i, 0, 70000) for i in range(n)]
        flags = [U.int("a%d" % i, 0, 1 << 20) for i in range(n)]
        data = b"".join(LEB.uleb_encode(d) + LEB.uleb_encode(a) for d, a in zip(diffs, flags)) + b"\x55"
        buff, out = U.stream(data), []
        o = U.call(cd._load_elements, n, out, m.EncodedField, buff, _CM(U.packer()))
        U.ensures("does not raise", o.ok, exc=repr(o.exc))
        if o.ok:
            run, want = 0, []
            for d in diffs:
                run += d
                want.append(run)
            U.ensures("indices are the prefix sums of the differences, flags as encoded, exactly the group is consumed",
                      [e.get_field_idx() for e in out] == want and [e.get_access_flags() for e in out] == flags and buff.tell() == len(data) - 1)
        return
    mem = ubuf.SymMem("file")
    buf = ubuf.SymBuf(mem, 0, U.int("len", 0, ubuf.MAXLEN))
    p0 = U.int("p0", 0, ubuf.MAXLEN)
    buff = ubuf.SymStreamU(buf, p0, "buff")
    size = U.int("size", 0, 1 << 32)
    j = U.int("j", 0, 1 << 32)
    world = _Members(U, mem, p0)
    lst = GhostList("members", {"idx": (lambda e: e.get_field_idx(), 0, 1 << 62), "flags": (lambda e: e.get_access_flags(), 0, 1 << 32)})
    MEMBERS.G = {"U": U, "world": world, "j": j, "n1": n1}
    o = U.call(cd._load_elements, size, lst, m.EncodedField, buff, _CM(U.packer()))
    if not o.ok:
        U.ensures("the only failure is the end of the data (struct.error)", o.raised(m.__pyvc_struct__.error), exc=repr(o.exc))
        return
    U.cover("the whole group is read")
    U.ensures("the list has exactly `size` elements and the stream stands behind the group", And(lst.n == size, buff.pos == world.P(size)))
    U.ensures("element j carries the sum of the index differences up to and including its own, and its own access flags",
              Implies(And(0 <= j, j < size), And(lst.obs("idx", j) == world.IDX(j + 1), lst.obs("flags", j) == world.FL(j))))


# ------------------------------------------------------------------------------------------------
# Bounded (model-based): random class models -> independent DEX writer (specs/dexwriter.py) -> real parser -> object model compared
# with the model itself (the quantifier of the property: 0..N classes, random identifiers, primitive / array / class types, wide
# parameters, index-diff encoded member lists, abstract / native methods without code)
from specs import dexwriter as DWR  # noqa: E402

_IDENT = ["a", "b", "Foo", "Bar", "x1", "$inner", "été", "日本", "zz_9", "I", "J", "V", "main", "this$0", "<init>", "<clinit>", "access$000"]
_PRIM = ["I", "J", "Z", "B", "S", "C", "F", "D"]


def _rand_dex_model(rng):
    ncls = rng.choice([0, 1, 1, 2, 3, 5])
    names = []
    while len(names) < ncls:
        n = "L" + "/".join(rng.choice(["p", "q", "com", "α", "a1"]) for _ in range(rng.randint(0, 2)))
        n = (n + "/" if len(n) > 1 else n) + rng.choice(["A", "B", "C", "Cls", "A$1", "Ü", "I", "Z9"]) + str(rng.randint(0, 3)) + ";"
        if n not in names:
            names.append(n)
    ext = ["Ljava/lang/Object;", "Ljava/lang/Runnable;", "Ljava/io/Serializable;", "Lext/Base;"]

    def rtype(void=False):
        r = rng.random()
        if void and r < 0.3:
            return "V"
        if r < 0.5:
            return rng.choice(_PRIM)
        if r < 0.7:
            return "[" * rng.randint(1, 3) + rng.choice(_PRIM + ["Ljava/lang/String;"] + names[:1])
        return rng.choice(["Ljava/lang/String;", "Ljava/lang/Object;"] + names)
    classes = []
    for n in names:
        c = {"name": n, "access": rng.choice([0x1, 0x0, 0x11, 0x401, 0x601, 0x4011, 0x1001]),
             "super": rng.choice(["Ljava/lang/Object;", "Ljava/lang/Object;", "Lext/Base;"] + [x for x in names if x != n]),
             "interfaces": rng.sample(ext[1:3] + [x for x in names if x != n], rng.choice([0, 0, 1, 2])) if True else [],
             "source": rng.choice([None, "A.java", "é.kt", "x"]), "sfields": [], "ifields": [], "dmethods": [], "vmethods": []}
        c["interfaces"] = c["interfaces"][:2]
        if rng.random() < 0.08:
            c["super"] = None          # superclass_idx = NO_INDEX: the class has no superclass (java.lang.Object in core files)
        seen_f, seen_m = set(), set()
        if rng.random() < 0.2:
            # two fields whose (class + name + type) concatenations coincide: x : LaLb;  and  xLa : Lb;
            c["ifields"] += [("x", "LaLb;", 0x1), ("xLa", "Lb;", 0x2)]
            seen_f.update([("x", "LaLb;"), ("xLa", "Lb;")])
        for key, flagsets in (("sfields", [0x8, 0x9, 0x19, 0x1A, 0x4018]), ("ifields", [0x0, 0x1, 0x2, 0x12, 0x84, 0x1010])):
            for _ in range(rng.choice([0, 0, 1, 2, 4, 7])):
                f = (rng.choice(_IDENT[:13] + ["this$0"]), rtype())
                if f in seen_f:
                    continue
                seen_f.add(f)
                c[key].append((f[0], f[1], rng.choice(flagsets)))
        for key, flagsets in (("dmethods", [0x8, 0x9, 0xA, 0x2, 0x10008, 0x10001, 0x109]), ("vmethods", [0x1, 0x4, 0x11, 0x401, 0x101, 0x1041, 0x21])):
            for _ in range(rng.choice([0, 0, 1, 2, 3, 6])):
                nm = rng.choice(_IDENT)
                ret = rtype(void=True)
                params = [rtype() for _ in range(rng.choice([0, 0, 1, 2, 4]))]
                if (nm, ret, tuple(params)) in seen_m:
                    continue
                seen_m.add((nm, ret, tuple(params)))
                acc = rng.choice(flagsets)
                code = None
                if not acc & 0x500:        # abstract / native methods have no code
                    ins = sum(2 if p in ("J", "D") else 1 for p in params) + (0 if acc & 0x8 else 1)
                    regs = ins + rng.randint(0, 3)
                    body = rng.choice([b"\x0e\x00", b"\x00\x00\x0e\x00", b"\x12\x00\x0e\x00", b"\x00\x00\x00\x00\x00\x00\x0e\x00"])
                    code = dict(registers=regs, ins=ins, outs=rng.randint(0, 2), insns=body)
                c[key].append((nm, ret, params, acc, code))
        classes.append(c)
    return classes


def _expected(classes):
    out = []
    for c in classes:
        desc = lambda m: "(" + " ".join(m[2]) + ")" + m[1]
        e = {"name": c["name"], "access": c["access"], "super": c["super"], "interfaces": list(c["interfaces"]), "source": c["source"]}
        for key in ("sfields", "ifields"):
            e[key] = sorted((c["name"], f[0], f[1], f[2]) for f in c[key])
        for key in ("dmethods", "vmethods"):
            e[key] = sorted(((c["name"], m[0], desc(m), m[3], None if m[4] is None else
                              (m[4]["registers"], m[4]["ins"], m[4]["outs"], m[4]["insns"])) for m in c[key]), key=repr)
        out.append(e)
    return out


@unit("C05", covers=[(DEX, "DEX._load"), (DEX, "ClassDefItem.reload"), (DEX, "ClassManager.get_type"), (DEX, "ClassManager.get_proto"),
                     (DEX, "ClassManager.get_field"), (DEX, "ClassManager.get_method"), (DEX, "ClassDataItem._load_elements"),
                     (DEX, "DEX.get_class"), (DEX, "DEX.get_encoded_method_descriptor"), (DEX, "DEX.get_encoded_field_descriptor"),
                     (DEX, "DEX.get_encoded_methods_class"), (DEX, "DEX.get_encoded_fields_class"), (DEX, "EncodedMethod.__init__"),
                     (DEX, "ProtoIdItem.get_parameters_off_value"), (DEX, "TypeList.__init__")],
      level="bounded", samples=150,
      note="seeded random class models (0..5 classes, identifiers incl. non-ASCII / $ / <init>, primitive, array and class types, wide "
           "parameters, fields of equal name and different type, overloaded methods, abstract / native methods without code, interfaces, "
           "optional source file) serialised by the independent DEX writer; two files per sample are parsed in one process")
def generated_dex(U):
    m = U.mod(DEX)
    seed = U.int("seed", 0, 1 << 30)
    rng = random.Random(seed)
    for rnd in range(2):            # the second file reuses offsets / indices of the first: per-file state must not leak
        classes = _rand_dex_model(rng)
        data = DWR.write(classes)
        o = U.call(lambda: m.DEX(data))
        U.ensures("parses", o.ok, exc=repr(o.exc)[:300], file=rnd)
        if not o.ok:
            return
        d = o.value
        got = _model(d)
        for g in got:
            for key in ("sfields", "ifields"):
                g[key] = sorted(g[key])
            for key in ("dmethods", "vmethods"):
                g[key] = sorted(g[key], key=repr)
        want = _expected(classes)
        U.ensures("exactly the declared classes, in file order", [g["name"] for g in got] == [w["name"] for w in want], got=[g["name"] for g in got])
        for g, w in zip(got, want):
            for key in ("access", "super", "interfaces", "sfields", "ifields", "dmethods", "vmethods"):
                U.ensures("class %s as declared" % key, g[key] == w[key], cls=g["name"], got=str(g[key])[:300], want=str(w[key])[:300], file=rnd,
                          unless=[U.known("KF-C05-1", key == "super" and w["super"] is None)])
            if w["source"] is not None:
                U.ensures("source file name", g["source"] == w["source"], cls=g["name"], got=g["source"])
        for w in want:
            c = d.get_class(w["name"])
            U.ensures("get_class finds every declared class", c is not None and c.get_name() == w["name"], cls=w["name"])
            for f in w["sfields"] + w["ifields"]:
                ef = d.get_encoded_field_descriptor(f[0], f[1], f[2])
                U.ensures("field lookup by (class, name, type) returns the declared field",
                          ef is not None and (ef.get_class_name(), ef.get_name(), ef.get_descriptor(), ef.get_access_flags()) == f, field=f[:3])
            for me in w["dmethods"] + w["vmethods"]:
                em = d.get_encoded_method_descriptor(me[0], me[1], me[2])
                U.ensures("method lookup by (class, name, descriptor) returns the declared method",
                          em is not None and (em.get_class_name(), em.get_name(), em.get_descriptor(), em.get_access_flags()) == me[:4], method=me[:3])
            got_m = sorted((x.get_name(), x.get_descriptor()) for x in d.get_encoded_methods_class(w["name"]))
            U.ensures("methods of a class by class name", got_m == sorted((me[1], me[2]) for me in w["dmethods"] + w["vmethods"]), cls=w["name"])
            got_f = sorted((x.get_name(), x.get_descriptor()) for x in d.get_encoded_fields_class(w["name"]))
            U.ensures("fields of a class by class name", got_f == sorted((f[1], f[2]) for f in w["sfields"] + w["ifields"]), cls=w["name"])
        import re as _re
        for w in want[:2]:
            for me in (w["dmethods"] + w["vmethods"])[:3]:
                r = U.call(d.get_encoded_method, "^" + _re.escape(me[1]) + "$")
                wantn = sorted((x[0], x[1], x[2]) for ww in want for x in ww["dmethods"] + ww["vmethods"] if x[1] == me[1])
                U.ensures("lookup of encoded methods by name (regular expression) on a freshly parsed file",
                          r.ok and sorted((x.get_class_name(), x.get_name(), x.get_descriptor()) for x in r.value) == wantn,
                          name=me[1], got=repr(r.exc) if not r.ok else len(r.value))
        r = U.call(d.get_method, ".*")
        U.ensures("lookup of method ids by name (regular expression) does not raise", r.ok, exc=repr(r.exc)[:100])
        r = U.call(d.get_field, ".*")
        U.ensures("lookup of field ids by name (regular expression) does not raise", r.ok, exc=repr(r.exc)[:100])
        U.ensures("a triple that names nothing finds nothing (no key confusion)",
                  all(d.get_encoded_field_descriptor(f[0] + f[1], "", f[2]) is None for w in want for f in (w["sfields"] + w["ifields"])[:2]))
        U.ensures("lookups of undeclared items return None", d.get_class("Lno/Such;") is None and
                  d.get_encoded_method_descriptor("Lno/Such;", "x", "()V") is None and d.get_encoded_field_descriptor("Lno/Such;", "x", "I") is None)
