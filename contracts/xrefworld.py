"""Stub world for the xref suite (C13-C16, C40): duck-typed DEX / class / method / field /
instruction objects on which the real Analysis.add, create_xref, _create_xref,
_resolve_method and the ClassAnalysis/MethodAnalysis/FieldAnalysis/StringAnalysis adders run.
The expected cross-references are computed from the world description, not from androguard."""

INVOKES = list(range(0x6E, 0x73)) + list(range(0x74, 0x79))
FIELD_READ = list(range(0x52, 0x59)) + list(range(0x60, 0x67))
FIELD_WRITE = list(range(0x59, 0x60)) + list(range(0x67, 0x6E))


class Ins:
    def __init__(self, op, ref, vm_holder):
        self.op, self.ref = op, ref
        self.cm = vm_holder

    def get_op_value(self):
        return self.op

    def get_ref_kind(self):
        return self.ref

    def get_length(self):
        return 4

    def get_name(self):
        return "ins"


class _Holder:
    def __init__(self):
        self.vm = None


class Field:
    def __init__(self, cls, name, desc):
        self.cls, self.name, self.desc = cls, name, desc

    def get_class_name(self):
        return self.cls

    def get_name(self):
        return self.name

    def get_descriptor(self):
        return self.desc

    def get_access_flags_string(self):
        return "public"

    def __repr__(self):
        return "F(%s->%s)" % (self.cls, self.name)


class Method:
    def __init__(self, cls, name, desc):
        self.cls, self.name, self.desc = cls, name, desc
        self.ins = []   # (off, Ins)

    def get_class_name(self):
        return self.cls

    def get_name(self):
        return self.name

    def get_descriptor(self):
        return self.desc

    def get_code(self):
        return None

    def get_code_off(self):
        return 0

    def get_access_flags_string(self):
        return "public"

    def get_instructions_idx(self):
        return iter(list(self.ins))

    def get_instructions(self):
        return iter([i for _, i in self.ins])

    def __repr__(self):
        return "M(%s->%s%s)" % (self.cls, self.name, self.desc)


class Class:
    def __init__(self, name):
        self.name = name
        self.methods, self.fields = [], []

    def get_name(self):
        return self.name

    def get_methods(self):
        return self.methods

    def get_fields(self):
        return self.fields

    def get_class_data_off(self):
        return 0

    def get_superclassname(self):
        return "Ljava/lang/Object;"

    def get_interfaces(self):
        return []

    def get_access_flags_string(self):
        return "public"


class VM:
    """one DEX: its classes and its constant pools (type/method/string/field tables)"""
    version = 35

    def __init__(self, name):
        self.name = name
        self.classes = []
        self.types, self.methods, self.strings, self.fields = [], [], [], []
        self.holder = _Holder()
        self.holder.vm = self

    def get_classes(self):
        return self.classes

    def get_strings(self):
        return list(self.strings)

    def get_hidden_api(self):
        return None

    def get_cm_type(self, idx):
        return self.types[idx]

    def get_cm_method(self, idx):
        c, n, d = self.methods[idx]
        return [c, n, [d]]

    def get_cm_string(self, idx):
        return self.strings[idx]

    def get_cm_field(self, idx):
        c, n, t = self.fields[idx]
        return [c, t, n]

    def get_encoded_field_descriptor(self, cls, name, desc):
        for c in self.classes:
            if c.get_name() == cls:
                for f in c.get_fields():
                    if f.get_name() == name and f.get_descriptor() == desc:
                        return f
        return None

    # pool helpers
    def _idx(self, table, v):
        if v not in table:
            table.append(v)
        return table.index(v)

    def emit(self, method, off, kind, target, op=None):
        """append one instruction to `method`: kind in invoke/string/new/constclass/read/write/other"""
        if kind == "invoke":
            ins = Ins(op or 0x6E, self._idx(self.methods, tuple(target)), self.holder)
        elif kind == "string":
            ins = Ins(op or 0x1A, self._idx(self.strings, target), self.holder)
        elif kind == "new":
            ins = Ins(0x22, self._idx(self.types, target), self.holder)
        elif kind == "constclass":
            ins = Ins(0x1C, self._idx(self.types, target), self.holder)
        elif kind == "read":
            ins = Ins(op or 0x52, self._idx(self.fields, tuple(target)), self.holder)
        elif kind == "write":
            ins = Ins(op or 0x59, self._idx(self.fields, tuple(target)), self.holder)
        else:
            ins = Ins(op or 0x12, 0, self.holder)
        method.ins.append((off, ins))
        return ins


def make_world(split):
    """classes LA; LB; LC; (each: methods m1()V m2()V, fields f:I g:I) distributed over DEX files per `split`
    (a list of lists of class names).  returns (vms, index) with index[name] -> Class"""
    vms, index = [], {}
    for k, names in enumerate(split):
        vm = VM("dex%d" % k)
        for n in names:
            c = Class(n)
            c.methods = [Method(n, "m1", "()V"), Method(n, "m2", "()V")]
            c.fields = [Field(n, "f", "I"), Field(n, "g", "I")]
            vm.classes.append(c)
            index[n] = c
        vms.append(vm)
    return vms, index


def vm_of(vms, cls):
    for vm in vms:
        if any(c.get_name() == cls for c in vm.classes):
            return vm
    return None
