"""C11  The control-flow graph has exactly the successors the bytecode allows (DESIGN §7 C11)."""
from contracts import cfgsuite as S, cfgworld as W
from pyvc.core import And, Eq, Implies, Ite, Not, Or
from pyvc.unit import unit

ANA, DEX = S.ANA, S.DEX
META = {
    "technique": 'contract-based deductive verification: symbolic execution of the real functions against sidecar contracts (z3/cvc5) for the proved units; bounded contract evaluation (enumerated scope / independent writer) for the rest',
    "level": "other",
    "partial": True,
    "level_text": "Proof (leaf): DEXBasicBlock.set_childs / set_fathers over a symbolic three-block partition and symbolic successor "
                  "offsets: children are exactly the blocks containing each offset != -1 (the next block when the list is empty), and "
                  "every child records the parent. determineNext is proved in C10. Bounded (composition): successor and predecessor "
                  "sets of every block of every enumerated small method are compared with the Dalvik successor rule.",
    "trusted": ["stub EncodedMethod/DalvikCode around the real DCode (contracts/cfgworld.py)"],
    "explanation": "set_childs/set_fathers proved; composition bounded: " + S.NOTE,
    "assumptions": ["switch payloads 4-byte aligned (DEX rule); targets inside an instruction are outside the statement"],
}


class _MS:
    def get_name(self):
        return "m"


class _L:
    def __init__(self, n):
        self.n = n

    def get_length(self):
        return self.n

    def get_op_value(self):
        return 0x12


@unit("C11", covers=[(ANA, "DEXBasicBlock.set_childs"), (ANA, "DEXBasicBlock.set_fathers")],
      params=[{"nvals": k} for k in (0, 1, 2)], samples=80)
def set_childs(U, nvals):
    ana = U.mod(ANA)
    bbs = ana.BasicBlocks()
    lens = [U.int("len%d" % i, 1, 40) * 2 for i in range(3)]
    blocks, start = [], 0
    for i in range(3):
        b = ana.DEXBasicBlock(start, None, _MS(), bbs)
        bbs.push(b)
        b.push(_L(lens[i] - 2) if False else _L(lens[i]))
        blocks.append(b)
        start = b.get_end()
    total = start
    vals = [U.int("v%d" % i, -1, 400) for i in range(nvals)]
    which = U.choice("which", [0, 1, 2])
    me = blocks[which]
    o = U.call(me.set_childs, list(vals))
    U.ensures("does not raise", o.ok, exc=repr(o.exc))

    def containing(x):
        r = None
        for b in reversed(blocks):
            r = Ite(And(x >= b.get_start(), x < b.get_end()), blocks.index(b), -2 if r is None else r)
        return r

    kids = me.childs
    if nvals == 0:
        want = [which + 1] if which < 2 else []
        U.ensures("empty successor list: the next block (if any)", [blocks.index(c[2]) for c in kids] == want)
    else:
        # every value != -1 that lies in some block yields that block, in order; nothing else
        exp = [containing(v) for v in vals]
        flags = [And(v != -1, e != -2) for v, e in zip(vals, exp)]
        idx = 0
        conj = []
        # walk: fork on which values produce a child
        produced = []
        for v, e, f in zip(vals, exp, flags):
            if f:                      # forks
                produced.append(e)
        conj.append(len(kids) == len(produced))
        for c, e in zip(kids, produced):
            conj.append(blocks.index(c[2]) == e)
        U.ensures("children are exactly the blocks containing the successor offsets", And(*conj))
    for c in kids:
        U.ensures("each child lists this block as a predecessor", any(f[2] is me for f in c[2].fathers))
    U.ensures("child entries carry the branch instruction's offset", all(c[0] == me.get_end() - me.get_last_length() for c in kids))


def _expected_succ(prog, bl, offs):
    """block index -> set of successor block starts, by the Dalvik rule"""
    ends = set(offs)
    by_start = {b.get_start(): b for b in bl}
    res = {}
    body = {prog.offs[i]: i for i in range(len(prog.items))}
    for b in bl:
        last = max(x for x in offs if b.get_start() <= x < b.get_end())
        succ = set()
        nxt = b.get_end() if b.get_end() < prog.total else None
        if last in body:
            i = body[last]
            k = prog.items[i][0]
            if k in ("ret", "throw"):
                pass
            elif k == "goto":
                succ.update(prog.branch_targets(i))
            elif k in ("ifz", "pswitch", "sswitch"):
                succ.update(prog.branch_targets(i))
                if nxt is not None:
                    succ.add(nxt)
            elif nxt is not None:
                succ.add(nxt)
        elif nxt is not None:
            succ.add(nxt)       # padding / payload pseudo-instructions fall through
        res[b.get_start()] = succ
    return res


@unit("C11", covers=[(ANA, "MethodAnalysis._create_basic_block"), (ANA, "DEXBasicBlock.set_childs"), (ANA, "DEXBasicBlock.set_fathers"),
                     (DEX, "determineNext")], params=S.PARAMS, level="bounded", note=S.NOTE)
def successors(U, chunk):
    prog, meth, o = S.build(U)
    d = S.describe(prog)
    if not o.ok:
        U.ensures("analysis does not raise", False, exc=repr(o.exc), **d)
        return
    bl = S.blocks_of(o.value)
    offs = prog.ins_offsets()
    valid = set(offs)
    exp = _expected_succ(prog, bl, offs)
    skip = any(t not in valid and 0 <= t < prog.total for s in exp.values() for t in s)
    if skip:
        return                    # a target inside an instruction: outside the statement
    preds = {b.get_start(): set() for b in bl}
    for b in bl:
        got = {c[2].get_start() for c in b.childs}
        want = {t for t in exp[b.get_start()] if t in valid}
        U.ensures("successors are exactly the in-method targets of the block's last instruction", got == want,
                  block=b.get_start(), got=sorted(got), want=sorted(want), **d)
        U.ensures("each successor entry points at a block start", all(c[1] == c[2].get_start() for c in b.childs if c[1] in valid),
                  block=b.get_start(), **d)
        for t in want:
            preds[t].add(b.get_start())
    for b in bl:
        gotp = {f[2].get_start() for f in b.fathers}
        U.ensures("predecessors are the inverse of the successor relation", gotp == preds[b.get_start()],
                  block=b.get_start(), got=sorted(gotp), want=sorted(preds[b.get_start()]), **d)


successors.enumerate_inputs = lambda tier, chunk: S.enumerator(tier, chunk)
