"""C38  Cleaned file names are portable (DESIGN §7 C38)."""
import os

from pyvc.core import And, Eq, Implies, Ite, Not, Or
from pyvc.osmodel import FS, OsModel
from pyvc.remodel import ReModel
from pyvc.strings import SymStr, mk
from pyvc.text import atoms
from pyvc.unit import unit

MISC = "androguard/misc.py"
RESERVED = [ord(c) for c in '<>:"/\\|?*']
MAXLEN = 230
META = {
    "technique": 'contract-based deductive verification: symbolic execution of the real functions against sidecar contracts (z3/cvc5) for the proved units; bounded contract evaluation (enumerated scope / independent writer) for the rest',
    "level": "other",
    "partial": True,
    "level_text": "Proof (all contents, bounded length): clean_file_name is executed on paths of 1..6 symbolic code points (any "
                  "character, including '/', NUL, dots and spaces), with and without a colliding existing file; the real regular "
                  "expressions run on the proxy string through a regex matcher model, os.path through a posixpath model. Proved: no "
                  "reserved/control character, no trailing dot/space, same directory, not an existing file. Bounded: the length "
                  "clause (<= 230) and truncation behaviour are run concretely on enumerated names of 225..300 characters with "
                  "extensions and collisions.",
    "trusted": ["regex matcher model (pyvc/remodel.py) = CPython re for the patterns used", "posixpath model (pyvc/osmodel.py)",
                "os.path.isfile = membership in an explicit finite set of existing files"],
    "explanation": "character-level clauses proved for all short names; length/truncation clauses bounded (enumerated long names).",
    "assumptions": ["POSIX branch only (force_nt=False, os.name == 'posix')", "termination of the uniqueness loop is assumed "
                    "(finitely many existing files)"],
}


class _HybridPath:
    def __init__(self, fs):
        self.fs = fs

    def isfile(self, p):
        return self.fs.isfile(p)

    def __getattr__(self, n):
        return getattr(os.path, n)


class _HybridOs:
    name = "posix"

    def __init__(self, fs):
        self.path = _HybridPath(fs)

    def __getattr__(self, n):
        return getattr(os, n)


class FirstK(FS):
    """the first k distinct names asked for exist (and keep existing)"""

    def __init__(self, k):
        super().__init__()
        self.k = k

    def isfile(self, p):
        for f in self.files:
            if f == p:
                return True
        if len(self.files) < self.k:
            self.files.append(p)
            return True
        return False


def _run(U, m, filename, k, unique=True, fs=None):
    fs = fs or FirstK(k)
    saved = m.os, getattr(m, "re")
    swapped = {}
    if U.mode == "sym":
        m.os, m.re = OsModel(fs), ReModel()
        # patterns the module compiled when it was loaded (with the real `re`): the same patterns of the matcher model
        import re as _real_re
        for gname, g in list(vars(m).items()):
            if isinstance(g, _real_re.Pattern) and isinstance(g.pattern, str) and not (g.flags & ~_real_re.UNICODE):
                swapped[gname] = g
                setattr(m, gname, m.re.compile(g.pattern))
        if not U.substitutions:
            U.substitutions.append("androguard.misc.os := posixpath model + explicit file set; androguard.misc.re := regex matcher model")
    else:
        m.os = _HybridOs(fs)
    try:
        o = U.call(m.clean_file_name, filename, unique)
    finally:
        m.os, m.re = saved
        for gname, g in swapped.items():
            setattr(m, gname, g)
    return o, fs


def _cps(s):
    a = atoms(s)
    if any(isinstance(x, tuple) for x in a):
        raise AssertionError("unexpected number hole in a file name")
    return a


def _split(cps):
    """(dir code points, last component code points) -- forks on proxies"""
    i = len(cps)
    while i > 0 and not bool(cps[i - 1] == 0x2F):
        i -= 1
    return cps[:i], cps[i:]


def _clauses(U, o, fs, filename, unique, long_ok=True):
    U.ensures("does not raise", o.ok, exc=repr(o.exc))
    if not o.ok:
        return
    res = _cps(o.value)
    rdir, last = _split(res)
    idir, ilast = _split(_cps(filename))
    U.ensures("(a) no reserved or control character in the file name",
              And(*[And(c > 0x1F, *[c != r for r in RESERVED]) for c in last]), name=o.value if U.mode == "conc" else None)
    U.ensures("(d) stays in the input's directory", Eq(mk(rdir).rstrip("/") if rdir else "", mk(idir).rstrip("/") if idir else "")
              if U.mode == "conc" else _same_dir(rdir, idir))
    if last:
        U.ensures("(b) does not end with a space or a dot", And(last[-1] != 0x20, last[-1] != 0x2E),
                  name=o.value if U.mode == "conc" else None)
    U.ensures("(c) at most 230 characters", len(last) <= MAXLEN,
              n=len(last))
    if unique:
        U.ensures("(e) does not name an existing file", Not(Or(*[_eq(f, o.value) for f in fs.files])))


def _eq(a, b):
    from pyvc.text import text_eq
    return text_eq(a, b)


def _same_dir(rdir, idir):
    # posix split keeps the head without trailing slashes unless it is all slashes
    def norm(d):
        j = len(d)
        while j > 0 and bool(d[j - 1] == 0x2F):
            j -= 1
        return d[:j] if j else d
    a, b = norm(rdir), norm(idir)
    return Eq(a, b)


@unit("C38", covers=[(MISC, "clean_file_name")], params=[{"n": n, "k": k} for n in range(1, 7) for k in (0, 1)],
      samples=150, max_paths=60000, timeout_ms=60000)
def short_names(U, n, k):
    m = U.mod(MISC)
    s = U.str("path", n)
    o, fs = _run(U, m, s, k)
    _clauses(U, o, fs, s, True)


@unit("C38", covers=[(MISC, "clean_file_name")], params=[{"n": n, "extra": e} for n in (1, 2, 3, 4) for e in (0, 2)],
      samples=300, max_paths=60000, timeout_ms=60000,
      note="the file system holds one file with an ARBITRARY name (symbolic, n or n+2 characters): whatever it is, the result must "
           "not name it -- including names that only come into being by the final clean-up of the candidate")
def any_existing_file(U, n, extra):
    m = U.mod(MISC)
    s = U.str("path", n)
    if U.mode == "sym":
        f = U.str("file", n + extra)
    else:
        # concrete sampling: the interesting existing names are close to the input
        plain = U.str("file", n + extra)
        base = s if not extra else s + "_0"
        cands = [plain, base, base[:-1] + "_", base[:-1] + " ", s[:-1] + "_" + ("_0" if extra else "")]
        replaying = bool(U.given) and "file" in U.given and "near" not in U.given       # a counter-model names the file itself
        f = plain if replaying else U.choice("near", cands)
    fs = FS(files=[f])
    o, fs = _run(U, m, s, 0, fs=fs)
    _clauses(U, o, fs, s, True)


def _long_enum(tier, **_):
    exts = ["", ".x", ".tar.gz", "." + "e" * 40, "." + "e" * 228, "." + "e" * 240, " .y", ". "]
    for base in (224, 225, 226, 228, 229, 230, 231, 232, 260, 300):
        for fill in ("a", "a b", "a.", " ", "CONa", "LPT1x"):          # the last two: names starting with a reserved device name
            for ext in exts:
                for k in (0, 1, 2, 11):
                    yield {"base": base, "fill": fill, "ext": ext, "k": k}


@unit("C38", covers=[(MISC, "clean_file_name")], level="bounded",
      note="names of 224..300+ characters x fill patterns (incl. names starting with a reserved device name) x extensions (incl. very "
           "long ones) x 0/1/2/11 colliding files")
def long_names(U):
    m = U.mod(MISC)
    g = U.given or {"base": 231, "fill": "a", "ext": ".x", "k": 1}
    U.drawn.update(g)
    fill = (g["fill"] * g["base"])[:g["base"]]
    name = "dir/sub/" + fill + g["ext"]
    o, fs = _run(U, m, name, g["k"])
    _clauses(U, o, fs, name, True)


long_names.enumerate_inputs = lambda tier, **p: _long_enum(tier)


@unit("C38", covers=[(MISC, "clean_file_name")])
def replacement_character(U):
    """a replacement that is itself reserved is refused"""
    m = U.mod(MISC)
    bad = U.choice("bad", list('<>:"/\\|?* .') + ["\x00", "\x1f"])
    o = U.call(m.clean_file_name, "x", True, bad)
    U.ensures("reserved replacement raises ValueError", o.raised(ValueError))
