"""C01  Dalvik instruction decoding is faithful for every operand encoding (DESIGN §7 C01)."""
from pyvc.core import And, Eq, Implies, Ite, Not, Or
from pyvc.unit import unit
from specs import dalvik_formats as F

DEX = "androguard/core/dex/__init__.py"
META = {
    "level": "proof",
    "level_text": "For each of the 256 opcodes the real constructor (through get_instruction and the real dispatch table) and the "
                  "real get_length/get_raw/get_operands/get_literals/get_ref_off/get_ref_kind are executed on a buffer whose "
                  "operand bytes are all symbolic (every bit pattern, plus trailing bytes); each result is proved equal to the "
                  "Dalvik-spec decoder of specs/dalvik_formats.py, and get_raw() equal to the input bytes. Short buffers and the "
                  "unused opcodes are proved to raise InvalidInstruction.",
    "trusted": ["struct model (pyvc/models.py)", "ClassManager stand-in: packer = DalvikPacker('<'), pool resolvers are opaque "
                "(the obligation is that the right resolver is asked for the right index)"],
    "assumptions": ["invoke-polymorphic (45cc/4rcc): get_operands/get_ref_kind are not implemented in the repository (FIXME in source); "
                    "only length, validity and byte round trip are under contract for these two opcodes"],
}

CLASSES = sorted({"Instruction" + f for f in set(F.FMT.values()) if f != "unused"} | {"Instruction00x"})
COVERS = [(DEX, "get_instruction"), (DEX, "DALVIK_OPCODES_FORMAT", "global"), (DEX, "Instruction.get_length"),
          (DEX, "Instruction.get_kind"), (DEX, "Instruction.get_literals")]
for _c in CLASSES:
    COVERS.append((DEX, _c + ".__init__"))
    if _c != "Instruction00x":
        COVERS.append((DEX, _c + ".get_raw"))
for _c, _ms in {"35c": ["get_operands", "get_ref_kind"], "21h": ["get_operands", "get_literals"],
                "11n": ["get_operands", "get_literals"], "21c": ["get_operands", "get_ref_kind"],
                "21s": ["get_operands", "get_literals"], "22c": ["get_operands", "get_ref_kind"],
                "31t": ["get_operands", "get_ref_off"], "31c": ["get_operands", "get_ref_kind"],
                "12x": ["get_operands"], "11x": ["get_operands"], "51l": ["get_operands", "get_literals"],
                "31i": ["get_operands", "get_literals"], "22x": ["get_operands"], "23x": ["get_operands"],
                "20t": ["get_operands", "get_ref_off"], "21t": ["get_operands", "get_ref_off"],
                "10t": ["get_operands", "get_ref_off"], "22t": ["get_operands", "get_ref_off"],
                "22s": ["get_operands", "get_literals"], "22b": ["get_operands", "get_literals"],
                "30t": ["get_operands", "get_ref_off"], "3rc": ["get_operands", "get_ref_kind"],
                "32x": ["get_operands"]}.items():
    for _m in _ms:
        COVERS.append((DEX, "Instruction%s.%s" % (_c, _m)))


class PoolCM:
    """ClassManager stand-in: resolvers log (resolver, index) and return opaque placeholders"""

    def __init__(self, packer):
        self.packer = packer
        self.log = []

    def _tok(self, which, idx):
        self.log.append((which, idx))
        return "<%s#%d>" % (which, len(self.log))

    def get_string(self, idx):
        return self._tok("string", idx)

    def get_type(self, idx):
        return self._tok("type", idx)

    def get_field(self, idx):
        t = self._tok("field", idx)
        return [t + "c", t + "t", t + "n"]

    def get_method_ref(self, idx):
        t = self._tok("method", idx)

        class _M:
            def get_class_name(self):
                return t + "c"

            def get_name(self):
                return t + "n"

            def get_descriptor(self):
                return t + "d"

        return _M()

    def get_odex_format(self):
        return False


def _kind_value(m, pool):
    K = m.Kind
    return {"string": K.STRING, "type": K.TYPE, "field": K.FIELD, "method": K.METH, "proto": K.PROTO,
            "call_site": K.CALL_SITE}.get(pool)


@unit("C01", name="decode", covers=COVERS, params=[{"op": k} for k in range(256)], samples=12)
def decode(U, op):
    m = U.mod(DEX)
    cm = PoolCM(U.packer())
    b = U.buffer([op], "b", 11)            # 12 bytes: longest instruction (51l) is 10
    bl = list(b.items) if hasattr(b, "items") else list(b)
    d = F.decode(op, bl)
    o = U.call(m.get_instruction, cm, op, b)
    if d.fmt == "unused":
        U.ensures("unused opcode is rejected as InvalidInstruction", o.raised(m.InvalidInstruction))
        return
    if d.fmt == "45cc":
        # the repository additionally rejects A > 5 (reserved encodings); that is within the spec
        ok_cond = And(d.valid, d.reg_count <= 5)
    else:
        ok_cond = d.valid
    if o.exc is not None:
        U.ensures("rejects only encodings with a non-zero must-be-zero field, as InvalidInstruction",
                  And(Not(ok_cond), o.raised(m.InvalidInstruction)), exc=repr(o.exc))
        return
    ins = o.value
    U.ensures("accepts only valid encodings", ok_cond)
    n = 2 * d.units
    U.ensures("length is the format's length", U.call(ins.get_length).value == n)
    U.ensures("opcode value", U.call(ins.get_op_value).value == op)
    r = U.call(ins.get_raw)
    U.ensures("get_raw does not raise", r.ok, exc=repr(r.exc))
    if r.ok:
        raw = r.value
        U.ensures("get_raw has the format's length", len(raw) == n, n=len(raw))
        U.ensures("get_raw re-encodes to exactly the input bytes", Eq(list(raw), bl[:n]), raw=raw, inp=b)
    if d.fmt in ("45cc", "4rcc"):
        return
    # literals
    lits = U.call(ins.get_literals)
    U.ensures("get_literals", And(lits.ok, Eq(list(lits.value or []), d.literals) if lits.ok else False), got=lits.value)
    if d.ref_off is not None:
        ro = U.call(ins.get_ref_off)
        U.ensures("get_ref_off is the signed branch offset", And(ro.ok, ro.value == d.ref_off), got=ro.value)
    if d.ref_kind is not None:
        rk = U.call(ins.get_ref_kind)
        U.ensures("get_ref_kind is the unsigned pool index", And(rk.ok, rk.value == d.ref_kind), got=rk.value)
    # operands
    if d.reg_count is not None:
        U.assume(d.reg_count <= 5)   # A in 6..15 has no meaning in the specification
        cnt = d.reg_count if isinstance(d.reg_count, int) else d.reg_count.concretize()
        want = [("reg", x) for x in d.var_regs[:cnt]] + [("idx", d.ref_kind)]
    elif d.range is not None:
        first, count = d.range
        count = count if isinstance(count, int) else count.concretize()
        want = [("reg", first + i) for i in range(count)] + [("idx", d.ref_kind)]
    else:
        want = d.operands
    cm.log.clear()
    ops = U.call(ins.get_operands)
    U.ensures("get_operands does not raise", ops.ok, exc=repr(ops.exc))
    if not ops.ok:
        return
    got = ops.value
    U.ensures("operand count", len(got) == len(want), n=len(got))
    if len(got) != len(want):
        return
    O = m.Operand
    conj = []
    pool = F.POOL.get(op)
    for g, (tag, val) in zip(got, want):
        if tag == "reg":
            conj.append(And(len(g) == 2, g[0] == O.REGISTER, g[1] == val))
        elif tag == "lit":
            conj.append(And(len(g) == 2, g[0] == O.LITERAL, g[1] == val))
        elif tag == "off":
            conj.append(And(len(g) == 2, g[0] == O.OFFSET, g[1] == val))
        else:
            kv = _kind_value(m, pool)
            conj.append(And(len(g) == 3, g[1] == val, True if kv is None else g[0] == kv + O.KIND))
    U.ensures("operands are the spec's registers/literals/offsets/indices in order", And(*conj), got=[list(x[:2]) for x in got])
    if pool in ("string", "type", "field", "method"):
        U.ensures("the %s resolver is asked exactly for the encoded index" % pool,
                  And(len(cm.log) >= 1, *[And(w == pool, i == d.ref_kind) for w, i in cm.log]))


@unit("C01", name="short_buffer", covers=[(DEX, "get_instruction")], params=[{"op": k} for k in range(256)], samples=4)
def short_buffer(U, op):
    """a buffer shorter than the instruction is an invalid instruction, whatever it holds"""
    m = U.mod(DEX)
    fmt = F.FMT[op]
    n = 2 * F.UNITS[fmt] if fmt != "unused" else 2
    k = U.choice("len", list(range(1, n)))
    b = U.buffer([op], "b", k - 1)
    o = U.call(m.get_instruction, PoolCM(U.packer()), op, b)
    U.ensures("truncated instruction raises InvalidInstruction", o.raised(m.InvalidInstruction), exc=repr(o.exc))
