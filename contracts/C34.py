"""C34  APK file access returns the archive's entries (DESIGN §7 C34)."""
import ast
import itertools

from pyvc import loader, regex
from pyvc.core import And, Eq, Implies, Ite, Not, Or
from pyvc.unit import bare, unit

APKF = "androguard/core/apk/__init__.py"
META = {
    "technique": 'contract-based deductive verification: symbolic execution of the real functions against sidecar contracts (z3/cvc5) for the proved units; bounded contract evaluation (enumerated scope / independent writer) for the rest',
    "level": "other",
    "partial": True,
    "level_text": "Proof: the regular expressions used by get_dex_names / is_multidex are taken from the current source (AST) and "
                  "their languages under re.match / re.search semantics are proved equal (z3 regex theory, unbounded string length) "
                  "to 'classes[0-9]*\\.dex' resp. the same language; get_files/get_file/get_dex are executed on every behaviour of "
                  "an opaque zip reader (returns bytes / raises KeyError). Bounded: the filter/order/multidex logic is run on all "
                  "name lists of length <= 4 over a pool of 11 tricky names with a stub zip reader; real archives written by CPython's "
                  "zipfile (stored / deflated, ASCII and non-ASCII names, empty and 70 kB entries, extra fields) are opened with the "
                  "real APK constructor (apkInspector reader) and every entry's name and content, the DEX listing, get_dex and "
                  "is_multidex are compared with what was written.",
    "trusted": ["apkInspector ZipEntry.namelist()/read(): names are the archive entries, read returns the uncompressed content, "
                "KeyError for a missing name", "CPython re implements the regular language of its pattern (translation in pyvc/regex.py; "
                "\\d taken as ASCII digits)"],
    "explanation": "regex languages proved; reader delegation proved by path enumeration over an opaque reader; listing logic bounded.",
    "assumptions": ["Python's \\d also matches non-ASCII Unicode decimal digits in str patterns (e.g. Arabic-Indic); the language "
                    "obligation is stated over ASCII digits and the bounded unit includes one such name as a recorded known limitation"],
}


def _patterns(funcname):
    """(pattern, method) pairs: re.compile(<literal>) in the function, and which match method is applied"""
    src, tree = loader.read_source(APKF)
    fn = loader.index_defs(tree).get("APK." + funcname)
    if fn is None:
        raise loader.BindingError("APK.%s not found" % funcname)
    pats, how = [], []
    for n in ast.walk(fn):
        if isinstance(n, ast.Call) and isinstance(n.func, ast.Attribute):
            if n.func.attr == "compile" and n.args and isinstance(n.args[0], ast.Constant):
                pats.append(n.args[0].value)
        # the match method, called (p.match(x)) or passed on as a bound method (filter(p.match, names))
        if isinstance(n, ast.Attribute) and n.attr in ("match", "search", "fullmatch"):
            how.append(n.attr)
    if len(pats) != 1 or len(how) != 1:
        raise loader.BindingError("APK.%s: expected exactly one compiled pattern and one match call" % funcname)
    return pats[0], how[0]


def _spec_language(z3):
    return z3.Concat(z3.Re("classes"), z3.Star(z3.Range("0", "9")), z3.Re(".dex"))


@unit("C34", covers=[(APKF, "APK.get_dex_names"), (APKF, "APK.is_multidex")], params=[{"fn": "get_dex_names"}, {"fn": "is_multidex"}],
      samples=300)
def dex_name_language(U, fn):
    """for every string (any length): the source's pattern accepts it iff it is classes[0-9]*.dex"""
    pat, how = _patterns(fn)
    name = U.zstr("name")
    label = "names accepted by %s (its pattern via re.%s) are exactly classes[0-9]*.dex" % (fn, how)
    if U.mode == "sym":
        import z3
        from pyvc.core import SymBool
        U.ensures(label, SymBool(z3.InRe(name, regex.language(pat, how)) == z3.InRe(name, _spec_language(z3))))
    else:
        import re
        if U.rng.random() < 0.5 and not U.given:
            name = U.rng.choice(["classes", "classes.dex", "classes1.dex", "classes0dex", "classes.dex\n", "xclasses.dex"]) \
                + U.rng.choice(["", "", "\n", ".dex", "0"])
            U.drawn["name"] = [ord(c) for c in name]
        if any(ord(c) > 127 for c in name):
            U.assume(False)          # \d vs non-ASCII digits: recorded limitation (META.assumptions)
        got = getattr(re.compile(pat), how)(name) is not None
        U.ensures(label, got == _is_dex(name), name=name, pattern=pat)


class _Zip:
    def __init__(self, names, content=None, missing=()):
        self.names, self.content, self.missing = names, content or {}, missing

    def namelist(self):
        return list(self.names)

    def read(self, n):
        if n not in self.names:
            raise KeyError(n)
        return self.content.get(n, b"content of " + n.encode("utf-8", "replace"))


def _apk(m, z):
    a = bare(m.APK)
    a.zip = z
    return a


@unit("C34", covers=[(APKF, "APK.get_files"), (APKF, "APK.get_file"), (APKF, "APK.get_dex")])
def reader_delegation(U):
    m = U.mod(APKF)
    present = U.choice("present", [True, False])
    has_dex = U.choice("has_dex", [True, False])
    names = (["a/b.txt"] if present else []) + (["classes.dex"] if has_dex else []) + ["x"]
    a = _apk(m, _Zip(names))
    U.ensures("get_files lists the archive entries", U.call(a.get_files).value == names)
    o = U.call(a.get_file, "a/b.txt")
    if present:
        U.ensures("get_file returns the entry's content", o.ok and o.value == b"content of a/b.txt")
    else:
        U.ensures("missing entry raises FileNotPresent", o.raised(m.FileNotPresent), exc=repr(o.exc))
    d = U.call(a.get_dex)
    U.ensures("get_dex is classes.dex or empty", d.ok and d.value == (b"content of classes.dex" if has_dex else b""))


POOL = ["classes.dex", "classes2.dex", "classes10.dex", "classes0dex", "classesX.dex", "lib/classes.dex", "classes.dex\n",
        "Classes.dex", "classes2.dex.bak", "classes1.dex", "classes02.dex"]


def _is_dex(n):
    import re
    return re.fullmatch(r"classes[0-9]*\.dex", n, re.ASCII) is not None and not n.endswith("\n")


def _enum(tier, **_):
    for k in range(0, 4 if tier == "quick" else 5):
        for combo in itertools.permutations(range(len(POOL)), k):
            yield {"idx": list(combo)}


@unit("C34", covers=[(APKF, "APK.get_dex_names"), (APKF, "APK.get_all_dex"), (APKF, "APK.is_multidex")], level="bounded",
      note="all ordered selections of <= 3 (quick) / <= 4 (thorough) distinct names from an 11-name pool (incl. names whose numeric "
           "suffixes denote the same number), stub zip reader")
def dex_listing(U):
    m = U.mod(APKF)
    idx = U.given.get("idx", []) if U.given else []
    names = [POOL[i] for i in idx]
    U.drawn["idx"] = idx
    a = _apk(m, _Zip(names))
    want = [n for n in names if _is_dex(n)]
    got = U.call(lambda: list(a.get_dex_names()))
    # the statement asks for exactly these entries, not for an order: compared as multisets
    U.ensures("DEX listing = exactly the root-level classes<digits>.dex entries", got.ok and sorted(got.value) == sorted(want), got=got.value, names=names)
    allc = U.call(lambda: list(a.get_all_dex()))
    U.ensures("get_all_dex yields their contents", allc.ok and sorted(allc.value) == sorted(b"content of " + n.encode() for n in want))
    md = U.call(a.is_multidex)
    U.ensures("is_multidex iff more than one DEX entry", md.ok and bool(md.value) == (len(want) > 1), got=md.value, names=names)


dex_listing.enumerate_inputs = lambda tier, **p: _enum(tier)


# ------------------------------------------------------------------------------------------------
# Bounded (model-based): real archives written by CPython's zipfile (independent writer) and opened through the real APK
# constructor (apkInspector reader, skip_analysis): stored and deflated entries, ASCII and non-ASCII names, empty entries, entries
# with an extra field, nested directories, DEX entries in every position.
import io  # noqa: E402
import random  # noqa: E402
import zipfile  # noqa: E402

_NAMES = ["AndroidManifest.xml", "classes.dex", "classes2.dex", "classes10.dex", "assets/classes.dex", "res/raw/übersicht.txt",
          "assets/日本語.bin", "lib/arm64-v8a/libx.so", "META-INF/MANIFEST.MF", "resources.arsc", "classes.dex.bak", "a", "assets/é/ü.dat",
          "classes0dex", "Classes.dex", "kotlin/a.kotlin_builtins"]


@unit("C34", covers=[(APKF, "APK.__init__"), (APKF, "APK.get_files"), (APKF, "APK.get_file"), (APKF, "APK.get_dex_names"),
                     (APKF, "APK.get_all_dex"), (APKF, "APK.get_dex"), (APKF, "APK.is_multidex")], level="bounded", samples=120,
      note="seeded random archives written with zipfile (1..8 entries from a 16-name pool incl. non-ASCII names; stored or deflated; "
           "empty / short / 70 kB contents; optional extra field) opened with the real APK(raw=True, skip_analysis=True)")
def real_archives(U):
    m = U.mod(APKF)
    seed = U.int("seed", 0, 1 << 30)
    rng = random.Random(seed)
    names = rng.sample(_NAMES, rng.randint(1, 8))
    entries = []
    buf = io.BytesIO()
    with zipfile.ZipFile(buf, "w") as z:
        for n in names:
            content = rng.choice([b"", b"x", n.encode("utf-8") * 3, bytes(rng.randrange(256) for _ in range(300)),
                                  bytes([rng.randrange(4)]) * 70000])
            zi = zipfile.ZipInfo(n)
            zi.compress_type = rng.choice([zipfile.ZIP_STORED, zipfile.ZIP_DEFLATED])
            if rng.random() < 0.3:
                zi.extra = b"\xfe\xca\x04\x00abcd"
            z.writestr(zi, content)
            entries.append((n, content, zi.compress_type))
    data = buf.getvalue()
    o = U.call(lambda: m.APK(data, raw=True, skip_analysis=True))
    U.ensures("the archive opens", o.ok, exc=repr(o.exc)[:200], names=names)
    if not o.ok:
        return
    a = o.value
    U.ensures("get_files lists exactly the archive's entries", sorted(a.get_files()) == sorted(names), got=sorted(a.get_files()))
    for n, content, ct in entries:
        g = U.call(a.get_file, n)
        U.ensures("get_file returns the entry's content (stored or deflated, any name)", g.ok and g.value == content,
                  name=n, stored=ct == zipfile.ZIP_STORED, got=(g.value[:24] if g.ok else repr(g.exc)[:80]), want=content[:24])
    miss = U.call(a.get_file, "no/such/entry")
    U.ensures("a name that is not in the archive raises FileNotPresent", miss.raised(m.FileNotPresent), got=repr(miss.exc or miss.value)[:80])
    want_dex = [n for n in names if _is_dex(n)]
    dn = U.call(lambda: list(a.get_dex_names()))
    U.ensures("DEX listing = root-level classes<digits>.dex entries", dn.ok and sorted(dn.value) == sorted(want_dex), got=dn.value, names=names)
    ad = U.call(lambda: sorted(a.get_all_dex()))
    U.ensures("get_all_dex yields their contents", ad.ok and ad.value == sorted(c for n, c, _ in entries if _is_dex(n)))
    md = U.call(a.is_multidex)
    U.ensures("is_multidex iff more than one DEX entry", md.ok and bool(md.value) == (len(want_dex) > 1), got=md.value)
    gd = U.call(a.get_dex)
    want0 = dict((n, c) for n, c, _ in entries).get("classes.dex", b"")
    U.ensures("get_dex is classes.dex or empty", gd.ok and gd.value == want0)
