"""C12  Every instruction inside a try range carries that range's handlers (DESIGN §7 C12)."""
from contracts import cfgsuite as S, cfgworld as W
from pyvc.core import And, Eq, Implies, Ite, Not, Or
from pyvc.unit import unit

ANA, DEX = S.ANA, S.DEX
META = {
    "technique": 'contract-based deductive verification: symbolic execution of the real functions against sidecar contracts (z3/cvc5) for the proved units; bounded contract evaluation (enumerated scope / independent writer) for the rest',
    "level": "other",
    "partial": True,
    "level_text": "Proof: Exceptions.get_exception over lists of 0..3 try ranges with symbolic bounds and a symbolic block range: it "
                  "returns a range iff some range overlaps the block, and the returned range overlaps it (the loop is a pure search, "
                  "unrolled for each list length); ExceptionAnalysis.__init__ attaches to every handler the block containing its "
                  "address. Bounded (composition): on every enumerated small method each block's exception information is compared "
                  "with the try table.",
    "trusted": ["stub world (contracts/cfgworld.py)"],
    "explanation": "get_exception proved for <= 3 ranges (all bounds); call site and handler blocks bounded: " + S.NOTE,
    "assumptions": ["the API returns one range per block; when several ranges overlap a block the statement is read as: one of the "
                    "overlapping ranges is reported (DESIGN §7 C12)"],
}


class _EA:
    def __init__(self, s, e):
        self.start, self.end = s, e


@unit("C12", covers=[(ANA, "Exceptions.get_exception")], params=[{"n": k} for k in range(4)], samples=150)
def get_exception(U, n):
    ana = U.mod(ANA)
    ex = ana.Exceptions()
    rs = []
    for i in range(n):
        s = U.int("s%d" % i, 0, 1000)
        ln = U.int("l%d" % i, 1, 1000)
        rs.append(_EA(s, s + ln - 1))
    ex.exceptions = list(rs)
    a = U.int("a", 0, 2000)
    bl = U.int("blen", 1, 1000)
    b = a + bl - 1
    o = U.call(ex.get_exception, a, b)
    U.ensures("does not raise", o.ok, exc=repr(o.exc))
    if not o.ok:
        return
    ov = [And(r.start <= b, a <= r.end) for r in rs]
    if o.value is None:
        U.ensures("None only if no try range overlaps the block", Not(Or(*ov)), a=a if U.mode == "conc" else None)
    else:
        U.ensures("the reported range is one of the method's ranges", any(o.value is r for r in rs))
        U.ensures("the reported range covers an instruction of the block", And(o.value.start <= b, a <= o.value.end))


class _BBS:
    def __init__(self, m):
        self.m = m

    def get_basic_block(self, idx):
        return ("block", idx)


@unit("C12", covers=[(ANA, "ExceptionAnalysis.__init__"), (ANA, "Exceptions.add")])
def handler_blocks(U):
    ana = U.mod(ANA)
    h1, h2 = U.int("h1", 0, 5000), U.int("h2", 0, 5000)
    rec = [10, 19, ["LA;", h1], ["Ljava/lang/Throwable;", h2]]
    ex = ana.Exceptions()
    o = U.call(ex.add, [rec], _BBS(None))
    U.ensures("does not raise", o.ok, exc=repr(o.exc))
    ea = ex.gets()[0]
    U.ensures("range bounds kept", ea.start == 10 and ea.end == 19)
    U.ensures("each handler carries the block containing its address",
              And(len(ea.exceptions) == 2, ea.exceptions[0][2][1] == h1, ea.exceptions[1][2][1] == h2,
                  ea.exceptions[0][0] == "LA;"))


@unit("C12", covers=[(ANA, "MethodAnalysis._create_basic_block"), (ANA, "Exceptions.get_exception"), (ANA, "ExceptionAnalysis.__init__")],
      params=S.PARAMS, level="bounded", note=S.NOTE)
def block_exceptions(U, chunk):
    prog, meth, o = S.build(U)
    d = S.describe(prog)
    if not o.ok:
        U.ensures("analysis does not raise", False, exc=repr(o.exc), **d)
        return
    bl = S.blocks_of(o.value)
    recs = prog.try_records()
    offs = prog.ins_offsets()
    for b in bl:
        ea = b.get_exception_analysis()
        covering = [r for r in recs if r[0] <= b.get_end() - 1 and b.get_start() <= r[1]]
        if not covering:
            U.ensures("no try range covers the block: no exception information", ea is None, block=b.get_start(), **d)
            continue
        U.ensures("a block with a covered instruction reports a try range", ea is not None, block=b.get_start(), **d)
        if ea is None:
            continue
        match = [r for r in covering if r[0] == ea.start and r[1] == ea.end]
        U.ensures("the reported range covers an instruction of the block", bool(match), block=b.get_start(),
                  got=(ea.start, ea.end), **d)
        if match:
            r = match[0]
            want = [(h[0], h[1]) for h in r[2:]]
            got = [(e[0], e[1]) for e in ea.exceptions]
            U.ensures("its handlers (type, address) are those of the try item", got == want, got=got, want=want, **d)
            for e in ea.exceptions:
                if e[1] in offs:
                    U.ensures("handler block is the block starting at the handler address",
                              e[2] is not None and e[2].get_start() == e[1], handler=e[1], **d)


block_exceptions.enumerate_inputs = lambda tier, chunk: S.enumerator(tier, chunk)
