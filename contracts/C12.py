"""C12  Every instruction inside a try range carries that range's handlers (DESIGN §7 C12)."""
from contracts import cfgsuite as S, cfgworld as W
from pyvc.core import And, Eq, Implies, Ite, Not, Or
from pyvc.unit import unit

ANA, DEX = S.ANA, S.DEX
META = {
    "technique": 'contract-based deductive verification: symbolic execution of the real functions against sidecar contracts (z3/cvc5) for the proved units, inductive loop invariants and termination variants on the real loops (unbounded in length and iteration count); bounded contract evaluation (enumerated scope / independent writer) for the rest',
    "level": "other",
    "partial": True,
    "level_text": "Loop contract (unbounded): Exceptions.get_exception over a try table of any length returns the first range that "
                  "overlaps the block and None only if none does (uninterpreted range bounds, Skolem indices). Proof: "
                  "Exceptions.get_exception over lists of 0..3 try ranges with symbolic bounds and a symbolic block range: it "
                  "returns a range iff some range overlaps the block, and the returned range overlaps it (the loop is a pure search, "
                  "unrolled for each list length); ExceptionAnalysis.__init__ attaches to every handler the block containing its "
                  "address. Bounded (composition): on every enumerated small method each block's exception information is compared "
                  "with the try table.",
    "trusted": ["stub world (contracts/cfgworld.py)"],
    "explanation": "get_exception proved for <= 3 ranges (all bounds); call site and handler blocks bounded: " + S.NOTE,
    "assumptions": ["the API returns one range per block; when several ranges overlap a block the statement is read as: one of the "
                    "overlapping ranges is reported (DESIGN §7 C12)"],
}


class _EA:
    def __init__(self, s, e):
        self.start, self.end = s, e


@unit("C12", covers=[(ANA, "Exceptions.get_exception")], params=[{"n": k} for k in range(4)], samples=150)
def get_exception(U, n):
    ana = U.mod(ANA)
    ex = ana.Exceptions()
    rs = []
    for i in range(n):
        s = U.int("s%d" % i, 0, 1000)
        ln = U.int("l%d" % i, 1, 1000)
        rs.append(_EA(s, s + ln - 1))
    ex.exceptions = list(rs)
    a = U.int("a", 0, 2000)
    bl = U.int("blen", 1, 1000)
    b = a + bl - 1
    o = U.call(ex.get_exception, a, b)
    U.ensures("does not raise", o.ok, exc=repr(o.exc))
    if not o.ok:
        return
    ov = [And(r.start <= b, a <= r.end) for r in rs]
    if o.value is None:
        U.ensures("None only if no try range overlaps the block", Not(Or(*ov)), a=a if U.mode == "conc" else None)
    else:
        U.ensures("the reported range is one of the method's ranges", any(o.value is r for r in rs))
        U.ensures("the reported range covers an instruction of the block", And(o.value.start <= b, a <= o.value.end))


class _BBS:
    def __init__(self, m):
        self.m = m

    def get_basic_block(self, idx):
        return ("block", idx)


@unit("C12", covers=[(ANA, "ExceptionAnalysis.__init__"), (ANA, "Exceptions.add")])
def handler_blocks(U):
    ana = U.mod(ANA)
    h1, h2 = U.int("h1", 0, 5000), U.int("h2", 0, 5000)
    rec = [10, 19, ["LA;", h1], ["Ljava/lang/Throwable;", h2]]
    ex = ana.Exceptions()
    o = U.call(ex.add, [rec], _BBS(None))
    U.ensures("does not raise", o.ok, exc=repr(o.exc))
    ea = ex.gets()[0]
    U.ensures("range bounds kept", ea.start == 10 and ea.end == 19)
    U.ensures("each handler carries the block containing its address",
              And(len(ea.exceptions) == 2, ea.exceptions[0][2][1] == h1, ea.exceptions[1][2][1] == h2,
                  ea.exceptions[0][0] == "LA;"))


@unit("C12", covers=[(ANA, "MethodAnalysis._create_basic_block"), (ANA, "Exceptions.get_exception"), (ANA, "ExceptionAnalysis.__init__")],
      params=S.PARAMS, level="bounded", note=S.NOTE)
def block_exceptions(U, chunk):
    prog, meth, o = S.build(U)
    d = S.describe(prog)
    if not o.ok:
        U.ensures("analysis does not raise", False, exc=repr(o.exc), **d)
        return
    bl = S.blocks_of(o.value)
    recs = prog.try_records()
    offs = prog.ins_offsets()
    for b in bl:
        ea = b.get_exception_analysis()
        covering = [r for r in recs if r[0] <= b.get_end() - 1 and b.get_start() <= r[1]]
        if not covering:
            U.ensures("no try range covers the block: no exception information", ea is None, block=b.get_start(), **d)
            continue
        U.ensures("a block with a covered instruction reports a try range", ea is not None, block=b.get_start(), **d)
        if ea is None:
            continue
        U.ensures("every try range that covers an instruction of the block is the one the block reports (a block never spans two "
                  "ranges)", all(r[0] == ea.start and r[1] == ea.end for r in covering), block=(b.get_start(), b.get_end()),
                  covering=[r[:2] for r in covering], got=(ea.start, ea.end), **d)
        match = [r for r in covering if r[0] == ea.start and r[1] == ea.end]
        U.ensures("the reported range covers an instruction of the block", bool(match), block=b.get_start(),
                  got=(ea.start, ea.end), **d)
        if match:
            r = match[0]
            want = [(h[0], h[1]) for h in r[2:]]
            got = [(e[0], e[1]) for e in ea.exceptions]
            U.ensures("its handlers (type, address) are those of the try item", got == want, got=got, want=want, **d)
            for e in ea.exceptions:
                if e[1] in offs:
                    U.ensures("handler block is the block starting at the handler address",
                              e[2] is not None and e[2].get_start() == e[1], handler=e[1], **d)


block_exceptions.enumerate_inputs = lambda tier, chunk: S.enumerator(tier, chunk)


# ------------------------------------------------------------------------------------------------
# Loop contract (unbounded): Exceptions.get_exception over a try table of ARBITRARY length.  The table is a ghost sequence: range k
# has bounds lo(k) <= hi(k) given by uninterpreted functions.  Skolem constants: `w` an arbitrary overlapping range (witness mode:
# the result may not be None), `j` an arbitrary index before the returned one (it does not overlap: the FIRST overlapping range of
# the table is returned).
import z3  # noqa: E402

from pyvc import core  # noqa: E402
from pyvc.loops import AbstractSeq, LoopSpec  # noqa: E402


class _GR:
    def __init__(self, world, k):
        self.k = k
        self.start, self.end = world.lo(k), world.hi(k)


class _Ranges:
    def __init__(self, U):
        self.U = U
        if U.mode == "sym":
            self.n = U.int("n", 0, 1 << 20)
            self.flo = z3.Function("try_lo", z3.BitVecSort(core.W), z3.BitVecSort(core.W))
            self.flen = z3.Function("try_len", z3.BitVecSort(core.W), z3.BitVecSort(core.W))
        else:
            self.n = U.int("n", 0, 5)
            self.rs = [(U.int("s%d" % i, 0, 40), U.int("l%d" % i, 1, 12)) for i in range(self.n)]
            self.items = [_GR(self, i) for i in range(self.n)]

    def lo(self, k):
        if self.U.mode != "sym":
            return self.rs[k][0] if 0 <= k < self.n else 10 ** 9
        t = self.flo(core.SymInt.lift(k).t)
        core.ctx().add_fact(z3.And(t >= 0, t <= (1 << 33)))
        return core.SymInt(t, 0, 1 << 33)

    def hi(self, k):
        if self.U.mode != "sym":
            return self.rs[k][0] + self.rs[k][1] - 1 if 0 <= k < self.n else -1
        ln = self.flen(core.SymInt.lift(k).t)
        core.ctx().add_fact(z3.And(ln >= 1, ln <= (1 << 18)))
        return self.lo(k) + core.SymInt(ln, 1, 1 << 18) - 1

    def overlaps(self, k, a, b):
        return And(self.lo(k) <= b, a <= self.hi(k))

    def seq(self):
        return list(self.items) if self.U.mode != "sym" else AbstractSeq(self.n, lambda k: _GR(self, k), "try ranges")


def _inv_getexc(spec, L, k):
    g = spec.G
    w, j = g["world"], g["j"]
    inv = Implies(And(0 <= j, j < k), Not(w.overlaps(j, g["a"], g["b"])))
    if g.get("witness") is not None:
        inv = And(inv, k <= g["witness"])
    return inv


GETEXC = LoopSpec("Exceptions.get_exception#0", invariant=_inv_getexc, const=("self", "addr_start", "addr_end"))


@unit("C12", covers=[(ANA, "Exceptions.get_exception")], params=[{"mode": m} for m in ("witness", "free")],
      loops={(ANA, "Exceptions.get_exception", 0): GETEXC}, samples=200,
      note="loop contract, try table of any length: invariant `no range before position k overlaps the block` (Skolem index j)")
def get_exception_unbounded(U, mode):
    ana = U.mod(ANA)
    world = _Ranges(U)
    ex = ana.Exceptions()
    ex.exceptions = world.seq()
    a = U.int("a", 0, (1 << 33) if U.mode == "sym" else 50)
    b = a + U.int("blen", 1, (1 << 18) if U.mode == "sym" else 12) - 1
    j = U.int("j", 0, (1 << 20) if U.mode == "sym" else 5)
    wit = None
    if mode == "witness":
        wit = U.int("w", 0, (1 << 20) if U.mode == "sym" else 5)
        U.assume(wit < world.n)
        U.assume(world.overlaps(wit, a, b))
    GETEXC.G = {"world": world, "a": a, "b": b, "j": j, "witness": wit}
    o = U.call(ex.get_exception, a, b)
    U.ensures("does not raise", o.ok, exc=repr(o.exc))
    if not o.ok:
        return
    r = o.value
    if mode == "witness":
        U.cover("some range overlaps the block")
        U.ensures("when a try range overlaps the block, a range is reported", r is not None)
    if r is not None:
        U.ensures("the reported range is a range of the table and overlaps the block",
                  And(0 <= r.k, r.k < world.n, r.start <= b, a <= r.end))
        U.ensures("it is the first overlapping range of the table", Implies(And(0 <= j, j < r.k, j < world.n), Not(world.overlaps(j, a, b))))
