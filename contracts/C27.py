"""C27  Resource values are formatted with Android's meaning (DESIGN §7 C27)."""
from pyvc.core import And, Eq, Implies, Ite, Not, Or
from pyvc.text import text_eq, fmt
from pyvc.unit import bare, unit
from specs import resvalue as S

AXML = "androguard/core/axml/__init__.py"
META = {
    "level": "proof",
    "level_text": "complexToFloat and format_value are executed on a symbolic 32-bit data word for every value type; the float "
                  "result is proved equal (IEEE-754 binary64, round-to-nearest-even model) to the exact signed-mantissa x 2^-k value of "
                  "AOSP's definition for all 2^32 words, and each formatted text is proved to apply the same number formatting to an "
                  "equal argument with the right prefix/unit. ARSCParser.get_resource_dimen/get_resource_color on stub entries.",
    "trusted": ["CPython number formatting ('%f', '%08X', '%d', '{:02x}') is an uninterpreted function applied to proved-equal arguments",
                "CPython float = IEEE-754 binary64, float(int) correctly rounded (z3 FP theory)", "struct model for '=f'/'=L'"],
    "assumptions": ["dimension units 6..15 and fraction units 2..15 have no Android meaning: there format_value raises IndexError "
                    "(recorded, no clause)"],
}


@unit("C27", covers=[(AXML, "complexToFloat"), (AXML, "RADIX_MULTS", "global")], timeout_ms=60000)
def complex_to_float(U):
    m = U.mod(AXML)
    d = U.int("d", 0, 0xFFFFFFFF)
    o = U.call(m.complexToFloat, d)
    U.ensures("does not raise", o.ok, exc=repr(o.exc))
    if o.ok:
        U.ensures("equals signed 24-bit mantissa times 2^-(8|15|23|31)", o.value == S.complex_to_float(d),
                  got=o.value if U.mode == "conc" else None, want=S.complex_to_float(d) if U.mode == "conc" else None)


TYPES = [S.TYPE_REFERENCE, S.TYPE_ATTRIBUTE, S.TYPE_STRING, S.TYPE_FLOAT, S.TYPE_DIMENSION, S.TYPE_FRACTION,
         S.TYPE_INT_DEC, S.TYPE_INT_HEX, S.TYPE_INT_BOOLEAN, 0x1C, 0x1D, 0x1E, 0x1F, 0x13, 0x1B]


@unit("C27", covers=[(AXML, "format_value"), (AXML, "complexToFloat")], params=[{"t": t} for t in TYPES], timeout_ms=60000)
def format_value(U, t):
    m = U.mod(AXML)
    d = U.int("d", 0, 0xFFFFFFFF)
    looked = []

    def lookup(ix):
        looked.append(ix)
        return "<str#%d>" % len(looked)

    unit_idx = None
    if t in (S.TYPE_DIMENSION, S.TYPE_FRACTION):
        nunits = 6 if t == S.TYPE_DIMENSION else 2
        u = d & 0xF
        unit_idx = u if isinstance(u, int) else u.concretize()
        if unit_idx >= nunits:
            o = U.call(m.format_value, t, d, lookup)
            U.ensures("undefined unit: IndexError or some text (no Android meaning)", o.ok or o.raised(IndexError))
            return
    o = U.call(m.format_value, t, d, lookup)
    U.ensures("does not raise", o.ok, exc=repr(o.exc))
    if not o.ok:
        return
    if t == S.TYPE_STRING:
        U.ensures("string: looked up with the data word", And(len(looked) == 1, looked[0] == d if looked else False, o.value == "<str#1>"))
        return
    want = S.format_value(t, d, None, unit_idx)
    U.ensures("formatted text is Android's rendering of the value", text_eq(o.value, want),
              got=o.value if U.mode == "conc" else None, want=want if U.mode == "conc" else None)


class _Key:
    def __init__(self, d):
        self.d = d

    def get_data(self):
        return self.d


class _Ate:
    def __init__(self, d):
        self.key = _Key(d)

    def get_value(self):
        return "name"


@unit("C27", covers=[(AXML, "ARSCParser.get_resource_dimen"), (AXML, "ARSCParser.get_resource_color"),
                     (AXML, "ARSCParser.get_resource_integer")], timeout_ms=60000)
def arsc_accessors(U):
    m = U.mod(AXML)
    d = U.int("d", 0, 0xFFFFFFFF)
    p = bare(m.ARSCParser)
    u = d & 0xF
    ui = u if isinstance(u, int) else u.concretize()
    o = U.call(p.get_resource_dimen, _Ate(d))
    U.ensures("dimen: does not raise", o.ok, exc=repr(o.exc))
    if o.ok and ui < 6:
        want = fmt("%r", S.complex_to_float(d)) + S.DIMENSION_UNITS[ui] if U.mode == "sym" else \
            "{}{}".format(S.complex_to_float(d), S.DIMENSION_UNITS[ui])
        U.ensures("dimen: value and unit", And(o.value[0] == "name", text_eq(o.value[1], want)),
                  got=o.value[1] if U.mode == "conc" else None)
    c = U.call(p.get_resource_color, _Ate(d))
    wantc = "#" + fmt("%02x", (d >> 24) & 0xFF) + fmt("%02x", (d >> 16) & 0xFF) + fmt("%02x", (d >> 8) & 0xFF) + fmt("%02x", d & 0xFF)
    U.ensures("color: #aarrggbb", And(c.ok, text_eq(c.value[1], wantc) if c.ok else False))
    i = U.call(p.get_resource_integer, _Ate(d))
    U.ensures("integer: data word", And(i.ok, i.value[1] == d if i.ok else False))
