"""C17  Renaming changes exactly the renamed item, for any sequence of renames (DESIGN §7 C17)."""
import os
import random

from pyvc.core import And, Eq, Implies, Ite, Not, Or
from pyvc.unit import bare, unit

DEX = "androguard/core/dex/__init__.py"
META = {
    "technique": 'contract-based deductive verification: symbolic execution of the real functions against sidecar contracts (z3/cvc5) for the proved units; bounded contract evaluation (enumerated scope / independent writer) for the rest',
    "level": "other",
    "partial": True,
    "level_text": "Proof (small): ClassManager.get_string / set_hook_string: a hooked index returns the hook, every other index "
                  "the raw string (frame over a symbolic pair of indices). Bounded (model-based): seeded random interleavings of "
                  "set_name on classes/methods/fields, full reloads and name queries on three shipped DEX files are compared after "
                  "every step with a dictionary model of current names; const-string texts are compared with their original values. "
                  "Known findings: hooks are keyed by the *string index*, so items (and string constants) sharing the renamed item's "
                  "name string change with it.",
    "trusted": ["the shipped DEX files parse correctly (C05)"],
    "explanation": "hook lookup proved; rename semantics bounded (random sequences against a dictionary model) with known findings.",
    "assumptions": [],
}


class _SID:
    pass


@unit("C17", covers=[(DEX, "ClassManager.get_string"), (DEX, "ClassManager.set_hook_string")], samples=60)
def hook_lookup(U):
    m = U.mod(DEX)
    cm = bare(m.ClassManager)
    cm.hook_strings = {}
    cm.get_raw_string = lambda idx: ("raw", idx)
    i = U.choice("i", [0, 1, 5, 70000])
    j = U.choice("j", [0, 1, 2, 5, 6, 69999, 70000, 70001])
    cm.set_hook_string(i, "NEW")
    a = U.call(cm.get_string, i)
    U.ensures("hooked index returns the new string", a.ok and a.value == "NEW")
    if j != i:
        b = U.call(cm.get_string, j)
        U.ensures("every other index still returns its raw string", b.ok and b.value == ("raw", j))


@unit("C17", name="hook_overwrite", covers=[(DEX, "ClassManager.get_string"), (DEX, "ClassManager.set_hook_string")], samples=60)
def hook_overwrite(U):
    """any prior hook state, any new value (including the item's original raw string): the last set value wins"""
    m = U.mod(DEX)
    cm = bare(m.ClassManager)
    cm.hook_strings = {}
    cm.get_raw_string = lambda idx: ("raw", idx)
    i = U.choice("i", [0, 1, 5, 70000])
    j = U.choice("j", [0, 1, 2, 5, 6, 69999, 70000, 70001])
    prior = U.choice("prior", ["none", "OLD", "rawj"])
    if prior == "OLD":
        cm.set_hook_string(i, "OLD")
    elif prior == "rawj" and j != i:
        cm.set_hook_string(j, "OLDJ")
    v = U.choice("v", ["NEW", "raw", "OLD", "", "0"])          # any text is a name a caller may set: also the empty one
    val = ("raw", i) if v == "raw" else v
    o = U.call(cm.set_hook_string, i, val)
    U.ensures("set_hook_string does not raise", o.ok, exc=repr(o.exc))
    a = U.call(cm.get_string, i)
    U.ensures("the most recently set value is returned (also when it equals the original string)", a.ok and a.value == val,
              prior=prior, v=v)
    if j != i:
        b = U.call(cm.get_string, j)
        want = "OLDJ" if prior == "rawj" else ("raw", j)
        U.ensures("every other index is unaffected", b.ok and b.value == want)


class _Ref:
    """stub method_id / field_id item"""

    def __init__(self, name_idx, class_idx):
        self.name_idx, self.class_idx, self.reloads = name_idx, class_idx, 0

    def get_name_idx(self):
        return self.name_idx

    def get_class_idx(self):
        return self.class_idx

    def reload(self):
        self.reloads += 1


class _Pool17:
    def __init__(self, d):
        self.d, self.reloads = d, 0

    def get(self, idx):
        return self.d[idx]

    def reload(self):
        self.reloads += 1


class _ClassDefs:
    def __init__(self, cd):
        self.cd = cd

    def get_class_idx(self, idx):
        return self.cd


class _Holder:
    pass


class _ClassDef:
    def __init__(self):
        self.F, self.M = _Holder(), _Holder()


class _Member:
    """stub EncodedMethod / EncodedField: reports its current name through the class manager like the real ones"""

    def __init__(self, cm, idx, name_idx, proto="(I)V"):
        self.cm, self.idx, self.name_idx, self.proto = cm, idx, name_idx, proto

    def get_method_idx(self):
        return self.idx

    get_field_idx = get_method_idx

    def get_name(self):
        return self.cm.get_string(self.name_idx)

    def get_descriptor(self):
        return self.proto


RENAME_VALUES = ["ren", "this$0", "val$x", "$VALUES", "<init>", "access$000", "a>b", "x_y", "\u00e9t\u00e9"]


@unit("C17", covers=[(DEX, "ClassManager.set_hook_method_name"), (DEX, "ClassManager.set_hook_field_name"),
                     (DEX, "ClassManager.set_hook_string"), (DEX, "ClassManager.get_string")],
      params=[{"kind": k, "export": e} for k in ("method", "field") for e in (False, True)], samples=60,
      note="hook setters on stub id items: the string hook receives exactly the new name (names with $ < > as javac generates "
           "them, non-ASCII), only at the name index of the renamed item; with and without a Python export of the old name")
def hook_setters(U, kind, export):
    from androguard.core.dex.dex_types import TypeMapItem
    m = U.mod(DEX)
    cm = bare(m.ClassManager)
    cm.hook_strings = {}
    cm.get_raw_string = lambda idx: "orig%d" % idx
    name_idx = U.choice("name_idx", [0, 3, 9])
    other_idx = 5
    ref = _Ref(name_idx, 1)
    cd = _ClassDef() if export else None
    cm._ClassManager__manage_item = {TypeMapItem.METHOD_ID_ITEM: _Pool17({7: ref}), TypeMapItem.FIELD_ID_ITEM: _Pool17({7: ref}),
                                     TypeMapItem.CLASS_DEF_ITEM: _ClassDefs(cd)}
    it = _Member(cm, 7, name_idx)
    if export:
        from androguard.core import bytecode
        setattr(cd.M if kind == "method" else cd.F, bytecode.FormatNameToPython(it.get_name()), it)
    if export:
        value = U.choice("value", RENAME_VALUES)
    else:
        value = U.str("value", U.choice("n", [1, 2, 4]), 0x21, 0x2FFF)
    prior = U.choice("prior", ["none", "same_index", "other_index"])
    if prior == "same_index":
        cm.hook_strings[name_idx] = "EARLIER"
    elif prior == "other_index":
        cm.hook_strings[other_idx] = "OTHER"
    setter = cm.set_hook_method_name if kind == "method" else cm.set_hook_field_name
    o = U.call(setter, it, value)
    U.ensures("the setter does not raise", o.ok, exc=repr(o.exc))
    if not o.ok:
        return
    U.ensures("the renamed item reports exactly the new name", Eq(it.get_name(), value), got=it.get_name() if U.mode == "conc" else None)
    want = {name_idx: value}
    if prior == "other_index":
        want[other_idx] = "OTHER"
    U.ensures("no other string index is hooked", set(cm.hook_strings.keys()) == set(want.keys()), keys=sorted(cm.hook_strings.keys()))
    U.ensures("the id item is reloaded so that cached names are refreshed", ref.reloads >= 1)
    if prior == "other_index":
        U.ensures("an unrelated hook is left alone", cm.hook_strings[other_idx] == "OTHER")


def _conc(j):
    # representative concrete value on this path (the lookup is a dict access: any j != i behaves alike)
    return j if isinstance(j, int) else j.concretize(limit=1 << 20)


FILES = ["ExceptionHandling.dex", "FieldsTest.dex", "StringTests.dex"]


def _items(d):
    out = []
    for c in d.get_classes():
        out.append(("class", c))
        for me in c.get_methods():
            out.append(("method", me))
        for f in c.get_fields():
            out.append(("field", f))
    return out


def _name_idx(d, kind, it):
    cm = d.get_class_manager()
    if kind == "method":
        return ("s", cm.get_method_ref(it.get_method_idx()).get_name_idx())
    if kind == "field":
        return ("s", cm.get_field_ref(it.get_field_idx()).get_name_idx()) if hasattr(cm, "get_field_ref") else ("f", it.get_field_idx())
    return ("t", it.get_class_idx())


def _const_strings(d):
    out = []
    for me in d.get_encoded_methods():
        if me.get_code() is None:
            continue
        for off, ins in me.get_instructions_idx():
            if ins.get_op_value() in (0x1A, 0x1B):
                out.append(((me.get_method_idx(), off), ins.get_ref_kind(), ins.get_output()))
    return out


@unit("C17", covers=[(DEX, "ClassManager.set_hook_class_name"), (DEX, "ClassManager.set_hook_method_name"),
                     (DEX, "ClassManager.set_hook_field_name"), (DEX, "EncodedMethod.set_name"), (DEX, "EncodedField.set_name"),
                     (DEX, "ClassDefItem.set_name"), (DEX, "EncodedMethod.reload"), (DEX, "EncodedField.reload"), (DEX, "ClassDefItem.reload"),
                     (DEX, "MethodIdItem.reload"), (DEX, "FieldIdItem.reload")],
      level="bounded", samples=90,
      note="seeded random sequences of 1..6 operations (rename class/method/field incl. items sharing a name such as the three "
           "<init> of ExceptionHandling.dex, reload of all id items) on 3 shipped DEX files; after each step every item's name is "
           "compared with a dictionary model and every const-string text with its original")
def rename_sequences(U):
    m = U.mod(DEX)
    which = U.choice("file", FILES)
    seed = U.int("seed", 0, 1 << 30)
    rng = random.Random(seed)
    d = m.DEX(open(os.path.join("/repo/tests/data/APK", which), "rb").read())
    cm = d.get_class_manager()
    items = _items(d)
    model = {id(it): it.get_name() for _, it in items}
    orig = dict(model)
    kind_of = {id(it): k for k, it in items}
    nidx = {id(it): _name_idx(d, k, it) for k, it in items}
    consts0 = _const_strings(d)
    renamed_idx = set()
    renamed_ids = set()
    renamed_class = False
    for step in range(rng.randint(1, 6)):
        r = rng.random()
        if r < 0.75:
            k, it = rng.choice(items)
            new = ("Lren/C%d;" % step) if k == "class" else rng.choice(["ren%d", "this$%d", "access$%d00", "<ren%d>", "val$r%d"]) % step
            if k != "class" and rng.random() < 0.06:
                new = ""                                 # the empty text is a new name like any other
            if id(it) in renamed_ids and rng.random() < 0.35:
                new = orig[id(it)]                      # rename back to the original name
            o = U.call(it.set_name, new)
            U.ensures("set_name does not raise", o.ok, exc=repr(o.exc), item=k)
            if not o.ok:
                return
            model[id(it)] = new
            renamed_idx.add(nidx[id(it)])
            renamed_ids.add(id(it))
            renamed_class = renamed_class or k == "class"
        else:
            for k, it in items:
                if k != "class":
                    it.reload()
            from androguard.core.dex.dex_types import TypeMapItem
            try:
                cm.get_item_by_offset
                mi = cm._ClassManager__manage_item
                mi[TypeMapItem.METHOD_ID_ITEM].reload()
                mi[TypeMapItem.FIELD_ID_ITEM].reload()
            except Exception:
                pass
            for k, it in items:
                if k != "class":
                    it.reload()
        for k, it in items:
            got = it.get_name()
            if id(it) in renamed_ids:
                later_shared = any(nidx[o2] == nidx[id(it)] and o2 != id(it) for o2 in renamed_ids)
                U.ensures("a renamed item reports its most recent new name", got == model[id(it)],
                          unless=[U.known("KF-C17-1", later_shared)], kind=k, got=got, want=model[id(it)])
            else:
                shares = nidx[id(it)] in renamed_idx
                U.ensures("a never renamed item keeps its original name", got == orig[id(it)],
                          unless=[U.known("KF-C17-1", shares)], kind=k, got=got, want=orig[id(it)], file=which)
        for (key, sidx, text0), (_, _, text1) in zip(consts0, _const_strings(d)):
            U.ensures("string constants in code are unchanged", text0 == text1,
                      unless=[U.known("KF-C17-2", ("s", sidx) in renamed_idx)], was=text0, now=text1, file=which)
