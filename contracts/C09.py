"""C09  Corrupted or non-DEX input is rejected at the header (DESIGN §7 C09)."""
import zlib

from pyvc.core import And, Eq, Implies, Ite, Not, Or, SymBytes
from pyvc.unit import bare, unit
from specs import adler as A

DEX = "androguard/core/dex/__init__.py"
META = {
    "level": "proof",
    "level_text": "HeaderItem.__init__ and DalvikPacker.__init__ are executed on a header whose 112 bytes (except the three version "
                  "digits) and trailing bytes are symbolic: every path that returns normally is proved to have the right magic, "
                  "endian tag, header size and an Adler-32 field equal to the RFC-1950 checksum of bytes 12.. (closed form); every "
                  "other path is proved to raise ValueError/NotImplementedError. Single-byte changes: lemma (any length) that Adler-32's "
                  "A component changes when exactly one byte changes, which with the accept=>checksum obligation gives the rejection; a "
                  "sampled two-run check on the real code is an additional bounded cross-check (not counted as proof). DEX._load is "
                  "proved to construct MapList only after HeaderItem returned normally.",
    "trusted": ["zlib.adler32 = RFC 1950 Adler-32 (closed form in specs/adler.py; cross-checked against zlib on every concrete sample)",
                "androguard.util.read_at executes natively on the stream model", "struct model"],
    "assumptions": ["file length in the proof units is 112+4 and 112+0 bytes (the header logic does not branch on the tail); the "
                    "single-byte-change argument for arbitrary lengths is the lemma adler_single_byte"],
}


class ZlibModel:
    """assumed contract of zlib.adler32"""

    def __init__(self):
        self.cache = {}

    def closed_form(self, items):
        key = tuple(id(x) if not isinstance(x, int) else x for x in items)
        if key not in self.cache:
            from pyvc import core
            c = core._ctx
            if c is not None:
                c.defer_mode = True   # quotient definitions are needed in obligations only
            try:
                cf = A.adler32(list(items))
                if c is not None and not isinstance(cf, int):
                    # opaque name for the checksum of *these* bytes; its closed-form definition is only
                    # used inside obligations (keeps path feasibility and equality reasoning cheap)
                    r = core.fresh_int("adler!%d" % len(self.cache), 0, 0xFFFFFFFF, declare=False)
                    c.defer_fact((r == cf).t)
                    cf = r
                self.cache[key] = cf
            finally:
                if c is not None:
                    c.defer_mode = False
        return self.cache[key]

    def adler32(self, data, value=1):
        if isinstance(data, SymBytes):
            return self.closed_form(data.items)
        return zlib.adler32(data, value)

    def __getattr__(self, n):
        return getattr(zlib, n)


class _CM:
    packer = None


def _mk_buffer(U, name, tail):
    # bytes 4..6 (version digits) concrete "035"; everything else symbolic
    a = U.bytes(name + "a", 4)
    b = U.bytes(name + "b", 105 + tail)
    if U.mode == "sym":
        return SymBytes(list(a.items) + [0x30, 0x33, 0x35] + list(b.items))
    return bytes(a) + b"035" + bytes(b)


def _accepts(U, m, buf):
    cm = _CM()
    o = U.call(m.HeaderItem, 0, U.stream(buf), cm)
    return o, cm


def _bl(buf):
    return list(buf.items) if hasattr(buf, "items") else list(buf)


@unit("C09", covers=[(DEX, "HeaderItem.__init__"), (DEX, "DalvikPacker.__init__"), (DEX, "DalvikPacker.__getitem__")],
      params=[{"tail": 4}, {"tail": 0}], samples=60)
def header_checks(U, tail):
    m = U.mod(DEX)
    zm = ZlibModel()
    if U.mode == "sym":
        U.substitute(m, "zlib", zm, "RFC-1950 Adler-32 closed form (assumed contract of zlib.adler32)")
    buf = _mk_buffer(U, "h", tail)
    bl = _bl(buf)
    if U.mode == "conc":
        # bias the sampler towards accepted headers: patch magic, endian tag, header size, checksum
        if U.bool("make_valid"):
            bb = bytearray(buf)
            bb[0:4] = b"dex\n"
            bb[7] = 0
            bb[40:44] = (0x12345678).to_bytes(4, "little")
            bb[36:40] = (0x70).to_bytes(4, "little")
            bb[0x40:0x44] = b"\0\0\0\0"   # type_ids_size
            bb[0x48:0x4c] = b"\0\0\0\0"   # proto_ids_size
            k = U.int("corrupt_at", 0, len(bb) + 40)
            bb[8:12] = zlib.adler32(bytes(bb[12:])).to_bytes(4, "little")
            if 12 <= k < len(bb):
                bb[k] ^= 1 + U.int("corrupt_bit", 0, 254)
            buf = bytes(bb)
            bl = list(buf)
        U.ensures("zlib.adler32 agrees with the RFC-1950 closed form (trusted contract cross-check)",
                  zlib.adler32(bytes(bl[12:])) == A.adler32(bl[12:]))
    o, cm = _accepts(U, m, buf)

    def u32(off):
        from pyvc.models import compose_le
        return compose_le(bl[off:off + 4], False)

    magic_ok = And(bl[0] == 0x64, bl[1] == 0x65, Or(bl[2] == 0x78, bl[2] == 0x79), bl[3] == 0x0A, bl[7] == 0)
    want_sum = zm.closed_form(bl[12:])
    good = And(magic_ok, u32(40) == 0x12345678, u32(36) == 0x70, u32(8) == want_sum)
    if o.exc is not None:
        U.ensures("rejection is a ValueError or NotImplementedError", o.raised(ValueError, NotImplementedError), exc=repr(o.exc))
        U.ensures("only rejects what the format forbids (bad magic/endian/size/checksum or > 65535 type/proto ids)",
                  Or(Not(good), u32(0x40) > 65535, u32(0x48) > 65535))
        return
    U.cover("accepted")
    U.ensures("accepted header has the DEX magic", magic_ok)
    U.ensures("accepted header has endian tag 0x12345678", u32(40) == 0x12345678)
    U.ensures("accepted header has header_size 0x70", u32(36) == 0x70)
    U.ensures("accepted header's checksum field is the Adler-32 of bytes 12..", u32(8) == want_sum)
    U.ensures("packer installed for little endian", cm.packer is not None)


@unit("C09", covers=[(DEX, "HeaderItem.__init__")], params=[{"tail": 4}, {"tail": 37}], samples=300, level="bounded",
      note="end-to-end two-run check on sampled valid headers (random position >= 12, random new byte value); the unbounded "
           "argument is header_checks (accept => checksum field == Adler-32 of bytes 12..) + lemma adler_single_byte")
def single_byte_change(U, tail):
    """two buffers that differ in exactly one byte at an offset >= 12: never both accepted"""
    m = U.mod(DEX)
    if U.mode == "sym":
        U.substitute(m, "zlib", ZlibModel(), "RFC-1950 Adler-32 closed form (assumed contract of zlib.adler32)")
    buf = _mk_buffer(U, "h", tail)
    bl = _bl(buf)
    n = len(bl)
    k = U.int("k", 12, n - 1)
    d = U.int("d", 1, 255)
    if U.mode == "conc":
        bb = bytearray(buf)
        bb[0:4] = b"dex\n"
        bb[7] = 0
        bb[40:44] = (0x12345678).to_bytes(4, "little")
        bb[36:40] = (0x70).to_bytes(4, "little")
        bb[0x40:0x44] = b"\0\0\0\0"
        bb[0x48:0x4c] = b"\0\0\0\0"
        bb[8:12] = zlib.adler32(bytes(bb[12:])).to_bytes(4, "little")
        buf = bytes(bb)
        bl = list(buf)
        if k in (4, 5, 6):
            U.assume(False)
        b2 = bytearray(buf)
        b2[k] = (b2[k] + d) % 256
        buf2 = bytes(b2)
    else:
        # the changed byte: position k (symbolic), new value = old + d mod 256; version digits stay concrete
        items2 = []
        for i, x in enumerate(bl):
            if i < 12 or i in (4, 5, 6):
                items2.append(x)
            else:
                items2.append(Ite(k == i, (x + d) % 256, x))
        buf2 = SymBytes(items2)
    o1, _ = _accepts(U, m, buf)
    if o1.exc is not None:
        return
    U.cover("original accepted")
    o2, _ = _accepts(U, m, buf2)
    U.ensures("a file changed in one byte after the checksum field is rejected", o2.raised(ValueError, NotImplementedError))


@unit("C09", covers=[], samples=0)
def adler_single_byte(U):
    """lemma, any length: equal-length sequences differing in exactly one byte have different A components"""

    def build(z3):
        S, d, e = z3.Ints("S d e")  # S = sum of the other bytes
        return z3.ForAll([S, d, e], z3.Implies(
            z3.And(S >= 0, d >= 0, d <= 255, e >= 0, e <= 255, d != e),
            (1 + S + d) % A.MOD != (1 + S + e) % A.MOD))

    U.lemma("Adler-32 A-component is injective in any single byte", build)


class _Raw:
    pass


@unit("C09", covers=[(DEX, "DEX._load")])
def rejected_before_parsing(U):
    """DEX._load: no structure (MapList) is parsed unless HeaderItem returned normally"""
    m = U.mod(DEX)
    events = []
    fail = U.choice("header", ["ok", "ValueError", "NotImplementedError"])

    class Hdr:
        map_off = 112

        def __init__(self, size, buff, cm):
            events.append("header")
            if fail == "ValueError":
                raise ValueError("bad")
            if fail == "NotImplementedError":
                raise NotImplementedError("bad")

    class ML:
        def __init__(self, cm, off, buff):
            events.append("maplist")

        def get_item_type(self, t):
            return None

    saved = (m.HeaderItem, m.MapList)
    m.HeaderItem, m.MapList = Hdr, ML
    try:
        d = bare(m.DEX)
        d.raw, d.CM = _Raw(), _CM()
        d._flush = lambda: events.append("flush")
        o = U.call(d._load, None)
    finally:
        m.HeaderItem, m.MapList = saved
    if fail == "ok":
        U.ensures("valid header: structures are parsed after the header", o.ok and events[:2] == ["header", "maplist"])
    else:
        U.ensures("header error propagates", o.raised(ValueError, NotImplementedError))
        U.ensures("nothing is parsed after a rejected header", events == ["header"], events=events)
