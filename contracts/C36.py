"""C36  Concurrent sessions on one database get distinct identifiers (DESIGN §7 C36)."""
import itertools
import os
import shutil
import tempfile
import threading

from pyvc.unit import bare, unit

SES = "androguard/session.py"
META = {
    "technique": 'contract with interference step decided by exhaustive schedule enumeration replayed on the real constructor and sqlite',
    "level": "other",
    "partial": True,
    "level_text": "Sequential contract + interference step, decided by exhaustive schedule enumeration on the real code: "
                  "Session.__init__ consists of one database read (row count) and one insert; with the database calls atomic, every "
                  "interleaving of two and three constructors at that granularity (6 + 90 schedules) is forced on the *real* "
                  "Session.__init__ running against a real sqlite file through dataset (one thread and one connection per session, a "
                  "scheduler gates the two calls). Obligation: every constructor returns and all ids differ. Serial schedules must "
                  "hold; non-serial ones are the known finding (count-then-insert is not atomic).",
    "trusted": ["dataset/sqlite: len(table) = number of rows, insert of an existing primary key raises IntegrityError, each call atomic",
                "scheduler granularity = the two database calls of the constructor (sqlite locking, transactions, crashes not modelled)"],
    "explanation": "all statement-level interleavings of 2 and 3 session constructors replayed on the real code and a real sqlite "
                   "database; this is the edge of the contract family (guidance: weak on concurrency).",
    "assumptions": ["no other writer touches the session table"],
}


def schedules(n):
    steps = [("r", i) for i in range(n)] + [("w", i) for i in range(n)]
    seen = set()
    for perm in itertools.permutations(steps):
        if all(perm.index(("r", i)) < perm.index(("w", i)) for i in range(n)):
            if perm not in seen:
                seen.add(perm)
                yield list(perm)


def is_serial(sched):
    open_ = None
    for kind, i in sched:
        if kind == "r":
            if open_ is not None:
                return False
            open_ = i
        else:
            if open_ != i:
                return False
            open_ = None
    return True


class Sched:
    def __init__(self, order):
        self.order, self.pos = order, 0
        self.cv = threading.Condition()
        self.dead = set()

    def run(self, step, fn):
        with self.cv:
            ok = self.cv.wait_for(lambda: self.pos < len(self.order) and self.order[self.pos] == step, timeout=40)
            if not ok:
                raise RuntimeError("scheduler timeout at %r" % (step,))
        try:
            return fn()
        finally:
            with self.cv:
                self.pos += 1
                self.cv.notify_all()

    def skip(self, i):
        """session i died: let its remaining steps pass"""
        with self.cv:
            self.dead.add(i)
            while self.pos < len(self.order) and self.order[self.pos][1] in self.dead:
                self.pos += 1
            self.cv.notify_all()


class _Table:
    def __init__(self, real, sched, i, gate):
        self._r, self._s, self._i, self._gate = real, sched, i, gate

    def __len__(self):
        return self._s.run(("r", self._i), lambda: len(self._r)) if self._gate else len(self._r)

    def insert(self, row, *a, **k):
        return self._s.run(("w", self._i), lambda: self._r.insert(row, *a, **k)) if self._gate else self._r.insert(row, *a, **k)

    def __getattr__(self, n):
        return getattr(self._r, n)


class _DB:
    def __init__(self, real, sched, i):
        self._r, self._s, self._i = real, sched, i

    def __getitem__(self, name):
        return _Table(self._r[name], self._s, self._i, name == "session")

    def __getattr__(self, n):
        return getattr(self._r, n)


def _enum(tier, chunk=0, **_):
    k = 0
    for n in (1, 2, 3):
        for s in schedules(n):
            k += 1
            if k % 16 == chunk:
                yield {"n": n, "schedule": [list(x) for x in s]}


@unit("C36", covers=[(SES, "Session.__init__")], level="bounded", params=[{"chunk": c} for c in range(16)],
      note="all interleavings of the row-count read and the row insert of 1, 2 and 3 Session constructors (1 + 6 + 90 schedules), "
           "each forced on the real constructor with a real sqlite database file")
def schedules_on_real_code(U, chunk):
    ses = U.mod(SES)
    g = U.given or {"n": 2, "schedule": [["r", 0], ["r", 1], ["w", 1], ["w", 0]]}
    U.drawn.update(g)
    n, sched = g["n"], [tuple(x) for x in g["schedule"]]
    root = tempfile.mkdtemp(prefix="c36_", dir=os.environ.get("VERIF_SCRATCH") or None)
    url = "sqlite:///" + os.path.join(root, "s.db")
    S = Sched(sched)
    import dataset
    results = {}
    real_connect = dataset.connect

    class _DS:
        def __init__(self, i):
            self.i = i

        def connect(self, u, *a, **k):
            return _DB(real_connect(u, *a, **k), S, self.i)

        def __getattr__(self, nme):
            return getattr(dataset, nme)

    lock = threading.Lock()

    def worker(i):
        try:
            with lock:
                # each constructor sees its own gated `dataset`; creation of the object itself is not the racy part
                pass
            s = bare(ses.Session)
            saved = ses.dataset
            # per-thread gate: patch through a thread-local dispatcher
            tl.ds = _DS(i)
            ses.Session.__init__(s, False, url)
            results[i] = ("ok", s.session_id)
        except BaseException as e:
            results[i] = ("error", "%s: %s" % (type(e).__name__, str(e)[:80]))
            S.skip(i)

    tl = threading.local()

    class _Dispatch:
        def connect(self, u, *a, **k):
            return tl.ds.connect(u, *a, **k)

        def __getattr__(self, nme):
            return getattr(dataset, nme)

    saved = ses.dataset
    ses.dataset = _Dispatch()
    try:
        # create the schema once (a first, unscheduled connection), so that table creation is not part of the race
        db0 = real_connect(url)
        db0["session"].insert(dict(id=1000))
        db0["session"].delete(id=1000)
        db0.close() if hasattr(db0, "close") else None
        ts = [threading.Thread(target=worker, args=(i,)) for i in range(n)]
        for t in ts:
            t.start()
        for t in ts:
            t.join(60)
    finally:
        ses.dataset = saved
        shutil.rmtree(root, ignore_errors=True)
    ids = [r[1] for r in results.values() if r[0] == "ok"]
    serial = is_serial(sched)
    U.ensures("every session is created successfully", len(results) == n and all(r[0] == "ok" for r in results.values()),
              unless=[U.known("KF-C36-1", not serial)], results={str(k): v for k, v in results.items()}, schedule=sched)
    U.ensures("all session identifiers differ", len(set(ids)) == len(ids), results={str(k): v for k, v in results.items()},
              schedule=sched)


schedules_on_real_code.enumerate_inputs = lambda tier, chunk: _enum(tier, chunk)


# ---- a constructor in another process succeeds only if the database is not write-locked for long: the session methods that run a
# parser / an analysis (seconds to minutes on real apps) must not hold a write transaction across those calls.  Callees are replaced by
# contract stubs that probe, from a second connection, whether the database file is writable at the moment they are called.


def _writable(path):
    import sqlite3
    c = sqlite3.connect(path, timeout=0)
    try:
        c.execute("BEGIN IMMEDIATE")
        c.execute("ROLLBACK")
        return True
    except sqlite3.OperationalError:
        return False
    finally:
        c.close()


@unit("C36", covers=[(SES, "Session.addAPK"), (SES, "Session.addDEX"), (SES, "Session.addODEX"), (SES, "Session.__init__")], level="bounded",
      params=[{"what": w} for w in ("apk", "dex", "odex")],
      note="real Session on a real sqlite file; APK / DEX / Analysis replaced by stubs that probe the database lock from a second "
           "connection whenever the session calls them, and again after the method returns; then a second Session is constructed")
def no_write_lock_while_analysing(U, what):
    ses = U.mod(SES)
    U.drawn.update({"what": what})
    root = tempfile.mkdtemp(prefix="c36l_", dir=os.environ.get("VERIF_SCRATCH") or None)
    path = os.path.join(root, "s.db")
    probes = []

    def probe(where):
        probes.append((where, _writable(path)))

    class _Dex:
        def __init__(self, data, *a, **k):
            probe("DEX parser")

        def get_classes(self):
            return []

        def get_format_type(self):
            return "DEX"

    class _Apk:
        def __init__(self, data, *a, **k):
            probe("APK parser")

        def get_all_dex(self):
            probe("between DEX files")
            yield b"dex-one"
            probe("between DEX files")
            yield b"dex-two"

    class _Ana:
        def __init__(self, *a):
            self.vms = []

        def add(self, d):
            probe("Analysis.add")

        def create_xref(self):
            probe("Analysis.create_xref")

        def get_classes(self):
            return []

    class _Mod:
        def __init__(self, real, **over):
            self._real, self._over = real, over

        def __getattr__(self, n):
            return self._over[n] if n in self._over else getattr(self._real, n)

    saved = (ses.dex, ses.apk, ses.Analysis, ses.DecompilerDAD)
    ses.dex = _Mod(saved[0], DEX=_Dex, ODEX=_Dex)
    ses.apk = _Mod(saved[1], APK=_Apk)
    ses.Analysis = _Ana
    ses.DecompilerDAD = lambda *a, **k: None
    try:
        s = ses.Session(False, "sqlite:///" + path)
        if what == "apk":
            o = U.call(s.addAPK, "a.apk", b"apk-bytes")
        elif what == "dex":
            o = U.call(s.addDEX, "c.dex", b"dex-bytes")
        else:
            o = U.call(s.addODEX, "c.odex", b"dey-bytes")
        U.ensures("the session method does not raise", o.ok, exc=repr(o.exc)[:200])
        probe("after return")
        U.ensures("parsers and analysis were invoked", len(probes) >= 3, probes=probes)
        locked = [w for w, ok in probes if not ok]
        U.ensures("the database is not write-locked while the parser / analysis runs, nor after the method returns "
                  "(another process can create its session)", not locked, locked_at=locked)
        o2 = U.call(ses.Session, False, "sqlite:///" + path)
        U.ensures("a second session on the same database is created successfully with another identifier",
                  o2.ok and o2.value.session_id != s.session_id, exc=repr(o2.exc)[:200])
    finally:
        ses.dex, ses.apk, ses.Analysis, ses.DecompilerDAD = saved
        shutil.rmtree(root, ignore_errors=True)


no_write_lock_while_analysing.enumerate_inputs = lambda tier, **p: iter([{}])
