"""C23  Java string literals denote exactly the original string (DESIGN §7 C23)."""
from pyvc.core import And, Eq, Implies, Ite, Not, Or
from pyvc.text import atoms
from pyvc.unit import bare, unit
from specs import javalex as J

WR = "androguard/decompiler/writer.py"
META = {
    "level": "proof",
    "level_text": "writer.string() is executed on strings of 0..2 symbolic code points (each over the whole range 0..0x10FFFF incl. "
                  "surrogates); the emitted text is lexed with the Java literal rules (specs/javalex.py) and proved to denote exactly "
                  "the UTF-16 units of the input, to be printable ASCII, and every hex-digit conversion is proved to be applied to a "
                  "value in 0..15. The loop only appends per-character output, so longer strings are concatenations of the proved "
                  "per-character tokens (each token is complete: it starts with a non-escape character or a backslash escape).",
    "trusted": ["'%x' % v for 0 <= v <= 15 is exactly one hex digit denoting v (CPython formatting; uninterpreted otherwise)",
                "str model (code-point sequences)", "Java lexical rules as transcribed in specs/javalex.py"],
    "assumptions": ["string lengths 0..2 are executed symbolically; the concatenation argument for longer strings is stated, not "
                    "machine-checked; the concrete sampler additionally runs random strings up to length 6"],
}


def _check(U, m, s, cps):
    o = U.call(m.string, s)
    U.ensures("string() does not raise", o.ok, exc=repr(o.exc))
    if not o.ok:
        return
    txt = o.value
    at = atoms(txt) if isinstance(txt, str) or hasattr(txt, "items") else None
    U.ensures("result is a string in double quotes", at is not None and len(at) >= 2 and not isinstance(at[0], tuple)
              and not isinstance(at[-1], tuple) and And(at[0] == 0x22, at[-1] == 0x22))
    if at is None or len(at) < 2:
        return
    ps = at[1:-1]
    body = txt[1:-1] if U.mode == "conc" else None
    U.ensures("only printable ASCII is written", And(*[And(a >= 0x20, a <= 0x7E) for a in ps if not isinstance(a, tuple)]), text=body)
    lx = J.lex(ps)
    U.ensures("the text is a well-formed Java literal body", lx is not None, text=body if U.mode == "conc" else None)
    if lx is None:
        return
    units, side = lx
    want = []
    for c in cps:
        want.extend(J.utf16(c))      # forks on c > 0xFFFF
    U.ensures("every hex conversion renders exactly one digit and no escape breaks the literal", And(*side))
    U.ensures("the literal denotes exactly the original UTF-16 units", Eq(units, want),
              got=units if U.mode == "conc" else None, want=want if U.mode == "conc" else None)


def _cps(s):
    return list(s.items) if hasattr(s, "items") else [ord(c) for c in s]


@unit("C23", covers=[(WR, "string")], params=[{"n": 0}, {"n": 1}, {"n": 2}], samples=300, max_paths=20000)
def string_literal(U, n):
    m = U.mod(WR)
    s = U.str("s", n)
    _check(U, m, s, _cps(s))


@unit("C23", covers=[(WR, "string")], level="bounded", samples=400,
      note="random strings of length 3..6 over the full code-point range (boundary-biased sampler)", params=[{"n": k} for k in (3, 4, 6)])
def longer_strings(U, n):
    m = U.mod(WR)
    s = U.str("s", n)
    _check(U, m, s, _cps(s))


class _W:
    pass


@unit("C23", covers=[(WR, "Writer.visit_constant")], params=[{"n": k} for k in (0, 1, 2, 4, 5)], samples=120)
def visit_constant(U, n):
    """string constants of every content (lengths 0..5: includes the texts of Java keywords such as true / false / null) are
    written through string(), i.e. as a quoted literal"""
    m = U.mod(WR)
    s = U.str("s", n, 0x20, 0x7E) if n >= 4 else U.str("s", n)
    w = bare(m.Writer)
    out = []
    w.write = lambda text, data=None: out.append((text, data))
    o = U.call(w.visit_constant, s)
    ref = U.call(m.string, s)
    from pyvc.text import text_eq
    U.ensures("visit_constant writes string(cst)", And(o.ok and ref.ok and len(out) == 1, text_eq(out[0][0], ref.value) if out else False))
