"""Shared stub world for the CFG suite (C08, C10, C11, C12, C40): a tiny Dalvik assembler that
lays out small methods (plain, branch, return/throw, switch + payload instructions, try
tables), and stub EncodedMethod / DalvikCode objects around the *real* DCode (so the real
linear sweep, determineNext, determineException, MethodAnalysis._create_basic_block and
DEXBasicBlock run on them).  The expected layout (instruction offsets, targets) comes from
the assembler, not from androguard."""
import struct

BRANCHING = set(range(0x0E, 0x12)) | {0x27} | set(range(0x28, 0x2D)) | set(range(0x32, 0x3E))

# (kind, length in bytes)
LEN = {"nop": 2, "const": 4, "goto": 2, "ifz": 4, "ret": 2, "throw": 2, "pswitch": 6, "sswitch": 6, "fill": 6}
OUT = "out"   # symbolic target "outside the method"


class Prog:
    """items: list of (kind, args); args: target indices (int = instruction index, OUT) for branches"""

    def __init__(self, items, tries=(), misalign=False):
        self.items = list(items)
        self.offs = []
        o = 0
        for k, _ in self.items:
            self.offs.append(o)
            o += LEN[k]
        self.body_end = o
        # payloads after the body, 4-byte aligned (nop padding)
        self.payload_off = {}
        self.pad = []
        for i, (k, a) in enumerate(self.items):
            if k in ("pswitch", "sswitch", "fill"):
                if o % 4 != 0 and not misalign:
                    self.pad.append(o)
                    o += 2
                self.payload_off[i] = o
                o += self._payload_len(k, a)
        self.total = o
        self.tries = list(tries)   # (start_idx, end_idx_exclusive, [(type_idx, handler_idx)], catch_all_idx or None)

    def _payload_len(self, k, a):
        if k == "pswitch":
            return 8 + 4 * len(a)
        if k == "sswitch":
            return 4 + 8 * len(a)
        return 8 + ((len(a) + 1) // 2) * 2   # fill: width 1, size len(a)

    def off_of(self, t):
        """byte offset of target t (instruction index), or an offset outside the method"""
        if t == OUT:
            return self.total + 64
        if t == len(self.items):
            return self.body_end
        return self.offs[t]

    def encode(self):
        b = bytearray()
        for i, (k, a) in enumerate(self.items):
            o = self.offs[i]
            if k == "nop":
                b += b"\x00\x00"
            elif k == "const":
                b += b"\x13\x00\x34\x12"
            elif k == "ret":
                b += b"\x0e\x00"
            elif k == "throw":
                b += b"\x27\x00"
            elif k == "goto":
                rel = (self.off_of(a) - o) // 2
                rel = max(-128, min(127, rel))
                b += struct.pack("<Bb", 0x28, rel)
            elif k == "ifz":
                rel = (self.off_of(a) - o) // 2
                b += struct.pack("<BBh", 0x38, 0, rel)
            elif k in ("pswitch", "sswitch", "fill"):
                op = {"pswitch": 0x2B, "sswitch": 0x2C, "fill": 0x26}[k]
                b += struct.pack("<BBi", op, 0, (self.payload_off[i] - o) // 2)
        for i, (k, a) in enumerate(self.items):
            if i not in self.payload_off:
                continue
            while len(b) < self.payload_off[i]:
                b += b"\x00\x00"
            o = self.offs[i]
            if k == "pswitch":
                b += struct.pack("<HHi", 0x0100, len(a), 7)
                for t in a:
                    b += struct.pack("<i", (self.off_of(t) - o) // 2)
            elif k == "sswitch":
                b += struct.pack("<HH", 0x0200, len(a))
                for j in range(len(a)):
                    b += struct.pack("<i", 10 * j)
                for t in a:
                    b += struct.pack("<i", (self.off_of(t) - o) // 2)
            else:
                b += struct.pack("<HHI", 0x0300, 1, len(a)) + bytes(a) + (b"\x00" if len(a) % 2 else b"")
        assert len(b) == self.total, (len(b), self.total)
        return bytes(b)

    # ---- expectations from the layout
    def ins_offsets(self):
        """offsets of everything the disassembler must yield: instructions, padding nops, payloads"""
        offs = list(self.offs) + list(self.pad) + sorted(self.payload_off.values())
        return sorted(offs)

    def goto_target(self, i):
        k, a = self.items[i]
        o = self.offs[i]
        if k == "goto":
            rel = max(-128, min(127, (self.off_of(a) - o) // 2))
            return o + 2 * rel
        return self.off_of(a)

    def branch_targets(self, i):
        """byte targets of instruction i other than fall-through (may be outside / not an instruction)"""
        k, a = self.items[i]
        if k == "goto":
            return [self.goto_target(i)]
        if k == "ifz":
            return [self.off_of(a)]
        if k in ("pswitch", "sswitch"):
            return [self.off_of(t) for t in a]
        return []

    def is_branching(self, i):
        return self.items[i][0] in ("goto", "ifz", "ret", "throw", "pswitch", "sswitch")

    def try_records(self):
        """expected determineException() records (C08), in try-item order"""
        out = []
        for (s, e, hs, ca) in self.tries:
            start = self.off_of(s)
            end = self.off_of(e)
            rec = [start, end - 1]
            for (tidx, h) in hs:
                rec.append(["T%d" % tidx, self.off_of(h)])
            if ca is not None:
                rec.append(["Ljava/lang/Throwable;", self.off_of(ca)])
            out.append(rec)
        return out


# ---------------------------------------------------------------------------------------------
# stub objects around the real DCode


class _Packer:
    def __getitem__(self, item):
        return struct.Struct("<" + item)


class CM:
    packer = _Packer()

    def get_odex_format(self):
        return False


class _Try:
    def __init__(self, start_units, count_units, handler_off):
        self.s, self.c, self.h = start_units, count_units, handler_off

    def get_start_addr(self):
        return self.s

    def get_insn_count(self):
        return self.c

    def get_handler_off(self):
        return self.h


class _Pair:
    def __init__(self, t, addr_units):
        self.t, self.a = t, addr_units

    def get_type_idx(self):
        return self.t

    def get_addr(self):
        return self.a


class _Handler:
    def __init__(self, off, pairs, catch_all_units):
        self.off, self.pairs, self.ca = off, pairs, catch_all_units

    def get_off(self):
        return self.off

    def get_handlers(self):
        return self.pairs

    def get_size(self):
        return -len(self.pairs) if self.ca is not None else len(self.pairs)

    def get_catch_all_addr(self):
        return self.ca if self.ca is not None else -1


class _HandlerList:
    def __init__(self, off, handlers):
        self.off, self.handlers = off, handlers

    def get_off(self):
        return self.off

    def get_list(self):
        return self.handlers


class Code:
    def __init__(self, dexmod, prog, share_handlers=False):
        self.prog = prog
        self.bc = dexmod.DCode(CM(), 0, prog.total // 2, prog.encode())
        base = 1000
        self.tries, hs = [], []
        for k, (s, e, handlers, ca) in enumerate(prog.tries):
            hoff = 4 + 10 * (0 if share_handlers else k)
            self.tries.append(_Try(prog.off_of(s) // 2, (prog.off_of(e) - prog.off_of(s)) // 2, hoff))
            if not share_handlers or k == 0:
                hs.append(_Handler(base + hoff, [_Pair(t, prog.off_of(h) // 2) for t, h in handlers],
                                   prog.off_of(ca) // 2 if ca is not None else None))
        self.handlers = _HandlerList(base, hs)

    def get_bc(self):
        return self.bc

    def get_tries_size(self):
        return len(self.tries)

    def get_tries(self):
        return self.tries

    def get_handlers(self):
        return self.handlers

    def get_length(self):
        return self.prog.total


class Method:
    def __init__(self, dexmod, prog, share_handlers=False):
        self.code = Code(dexmod, prog, share_handlers)
        self.get_instructions_idx = lambda: dexmod.EncodedMethod.get_instructions_idx(self)

    def get_code(self):
        return self.code

    def get_code_off(self):
        return 0

    def get_instructions(self):
        return self.code.get_bc().get_instructions()

    def get_name(self):
        return "m"

    def get_descriptor(self):
        return "()V"

    def get_class_name(self):
        return "LX;"

    def get_access_flags_string(self):
        return "public"


class VM:
    def get_cm_type(self, idx):
        return "T%d" % idx


# ---------------------------------------------------------------------------------------------
# enumeration of small programs


def program_at(n, tier, index):
    """the index-th program of programs(n, tier), computed without materialising the list"""
    alpha = alphabet(n, tier)
    items = []
    for _ in range(n):
        items.append(alpha[index % len(alpha)])
        index //= len(alpha)
    return list(reversed(items))


def programs(n, tier):
    """all programs of exactly n instructions over the alphabet (targets = instruction indices 0..n or OUT)"""
    alpha = alphabet(n, tier)

    def rec(k):
        if k == 0:
            yield []
            return
        for rest in rec(k - 1):
            for a in alpha:
                yield rest + [a]
    return rec(n)


def alphabet(n, tier):
    targets = list(range(n + 1)) + [OUT]
    alpha = [("nop", None), ("const", None), ("ret", None), ("throw", None)]
    alpha += [("goto", t) for t in targets] + [("ifz", t) for t in targets]
    sw = [(t, t) for t in targets[:-1]] + [(t, (t + 1) % (n + 1)) for t in range(n + 1)] + [(0, OUT)]
    alpha += [("pswitch", list(p)) for p in sw]
    alpha += [("sswitch", [0, n])]              # sparse switch with a backward and a forward case
    if tier != "quick":
        alpha += [("sswitch", list(p)) for p in sw[:n + 2]] + [("fill", [1, 2, 3])]
    return alpha


def try_layouts(n, tier):
    """a few try tables over an n-instruction body"""
    yield ()
    if n >= 2:
        yield ((0, 1, [(1, n - 1)], None),)
        yield ((1, n, [], 0),)
    if n >= 3:
        yield ((0, 2, [(1, 2)], 1), (2, 3, [(2, 0)], None))
        # two try ranges over one straight-line run whose handlers start where a block starts anyway: only the try starts
        # themselves separate the ranges
        yield ((0, 1, [(1, 0)], None), (1, 3, [(2, 0)], None))
        if tier != "quick":
            yield ((1, 2, [(1, 0), (2, 2)], None), (0, 1, [], 2))
            yield ((0, 3, [(3, 1)], None),)
