"""C15  String and class-usage cross-references are exact (DESIGN §7 C15)."""
from contracts import xrefsuite as S, xrefworld as X
from pyvc.core import And, Eq, Implies, Ite, Not, Or
from pyvc.unit import unit

ANA = S.ANA
META = {
    "technique": 'contract-based deductive verification: symbolic execution of the real functions against sidecar contracts (z3/cvc5) for the proved units; bounded contract evaluation (enumerated scope / independent writer) for the rest',
    "level": "other",
    "partial": True,
    "level_text": "Bounded on REAL DEX files (independent writer, real parser, real Analysis, merged or split): every string lists exactly the const-string(/jumbo) sites, every class exactly the new-instance / const-class sites (arrays by element class) of the model. Proof: _create_xref on a stub method whose instruction has a symbolic opcode (all 256 values): exactly 0x1a/0x1b "
                  "record the instruction (class, method, offset) on the loaded string and on no other string; exactly 0x22 / 0x1c on "
                  "another class record a new-instance / const-class usage on that class and on the method, and nothing else. "
                  "Bounded: exactness over every enumerated world (internal, other-DEX, external, array and primitive types; the "
                  "current class itself is not 'another class').",
    "trusted": ["stub DEX world (contracts/xrefworld.py)"],
    "explanation": "opcode dispatch proved (symbolic opcode); exactness over whole worlds bounded: " + S.NOTE,
    "assumptions": ["array types: the usage is recorded on the element class (androguard's model); arrays of primitives record nothing"],
}


@unit("C15", covers=[(ANA, "Analysis._create_xref"), (ANA, "StringAnalysis.add_xref_from"), (ANA, "ClassAnalysis.add_xref_new_instance"),
                     (ANA, "ClassAnalysis.add_xref_const_class"), (ANA, "MethodAnalysis.add_xref_new_instance"),
                     (ANA, "MethodAnalysis.add_xref_const_class")], params=[{"dims": d} for d in (0, 1, 2, 3)], samples=256)
def string_and_class_opcodes(U, dims):
    op = U.int("op", 0, 255)
    ana = U.mod(ANA)
    vms, index = X.make_world(S.SPLITS[0])
    vm = vms[0]
    mA = index["LA;"].methods[0]
    vm.types.append("[" * dims + "LB;")
    vm.methods.append(("LB;", "m1", "()V"))
    vm.strings += ["s1", "s2"]
    vm.fields.append(("LA;", "f", "I"))
    mA.ins.append((6, X.Ins(op, 0, vm.holder)))
    dx = ana.Analysis()
    dx.add(vm)
    o = U.call(dx.create_xref)
    U.ensures("does not raise", o.ok, exc=repr(o.exc))
    if not o.ok:
        return
    v = S.view(dx)
    me = v["methods"][S.A_M1]
    cb = v["classx"][("LB;", False)]
    opc = op if isinstance(op, int) else op.concretize()
    here = [(("LA;", False), S.A_M1, 6)]
    U.ensures("const-string(/jumbo) and only they reference the loaded string, and no other string",
              v["strings"]["s1"] == (here if opc in (0x1A, 0x1B) else []) and v["strings"]["s2"] == [], op=opc, got=v["strings"])
    U.ensures("new-instance and only it records an instantiation (on the class and in the method)",
              cb["new"] == ([(S.A_M1, 6)] if opc == 0x22 else []) and me["new"] == ([(("LB;", False), 6)] if opc == 0x22 else []),
              op=opc, got=cb["new"])
    U.ensures("const-class and only it records a class reference (on the class and in the method)",
              cb["const"] == ([(S.A_M1, 6)] if opc == 0x1C else []) and me["const"] == ([(("LB;", False), 6)] if opc == 0x1C else []),
              op=opc, got=cb["const"])


@unit("C15", covers=[(ANA, "Analysis._create_xref")], params=S.PARAMS, level="bounded", note=S.NOTE)
def exact_usage(U, chunk):
    g = U.given or {"split": 0, "order": 0, "a": 7, "b": 10}
    U.drawn.update(g)
    o = U.call(S.build, U, g)
    U.ensures("analysis does not raise", o.ok, exc=repr(o.exc), **g)
    if not o.ok:
        return
    dx, vms, index, prog = o.value
    v = S.view(dx)
    want_s = {"s1": [(("LB;", False), ("LB;", "m1", "()V", False), 12)]}
    want_new, want_const = {"LC;": [(("LB;", "m1", "()V", False), 20)]}, {}
    for off, kind, tgt in prog:
        if kind == "string":
            want_s.setdefault(tgt, []).append((("LA;", False), S.A_M1, off))
        if kind in ("new", "constclass"):
            t = S.strip(tgt)
            if t.startswith("L") and t != "LA;":
                (want_new if kind == "new" else want_const).setdefault(t, []).append((S.A_M1, off))
    for s, refs in v["strings"].items():
        U.ensures("each string lists exactly the const-string instructions that load it", refs == sorted(want_s.get(s, [])),
                  string=s, got=refs, **g)
    U.ensures("every loaded string is known", all(s in v["strings"] for s in want_s), **g)
    for ck, cx in v["classx"].items():
        U.ensures("instantiation list of each class is exact", cx["new"] == sorted(want_new.get(ck[0], [])), cls=ck, got=cx["new"], **g)
        U.ensures("class-reference list of each class is exact", cx["const"] == sorted(want_const.get(ck[0], [])), cls=ck, got=cx["const"], **g)
    me = v["methods"][S.A_M1]
    U.ensures("the method's own lists mirror them",
              sorted((c[0], o2) for c, o2 in me["new"]) == sorted((c, o2) for c, l in want_new.items() for m_, o2 in l if m_ == S.A_M1) and
              sorted((c[0], o2) for c, o2 in me["const"]) == sorted((c, o2) for c, l in want_const.items() for m_, o2 in l if m_ == S.A_M1),
              got=(me["new"], me["const"]), **g)


exact_usage.enumerate_inputs = lambda tier, chunk: S.enum_inputs(tier, chunk)


from contracts import xrefreal as XR  # noqa: E402
import random as _random  # noqa: E402


@unit("C15", covers=[(ANA, "Analysis._create_xref"), (ANA, "StringAnalysis.add_xref_from"), (ANA, "ClassAnalysis.add_xref_new_instance"),
                     (ANA, "ClassAnalysis.add_xref_const_class")], level="bounded", samples=60, note=XR.NOTE)
def real_dex_string_and_class_usage(U):
    seed = U.int("seed", 0, 1 << 30)
    rng = _random.Random(seed)
    classes = XR.model(rng)
    groups = rng.choice(list(XR.splits(classes)))
    o = U.call(XR.analyse, U, classes, groups)
    U.ensures("analysis does not raise", o.ok, exc=repr(o.exc)[:200])
    if not o.ok:
        return
    exp, defined = XR.expected(classes)
    v = S.view(o.value)
    for s, sites in exp["strings"].items():
        got = {(m2[:3], off) for _, m2, off in v["strings"].get(s, [])}
        U.ensures("a string lists exactly the const-string(/jumbo) instructions that load it", got == sites, string=s, got=sorted(got),
                  want=sorted(sites), groups=groups)
    for s, refs in v["strings"].items():
        if s not in exp["strings"]:
            U.ensures("a string no instruction loads has no cross-reference", not refs, string=s, got=refs[:3])
    for ck, cx in v["classx"].items():
        for key, kind in (("new", "new"), ("const", "const")):
            got = {(m2[:3], off) for m2, off in cx[key]}
            U.ensures("a class lists exactly the %s instructions that name it (arrays by element class)" %
                      ("new-instance" if key == "new" else "const-class"), got == exp[kind].get(ck[0], set()), cls=ck, got=sorted(got),
                      want=sorted(exp[kind].get(ck[0], set())), groups=groups)
    for t in list(exp["new"]) + list(exp["const"]):
        U.ensures("every referenced class is known to the analysis", any(ck[0] == t for ck in v["classx"]), cls=t)
