"""C04  Encoded constant values keep their declared width and signedness (DESIGN §7 C04)."""
import re

from pyvc.core import And, Eq, Implies, Ite, Not, Or
from pyvc.unit import bare, unit

DEX = "androguard/core/dex/__init__.py"
DEC = "androguard/decompiler/decompile.py"
META = {
    "technique": 'contract-based deductive verification: symbolic execution of the real functions against sidecar contracts (z3/cvc5) for the proved units; bounded contract evaluation (enumerated scope / independent writer) for the rest',
    "level": "other",
    "partial": True,
    "level_text": "Proof: EncodedValue.__init__/_getintvalue (every value type, every legal value_arg, every payload bit pattern), "
                  "EncodedArray/EncodedAnnotation nesting (arrays of up to 3 elements, sizes concrete, payloads symbolic), and "
                  "ClassDataItem.set_static_fields (values bound to fields by position) are executed symbolically and proved equal "
                  "to the DEX encoded_value definition. Bounded (not proved): the decompiler's field-initialiser printing in "
                  "DvClass.get_source is run concretely on boundary/sampled values and the printed literal parsed back.",
    "trusted": ["struct model", "ClassManager resolvers are opaque (obligation: right resolver, right zero-extended index)",
                "stream model (SymStream)"],
    "explanation": "EncodedValue decoding proved for all payloads; nested arrays/annotations for small concrete element counts; "
                   "printing of initialisers bounded by sampling.",
    "assumptions": ["floats and doubles (not named by the statement, but printed by the decompiler) are decoded as IEEE-754 bit patterns zero-extended to the right: unit float_values; method types and method handles are not in the statement: no clause; the spelling of inf/nan in printed initialisers is not pinned",
                    "arrays: element count is a concrete 0..3 in the proof units (the per-element argument does not depend on the count)"],
}

VB, VS, VC, VI, VL = 0x00, 0x02, 0x03, 0x04, 0x06
SIGNED = {VB: 1, VS: 2, VI: 4, VL: 8}
INT_PARAMS = [{"vt": VB, "arg": 0}] + [{"vt": VS, "arg": a} for a in range(2)] + [{"vt": VC, "arg": a} for a in range(2)] \
    + [{"vt": VI, "arg": a} for a in range(4)] + [{"vt": VL, "arg": a} for a in range(8)]


class PoolCM:
    def __init__(self, packer):
        self.packer = packer
        self.log = []

    def _r(self, which, idx):
        self.log.append((which, idx))
        return ("resolved", which, len(self.log))

    def get_raw_string(self, idx):
        return self._r("string", idx)

    def get_string(self, idx):
        return self._r("string", idx)

    def get_type(self, idx):
        return self._r("type", idx)

    def get_field(self, idx):
        return self._r("field", idx)

    def get_method(self, idx):
        return self._r("method", idx)


def _le(bs, signed):
    v = 0
    for i, x in enumerate(bs):
        v = v | (x << (8 * i))
    if signed:
        n = 8 * len(bs)
        v = Ite(v >= (1 << (n - 1)), v - (1 << n), v)
    return v


def _items(b):
    return list(b.items) if hasattr(b, "items") else list(b)


@unit("C04", covers=[(DEX, "EncodedValue.__init__"), (DEX, "EncodedValue._getintvalue"), (DEX, "EncodedValue._signextend"),
                     (DEX, "EncodedValue.get_value"), (DEX, "get_sbyte")], params=INT_PARAMS)
def integer_values(U, vt, arg):
    """byte/short/int/long sign-extended, char zero-extended, for every payload"""
    m = U.mod(DEX)
    n = arg + 1
    payload = U.bytes("p", n)
    tail = U.bytes("tail", 2)
    data = bytes([(arg << 5) | vt]) + payload + tail if U.mode == "conc" else \
        U.buffer([(arg << 5) | vt], "x", 0) + payload + tail
    buff = U.stream(data)
    o = U.call(m.EncodedValue, buff, PoolCM(U.packer()))
    U.ensures("constructor does not raise", o.ok, exc=repr(o.exc))
    if not o.ok:
        return
    ev = o.value
    want = _le(_items(payload), vt in SIGNED)
    U.ensures("value has the declared width and signedness", ev.get_value() == want, got=ev.get_value(), want=want, payload=payload)
    U.ensures("consumes exactly header + value_arg+1 bytes", buff.tell() == 1 + n, pos=buff.tell())
    U.ensures("type and arg reported", And(ev.get_value_type() == vt, ev.get_value_arg() == arg))


IDX = {0x17: "string", 0x18: "type", 0x19: "field", 0x1A: "method", 0x1B: "field"}


@unit("C04", covers=[(DEX, "EncodedValue.__init__")], params=[{"vt": t, "arg": a} for t in IDX for a in range(4)])
def index_values(U, vt, arg):
    """string/type/field/method/enum: zero-extended index handed to the matching resolver, result returned"""
    m = U.mod(DEX)
    n = arg + 1
    payload = U.bytes("p", n)
    data = bytes([(arg << 5) | vt]) + payload if U.mode == "conc" else U.buffer([(arg << 5) | vt], "x", 0) + payload
    buff = U.stream(data)
    cm = PoolCM(U.packer())
    o = U.call(m.EncodedValue, buff, cm)
    U.ensures("constructor does not raise", o.ok, exc=repr(o.exc))
    if not o.ok:
        return
    want = _le(_items(payload), False)
    U.ensures("exactly one resolver call", len(cm.log) == 1)
    if len(cm.log) == 1:
        U.ensures("resolver kind", cm.log[0][0] == IDX[vt], got=cm.log[0][0])
        U.ensures("index is the zero-extended payload", cm.log[0][1] == want, got=cm.log[0][1])
        U.ensures("value is the resolved item", o.value.get_value() == ("resolved", IDX[vt], 1))
    U.ensures("consumes exactly header + value_arg+1 bytes", buff.tell() == 1 + n)


@unit("C04", covers=[(DEX, "EncodedValue.__init__")])
def boolean_null(U):
    m = U.mod(DEX)
    which = U.choice("which", ["true", "false", "null"])
    hdr = {"true": (1 << 5) | 0x1F, "false": 0x1F, "null": 0x1E}[which]
    buff = U.stream(bytes([hdr, 0xAA]))
    o = U.call(m.EncodedValue, buff, PoolCM(U.packer()))
    U.ensures("constructor does not raise", o.ok)
    if o.ok:
        v = o.value.get_value()
        U.ensures("boolean/null value", (v is True) if which == "true" else (v is False) if which == "false" else (v is None))
        U.ensures("no payload consumed", buff.tell() == 1)


@unit("C04", covers=[(DEX, "EncodedArray.__init__"), (DEX, "EncodedValue.__init__")], params=[{"k": k} for k in range(4)])
def arrays(U, k):
    """VALUE_ARRAY of k signed-byte/short elements: elements reported in order with their own signedness"""
    m = U.mod(DEX)
    elems, data = [], [0x1C, k]
    for i in range(k):
        short = U.bool("short%d" % i)
        p = U.bytes("e%d" % i, 2)
        elems.append((short, p))
    if U.mode == "sym":
        # fork on the element kinds so that the byte layout is concrete in length
        elems = [(bool(s), p) for s, p in elems]
    for short, p in elems:
        pi = _items(p)
        data += ([(1 << 5) | VS] + pi) if short else ([VB] + pi[:1])
    from pyvc.core import SymBytes
    buf = SymBytes(data + [0x99]) if U.mode == "sym" else bytes(data + [0x99])
    buff = U.stream(buf)
    o = U.call(m.EncodedValue, buff, PoolCM(U.packer()))
    U.ensures("constructor does not raise", o.ok, exc=repr(o.exc))
    if not o.ok:
        return
    arr = o.value.get_value()
    vals = arr.get_values()
    U.ensures("array size", And(arr.get_size() == k, len(vals) == k))
    if len(vals) != k:
        return
    for i, (short, p) in enumerate(elems):
        pi = _items(p)
        want = _le(pi[:2] if short else pi[:1], True)
        U.ensures("element %d value" % i, vals[i].get_value() == want, got=vals[i].get_value())
    U.ensures("consumes exactly the array", buff.tell() == len(data))


@unit("C04", covers=[(DEX, "EncodedAnnotation.__init__"), (DEX, "AnnotationElement.__init__")], params=[{"k": k} for k in range(3)])
def annotations(U, k):
    """VALUE_ANNOTATION with k elements (name_idx uleb, int value)"""
    m = U.mod(DEX)
    t = U.int("type_idx", 0, 127)
    data = [0x1D, t, k]
    names, pay = [], []
    for i in range(k):
        nm = U.int("name%d" % i, 0, 127)
        p = U.bytes("v%d" % i, 4)
        names.append(nm)
        pay.append(p)
        data += [nm, (3 << 5) | VI] + _items(p)
    from pyvc.core import SymBytes
    buff = U.stream(SymBytes(data) if U.mode == "sym" else bytes(data))
    o = U.call(m.EncodedValue, buff, PoolCM(U.packer()))
    U.ensures("constructor does not raise", o.ok, exc=repr(o.exc))
    if not o.ok:
        return
    an = o.value.get_value()
    U.ensures("annotation type index and size", And(an.get_type_idx() == t, an.get_size() == k, len(an.get_elements()) == k))
    for i, el in enumerate(an.get_elements()[:k]):
        U.ensures("element %d name and nested value" % i,
                  And(el.get_name_idx() == names[i], el.get_value().get_value() == _le(_items(pay[i]), True)))
    U.ensures("consumes exactly the annotation", buff.tell() == len(data))


class _Vals:
    def __init__(self, vals):
        self.vals = vals

    def get_values(self):
        return self.vals


@unit("C04", covers=[(DEX, "ClassDataItem.set_static_fields"), (DEX, "EncodedField.set_init_value"),
                     (DEX, "EncodedField.get_init_value")], params=[{"nf": nf, "nv": nv} for nf in range(4) for nv in range(nf + 1)])
def static_field_binding(U, nf, nv):
    """the i-th static value initialises the i-th static field; fields beyond the array get none"""
    m = U.mod(DEX)
    cdi = bare(m.ClassDataItem)
    fields = []
    for i in range(nf):
        f = bare(m.EncodedField)
        f.init_value = None
        fields.append(f)
    cdi.static_fields = fields
    other = bare(m.EncodedField)
    other.init_value = None
    cdi.instance_fields = [other]
    vals = [("value", i) for i in range(nv)]
    o = U.call(cdi.set_static_fields, _Vals(vals))
    U.ensures("does not raise", o.ok)
    U.ensures("values bound by position, rest untouched",
              all(fields[i].get_init_value() is (vals[i] if i < nv else None) for i in range(nf))
              and other.get_init_value() is None)
    o2 = U.call(cdi.set_static_fields, None)
    U.ensures("None leaves fields unchanged", o2.ok and all(fields[i].get_init_value() is (vals[i] if i < nv else None) for i in range(nf)))


class _Field:
    def __init__(self, proto, value):
        self.proto = proto
        self._v = value
        self.name = "f"

    def get_name(self):
        return "f"

    def get_access_flags(self):
        return 0x19

    def get_descriptor(self):
        return self.proto

    def get_init_value(self):
        return self._v


def _float_enum(tier, **_):
    import struct
    pats32 = [0x3F800000, 0xBF800000, 0x3F000000, 0x7F7FFFFF, 0x00000001, 0x80000000, 0x7F800000, 0x40490FDB, 0x00800000, 0x3FC00000, 0]
    pats64 = [0x3FF0000000000000, 0xBFF0000000000000, 0x7FEFFFFFFFFFFFFF, 1, 0x8000000000000000, 0x400921FB54442D18, 0x4059000000000000, 0,
              0x3FF8000000000000, 0x7FF0000000000000]
    for p in pats32:
        for n in range(1, 5):       # value_arg + 1 bytes: the high-order bytes; a shorter form only exists if the dropped bytes are 0
            if p & ((1 << (8 * (4 - n))) - 1) == 0 or n == 4:
                yield {"wide": False, "bits": p, "n": n}
    for p in pats64:
        for n in range(1, 9):
            if p & ((1 << (8 * (8 - n))) - 1) == 0 or n == 8:
                yield {"wide": True, "bits": p, "n": n}


@unit("C04", covers=[(DEX, "EncodedValue.__init__")], level="bounded",
      note="VALUE_FLOAT / VALUE_DOUBLE: boundary bit patterns in every legal encoded width (value_arg), payload = the high-order bytes")
def float_values(U):
    import struct
    dex = U.mod(DEX)
    g = U.given or {"wide": False, "bits": 0x3F800000, "n": 2}
    U.drawn.update(g)
    size = 8 if g["wide"] else 4
    full = g["bits"].to_bytes(size, "little")
    payload = full[size - g["n"]:]
    data = bytes([((g["n"] - 1) << 5) | (0x11 if g["wide"] else 0x10)]) + payload + b"\x55"
    buff = U.stream(data)
    o = U.call(dex.EncodedValue, buff, U.cm())
    U.ensures("does not raise", o.ok, exc=repr(o.exc))
    if o.ok:
        want = struct.unpack("<d" if g["wide"] else "<f", full)[0]
        got = o.value.get_value()
        U.ensures("the value is the IEEE754 number of the bit pattern zero-extended to the right",
                  isinstance(got, float) and struct.pack("<d", got) == struct.pack("<d", want), got=repr(got), want=repr(want), **g)
        U.ensures("exactly the payload is consumed", buff.tell() == 1 + g["n"])


float_values.enumerate_inputs = lambda tier, **p: _float_enum(tier)

STRING_VALUES = [None, "", "a", 'a"b', "back\\slash", "tab\there", "\x01\x7f", "é", "日本", "\U0001F600", "\ud83d", "nul\x00in", "it's", "\n"]


@unit("C04", covers=[(DEC, "DvClass.get_source"), (DEC, "DvClass.get_source_ext"), (DEC, "get_field_ast")], level="bounded",
      note="String constants (null, empty, quotes, backslashes, control characters, non-ASCII, supplementary, a lone surrogate) and "
           "negative byte constants through get_source / get_source_ext / get_ast")
def printed_string_and_ast(U):
    dec, dex = U.mod(DEC), U.mod(DEX)
    i = U.given.get("i", 0) if U.given else 0
    U.drawn["i"] = i
    v = STRING_VALUES[i]
    ev = bare(dex.EncodedValue)
    ev.value = v
    f = _Field("Ljava/lang/String;", ev)
    c = bare(dec.DvClass)
    c.inner, c.package, c.superclass, c.prototype = False, "", None, "public class X"
    c.interfaces, c.fields, c.methods, c.name, c.access, c.thisclass = [], [f], [], "X", ["public"], "LX;"
    o = U.call(c.get_source)
    U.ensures("get_source does not raise", o.ok, exc=repr(o.exc))
    if o.ok:
        mt = re.search(r" f = (.*);\n", o.value, re.S)
        U.ensures("an initialiser is printed", mt is not None, src=o.value)
        if mt:
            lit = mt.group(1)
            if v is None:
                U.ensures("a null constant is printed as null (not as the empty string)", lit == "null", printed=lit)
            else:
                from specs import javalex
                raw = v.encode("utf-16-le", "surrogatepass")
                want = [int.from_bytes(raw[k:k + 2], "little") for k in range(0, len(raw), 2)]
                r = javalex.lex([ord(ch) for ch in lit[1:-1]]) if len(lit) >= 2 and lit[0] == lit[-1] == '"' else None
                ok = r is not None and all(bool(x) for x in r[1]) and r[0] == want
                U.ensures("the printed text is one Java string literal denoting exactly the constant's UTF-16 units",
                          ok, printed=lit, units=None if r is None else r[0], want=want)
    # negative byte constants: the AST of the class can be built and carries the value
    for bv in (-128, -1, 0, 127):
        evb = bare(dex.EncodedValue)
        evb.value = bv
        fb = _Field("B", evb)
        fb.init_value = evb
        fb.get_class_name = lambda: "LX;"
        a = U.call(dec.get_field_ast, fb)
        U.ensures("get_field_ast does not raise for a byte constant", a.ok, exc=repr(a.exc), value=bv)
        if a.ok:
            U.ensures("and carries the byte value", str(bv) in str(a.value["expr"]) or hex(bv) in str(a.value["expr"]), expr=str(a.value["expr"])[:80], value=bv)


printed_string_and_ast.enumerate_inputs = lambda tier, **p: iter([{"i": k} for k in range(len(STRING_VALUES))])


def _print_enum(tier, **_):
    for proto, (lo, hi) in {"B": (-128, 127), "S": (-32768, 32767), "I": (-2 ** 31, 2 ** 31 - 1), "J": (-2 ** 63, 2 ** 63 - 1),
                            "C": (0, 65535)}.items():
        vals = {lo, lo + 1, -1 if lo < 0 else 1, 0, 1, hi - 1, hi, hi // 2, lo // 2 if lo else 7}
        for v in sorted(vals):
            yield {"proto": proto, "v": v}


@unit("C04", covers=[(DEC, "DvClass.get_source"), (DEC, "DvClass.get_source_ext")], level="bounded",
      note="boundary values of each integral field type; printed initialiser parsed back with Java literal rules (decimal/hex, sign)")
def printed_initialiser(U):
    """the decompiler prints the same integer in the field initialiser (bounded: enumerated values)"""
    dec = U.mod(DEC)
    dex = U.mod(DEX)
    proto = U.choice("proto", ["B", "S", "I", "J", "C"])
    v = U.int("v", -2 ** 63, 2 ** 63 - 1)
    ev = bare(dex.EncodedValue)
    ev.value = v
    c = bare(dec.DvClass)
    c.inner, c.package, c.superclass, c.prototype = False, "", None, "public class X"
    c.interfaces, c.fields, c.methods, c.name, c.access, c.thisclass = [], [_Field(proto, ev)], [], "X", ["public"], "LX;"
    o = U.call(c.get_source)
    U.ensures("get_source does not raise", o.ok, exc=repr(o.exc))
    if o.ok:
        mt = re.search(r" f = (-?(?:0x[0-9a-fA-F]+|\d+))L?;", o.value)
        U.ensures("initialiser is an integer literal", mt is not None, src=o.value)
        if mt:
            U.ensures("printed literal denotes the value", int(mt.group(1), 0) == v, printed=mt.group(1), value=v)
    o2 = U.call(c.get_source_ext)
    if o2.ok:
        txt = "".join(x[1] if isinstance(x, tuple) else str(x) for part in o2.value for x in (part[1] if isinstance(part, tuple) and isinstance(part[1], list) else [part]))
        mt = re.search(r" = (-?(?:0x[0-9a-fA-F]+|\d+))", txt)
        if mt:
            U.ensures("get_source_ext literal denotes the value", int(mt.group(1), 0) == v, printed=mt.group(1), value=v)


printed_initialiser.enumerate_inputs = lambda tier, **p: _print_enum(tier)
