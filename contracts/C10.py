"""C10  Basic blocks partition each method at every control-flow boundary (DESIGN §7 C10)."""
from contracts import cfgsuite as S, cfgworld as W
from pyvc.core import And, Eq, Implies, Ite, Not, Or
from pyvc.unit import bare, unit
from specs import dalvik_formats as F

ANA, DEX = S.ANA, S.DEX
META = {
    "technique": 'contract-based deductive verification: symbolic execution of the real functions against sidecar contracts (z3/cvc5) for the proved units; bounded contract evaluation (enumerated scope / independent writer) for the rest',
    "level": "other",
    "partial": True,
    "level_text": "Proof (leaf contracts, all inputs): determineNext for a symbolic opcode/offset/length and symbolic switch targets "
                  "equals the Dalvik successor rule; DEXBasicBlock.push and BasicBlocks.get_basic_block over symbolic block bounds; "
                  "the BasicOPCODES set equals the specification's branch/switch/return/throw opcodes. Bounded (composition): the "
                  "real _create_basic_block on every enumerated small method (see note) is checked against the partition clauses of "
                  "the statement.",
    "trusted": ["stub EncodedMethod/DalvikCode around the real DCode (contracts/cfgworld.py)"],
    "explanation": "leaves proved; _create_basic_block composition bounded (exhaustive small scope): " + S.NOTE,
    "assumptions": ["targets that fall inside an instruction are outside the statement (invalid bytecode)"],
}


class _Ins:
    def __init__(self, op, length, ref_off):
        self.op, self.length, self.ref_off = op, length, ref_off

    def get_op_value(self):
        return self.op

    def get_length(self):
        return self.length

    def get_ref_off(self):
        return self.ref_off


class _BC:
    def __init__(self, payload):
        self.payload, self.asked = payload, []

    def get_ins_off(self, off):
        self.asked.append(off)
        return self.payload


class _Code:
    def __init__(self, bc):
        self.bc = bc

    def get_bc(self):
        return self.bc


class _Meth:
    def __init__(self, bc):
        self.c = _Code(bc)

    def get_code(self):
        return self.c


@unit("C10", covers=[(DEX, "determineNext"), (DEX, "PackedSwitch.__init__"), (DEX, "SparseSwitch.__init__"), (DEX, "PackedSwitch.get_targets"),
                     (DEX, "SparseSwitch.get_targets")], params=[{"payload": p} for p in ("packed", "sparse", "none", "other", "packed_real", "sparse_real")], samples=100)
def determine_next(U, payload):
    """successor offsets of one instruction, for every opcode, offset, length and switch payload"""
    m = U.mod(DEX)
    op = U.int("op", 0, 255)
    cur = U.int("cur", 0, 1 << 20)
    cur = cur * 2
    length = U.choice("len", [2, 4, 6])
    ro = U.int("ref_off", -(1 << 20), 1 << 20)
    t0, t1 = U.int("t0", -(1 << 20), 1 << 20), U.int("t1", -(1 << 20), 1 << 20)
    if payload in ("packed_real", "sparse_real"):
        # payload decoded by the real constructor from symbolic bytes: case targets are *signed* 32-bit offsets
        from pyvc.models import split_le
        from pyvc.core import SymBytes
        tb = (split_le(t0, 4) if not isinstance(t0, int) else list((t0 & 0xFFFFFFFF).to_bytes(4, "little"))) + \
             (split_le(t1, 4) if not isinstance(t1, int) else list((t1 & 0xFFFFFFFF).to_bytes(4, "little")))
        if payload == "packed_real":
            raw = [0x00, 0x01, 2, 0, 5, 0, 0, 0] + tb
        else:
            raw = [0x00, 0x02, 2, 0, 1, 0, 0, 0, 9, 0, 0, 0] + tb
        cls = m.PackedSwitch if payload == "packed_real" else m.SparseSwitch
        pl = cls(U.cm(), SymBytes(raw) if U.mode == "sym" else bytes(raw))
        payload = "packed"
    elif payload in ("packed", "sparse"):
        pl = bare(m.PackedSwitch if payload == "packed" else m.SparseSwitch)
        pl.targets = [t0, t1]
    elif payload == "other":
        pl = bare(m.FillArrayData)
    else:
        pl = None
    bc = _BC(pl)
    o = U.call(m.determineNext, _Ins(op, length, ro), cur, _Meth(bc))
    U.ensures("does not raise", o.ok, exc=repr(o.exc))
    if not o.ok:
        return
    got = o.value
    opc = op if isinstance(op, int) else op.concretize()     # one path per opcode class is enough: fork on the value
    if opc == 0x27 or 0x0E <= opc <= 0x11:
        want = [-1]
    elif 0x28 <= opc <= 0x2A:
        want = [cur + 2 * ro]
    elif 0x32 <= opc <= 0x3D:
        want = [cur + length, cur + 2 * ro]
    elif opc in (0x2B, 0x2C):
        want = [cur + length]
        if payload in ("packed", "sparse"):
            want += [cur + 2 * t0, cur + 2 * t1]
        dest = cur + 2 * ro
        U.ensures("switch payload looked up at the encoded offset (4-byte aligned up)",
                  And(len(bc.asked) == 1, Or(bc.asked[0] == dest, And(dest % 4 != 0, bc.asked[0] == dest + (4 - dest % 4))) if bc.asked else False))
    else:
        want = []
    U.ensures("successor offsets follow the Dalvik rule for this opcode", Eq(list(got), want),
              got=list(got) if U.mode == "conc" else None, want=want if U.mode == "conc" else None, op=opc)


@unit("C10", covers=[(ANA, "BasicOPCODES", "global")])
def branch_opcode_set(U):
    ana = U.mod(ANA)
    U.ensures("BasicOPCODES = return*, throw, goto*, packed/sparse-switch, if-*", set(ana.BasicOPCODES) == F.BRANCH_OR_TERMINAL,
              extra=sorted(set(ana.BasicOPCODES) ^ F.BRANCH_OR_TERMINAL))


class _MS:
    def get_name(self):
        return "m"


class _L:
    def __init__(self, n):
        self.n = n

    def get_length(self):
        return self.n

    def get_op_value(self):
        return 0x12


@unit("C10", covers=[(ANA, "DEXBasicBlock.push"), (ANA, "DEXBasicBlock.__init__"), (ANA, "BasicBlocks.get_basic_block")], samples=80)
def push_and_lookup(U):
    ana = U.mod(ANA)
    start = U.int("start", 0, 1 << 20)
    l1, l2 = U.choice("l1", [2, 4, 6, 10]), U.int("l2", 2, 10)
    bbs = ana.BasicBlocks()
    b = ana.DEXBasicBlock(start, None, _MS(), bbs)
    bbs.push(b)
    b.push(_L(l1))
    b.push(_L(l2))
    U.ensures("block end advances by the pushed lengths", And(b.get_start() == start, b.get_end() == start + l1 + l2,
                                                               b.get_nb_instructions() == 2, b.get_last_length() == l2))
    b2 = ana.DEXBasicBlock(b.get_end(), None, _MS(), bbs)
    bbs.push(b2)
    b2.push(_L(4))
    q = U.int("q", 0, 1 << 21)
    r = U.call(bbs.get_basic_block, q)
    inside1 = And(q >= start, q < start + l1 + l2)
    inside2 = And(q >= start + l1 + l2, q < start + l1 + l2 + 4)
    U.ensures("get_basic_block returns the block containing the offset, None outside",
              And(r.ok, Ite(inside1, r.value is b, Ite(inside2, r.value is b2, r.value is None))))


@unit("C10", covers=[(ANA, "MethodAnalysis._create_basic_block"), (ANA, "DEXBasicBlock.push"), (DEX, "determineNext"),
                     (DEX, "determineException")], params=S.PARAMS, level="bounded", note=S.NOTE)
def partition(U, chunk):
    prog, meth, o = S.build(U)
    d = S.describe(prog)
    U.ensures("analysis does not raise", o.ok, exc=repr(o.exc), **d)
    if not o.ok:
        return
    ma = o.value
    bl = S.blocks_of(ma)
    offs = prog.ins_offsets()
    ends = {o2: (offs[i + 1] if i + 1 < len(offs) else prog.total) for i, o2 in enumerate(offs)}
    U.ensures("blocks are contiguous from 0 and cover the whole code",
              bool(bl) and bl[0].get_start() == 0 and all(a.get_end() == b.get_start() for a, b in zip(bl, bl[1:]))
              and bl[-1].get_end() == prog.total, blocks=[(b.get_start(), b.get_end()) for b in bl], **d)
    U.ensures("every block is a non-empty run of whole instructions",
              all(b.get_start() in ends and b.get_end() > b.get_start() and
                  b.get_nb_instructions() == len([x for x in offs if b.get_start() <= x < b.get_end()]) for b in bl),
              blocks=[(b.get_start(), b.get_end(), b.get_nb_instructions()) for b in bl], **d)
    starts = {b.get_start() for b in bl}
    blk_end = {}
    for b in bl:
        for x in offs:
            if b.get_start() <= x < b.get_end():
                blk_end[x] = b.get_end()
    for i in range(len(prog.items)):
        if prog.is_branching(i):
            U.ensures("a branch/switch/return/throw is the last instruction of its block",
                      blk_end.get(prog.offs[i]) == prog.offs[i] + W.LEN[prog.items[i][0]], at=prog.offs[i], **d)
        for t in prog.branch_targets(i):
            if t in ends:
                U.ensures("every in-method branch/switch target begins a block", t in starts, target=t, **d)
    for rec in prog.try_records():
        if rec[0] in ends:
            U.ensures("every try start begins a block", rec[0] in starts, target=rec[0], **d)
        for h in rec[2:]:
            if h[1] in ends:
                U.ensures("every handler address begins a block", h[1] in starts, target=h[1], **d)


partition.enumerate_inputs = lambda tier, chunk: S.enumerator(tier, chunk)
