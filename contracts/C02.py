"""C02  Linear-sweep disassembly recovers the instruction stream and always terminates (DESIGN §7 C02)."""
import random
import struct

from contracts import cfgworld as W
from pyvc.core import And, Eq, Implies, Ite, Not, Or, SymBytes
from pyvc.unit import unit
from specs import dalvik_formats as F

DEX = "androguard/core/dex/__init__.py"
META = {
    "technique": 'contract-based deductive verification: symbolic execution of the real functions against sidecar contracts (z3/cvc5) for the proved units, inductive loop invariants and termination variants on the real loops (unbounded in length and iteration count); bounded contract evaluation (enumerated scope / independent writer) for the rest',
    "level": "other",
    "partial": True,
    "level_text": "Loop contract (unbounded): the sweep loop of LinearSweepAlgorithm.get_instructions on code of any length and "
                  "content, any declared size and start index, with the decoders replaced by their contract: invariant start <= idx "
                  "<= max_idx, variant max_idx - idx (termination), every yielded object is the one decoded at the current index "
                  "and lies inside the code, everything else is InvalidInstruction; DCode.get_instructions (the caching wrapper) "
                  "reports what the sweep reports on every call. Proof (one arbitrary sweep step, all byte contents): LinearSweepAlgorithm.get_instructions is started at a concrete "
                  "position of a buffer of 2..16 symbolic bytes with the real dispatch tables, instruction and payload classes; the "
                  "first object it yields is proved to be of the class the Dalvik table selects for the first code unit, to have a "
                  "positive length, to end inside the code and to re-encode to the bytes at its offset, and every other outcome is "
                  "proved to be InvalidInstruction. A second unit proves that the sweep resumes exactly at offset + length (variant: "
                  "the remaining bytes strictly decrease => termination). Bounded: randomly assembled valid instruction sequences "
                  "(all opcodes, payloads, padding) disassemble to exactly those instructions at their offsets.",
    "trusted": ["struct model", "ClassManager stand-in (packer, non-ODEX)"],
    "explanation": "sweep step proved for every content of short buffers at enumerated positions; well-assembled sequences bounded.",
    "assumptions": ["buffer length (<= 16) and start position are enumerated, contents symbolic: the step does not depend on the "
                    "absolute position except through the slice insn[idx:]", "ODEX (optimised) opcodes are outside the statement"],
}


def _items(b):
    return list(b.items) if hasattr(b, "items") else list(b)


def _class_for(unit16):
    if unit16 in (0x0100, 0x0200, 0x0300):
        return {0x0100: "PackedSwitch", 0x0200: "SparseSwitch", 0x0300: "FillArrayData"}[unit16]
    f = F.FMT[unit16 & 0xFF]
    return None if f == "unused" else "Instruction" + f


STEP_PARAMS = [{"n": n, "idx": i, "declared": d} for n in (2, 4, 6, 8, 10, 12, 16) for i in (0, 2) if i < n for d in ("exact",)] + \
              [{"n": 12, "idx": 0, "declared": "smaller"}, {"n": 8, "idx": 2, "declared": "larger"}, {"n": 7, "idx": 0, "declared": "exact"}]


@unit("C02", covers=[(DEX, "LinearSweepAlgorithm.get_instructions"), (DEX, "get_instruction"), (DEX, "get_instruction_payload"),
                     (DEX, "PackedSwitch.__init__"), (DEX, "PackedSwitch.get_length"), (DEX, "PackedSwitch.get_raw"),
                     (DEX, "SparseSwitch.__init__"), (DEX, "SparseSwitch.get_length"), (DEX, "SparseSwitch.get_raw"),
                     (DEX, "FillArrayData.__init__"), (DEX, "FillArrayData.get_length"), (DEX, "FillArrayData.get_raw"),
                     (DEX, "DALVIK_OPCODES_PAYLOAD", "global")],
      params=STEP_PARAMS, samples=150, max_paths=40000, timeout_ms=60000, terminates=True)
def sweep_step(U, n, idx, declared):
    m = U.mod(DEX)
    if U.mode == "sym":
        from pyvc.models import SymKeyDict
        for nm in ("DALVIK_OPCODES_PAYLOAD", "DALVIK_OPCODES_OPTIMIZED"):
            if not isinstance(getattr(m, nm), SymKeyDict):
                U.substitute(m, nm, SymKeyDict(getattr(m, nm)), "same mapping, proxy-key lookup by equality")
    b = U.bytes("code", n)
    bl = _items(b)
    size = {"exact": n // 2, "smaller": n // 2 - 2, "larger": n // 2 + 3}[declared]
    max_idx = min(size * 2, n)
    gen = m.LinearSweepAlgorithm.get_instructions(U.cm(), size, b if U.mode == "sym" else bytearray(b), idx)
    o = U.call(next, gen)
    if o.exc is not None:
        U.ensures("anything that is not an instruction is reported as InvalidInstruction (or the sweep simply ends)",
                  o.raised(m.InvalidInstruction, StopIteration), exc=repr(o.exc))
        if o.raised(StopIteration):
            U.ensures("the sweep only ends at the end of the code", idx >= max_idx)
        return
    obj = o.value
    unit16 = bl[idx] | (bl[idx + 1] << 8) if idx + 1 < n else bl[idx]
    if unit16 == 0x0100 or unit16 == 0x0200 or unit16 == 0x0300:      # forks
        u = unit16 if isinstance(unit16, int) else unit16.concretize()
    else:
        low = bl[idx]
        u = low if isinstance(low, int) else low.concretize()
    want_cls = _class_for(u)
    U.ensures("the class is the one the Dalvik table selects for the first code unit", type(obj).__name__ == want_cls,
              got=type(obj).__name__, want=want_cls, unit=u)
    ln = U.call(obj.get_length)
    U.ensures("get_length does not raise", ln.ok)
    if not ln.ok:
        return
    L = ln.value
    U.ensures("length is positive (the sweep makes progress)", L >= 2)
    U.ensures("the instruction lies entirely inside the code", idx + L <= max_idx, length=L, max_idx=max_idx)
    raw = U.call(obj.get_raw)
    U.ensures("get_raw does not raise", raw.ok, exc=repr(raw.exc))
    if raw.ok:
        Lc = L if isinstance(L, int) else L.concretize()
        U.ensures("re-encodes to the bytes at its offset", And(len(raw.value) == Lc, Eq(_items(raw.value), bl[idx:idx + Lc])),
                  raw=raw.value if U.mode == "conc" else None)


class _Obj:
    def __init__(self, n):
        self.n = n

    def get_length(self):
        return self.n


@unit("C02", covers=[(DEX, "LinearSweepAlgorithm.get_instructions")], samples=40)
def sweep_advance(U):
    """the next instruction is decoded exactly at offset + length of the previous one; the sweep stops at the declared size"""
    m = U.mod(DEX)
    l1 = U.choice("l1", [2, 4, 6, 8, 10])
    l2 = U.choice("l2", [2, 4, 6])
    seen = []

    def fake(cm, op, buff):
        seen.append(len(buff))
        return _Obj(l1 if len(seen) == 1 else l2)

    saved = m.get_instruction
    m.get_instruction = fake
    try:
        code = bytes([0x12, 0x00] * 12)
        total = l1 + l2
        out = U.call(lambda: list(m.LinearSweepAlgorithm.get_instructions(U.cm(), total // 2, code, 0)))
    finally:
        m.get_instruction = saved
    U.ensures("does not raise", out.ok, exc=repr(out.exc))
    if out.ok:
        U.ensures("second instruction decoded at offset l1, sweep ends at the declared size",
                  len(out.value) == 2 and seen == [24, 24 - l1], seen=seen)


def _rand_insn(rng, op):
    fmt = F.FMT[op]
    n = 2 * F.UNITS[fmt]
    b = bytearray(rng.randrange(256) for _ in range(n))
    b[0] = op
    if fmt in ("10x", "20t", "30t", "32x"):
        b[1] = 0
    if fmt == "45cc":
        b[1] = (rng.randrange(6) << 4) | (b[1] & 0xF)
    return bytes(b)


VALID_OPS = [o for o in range(256) if F.FMT[o] != "unused"]


@unit("C02", covers=[(DEX, "LinearSweepAlgorithm.get_instructions"), (DEX, "DCode.get_instructions")], level="bounded", samples=400,
      note="random sequences of 1..12 valid instructions over all used opcodes (incl. 0xfe/0xff with any register byte), random "
           "operands, followed by aligned switch/fill-array payloads with random sizes; offsets/lengths/raw bytes compared", terminates=True)
def well_assembled(U):
    m = U.mod(DEX)
    seed = U.int("seed", 0, 1 << 30)
    rng = random.Random(seed)
    parts = []
    for _ in range(rng.randint(1, 12)):
        op = rng.choice(VALID_OPS) if rng.random() < 0.8 else rng.choice([0x00, 0xFE, 0xFF, 0x2B, 0x26, 0x18])
        parts.append(_rand_insn(rng, op))
    code = b"".join(parts)
    for _ in range(rng.randint(0, 2)):
        if len(code) % 4:
            parts.append(b"\x00\x00")
            code += b"\x00\x00"
        k = rng.choice(["p", "s", "f"])
        sz = rng.randint(0, 5)
        if k == "p":
            pl = struct.pack("<HHi", 0x0100, sz, rng.randint(-5, 5)) + b"".join(struct.pack("<i", rng.randint(-9, 9)) for _ in range(sz))
        elif k == "s":
            pl = struct.pack("<HH", 0x0200, sz) + b"".join(struct.pack("<i", rng.randint(-9, 9)) for _ in range(2 * sz))
        else:
            w = rng.choice([1, 2, 4, 8])
            data = bytes(rng.randrange(256) for _ in range(sz * w))
            pl = struct.pack("<HHI", 0x0300, w, sz) + data + (b"\0" if len(data) % 2 else b"")
        parts.append(pl)
        code += pl
    dc = m.DCode(W.CM(), 0, len(code) // 2, code)
    o = U.call(lambda: list(dc.get_instructions()))
    U.ensures("a well-assembled code item disassembles without error", o.ok, exc=repr(o.exc), code=code.hex())
    if not o.ok:
        return
    got = [bytes(i.get_raw()) for i in o.value]
    U.ensures("exactly the assembled instructions, in order, with their bytes", got == parts,
              got=[g.hex() for g in got], want=[p.hex() for p in parts])
    U.ensures("consumes exactly the declared code size", sum(i.get_length() for i in o.value) == len(code))


# ---- DCode.get_instructions: the caching wrapper around the sweep (callee replaced by its contract: a finite stream of instruction
# objects that ends normally or with InvalidInstruction).  Whatever the cache does, every disassembly of the same code object must
# report what the sweep reports: the same instructions, and the same rejection of invalid code.


class _StubSweep:
    def __init__(self, items, fail_cls):
        self.items, self.fail_cls, self.calls = items, fail_cls, []

    def get_instructions(self, cm, size, insn, idx):
        self.calls.append((cm, size, insn, idx))
        for it in self.items:
            yield it
        if self.fail_cls is not None:
            raise self.fail_cls("invalid instruction after %d valid ones" % len(self.items))


@unit("C02", covers=[(DEX, "DCode.get_instructions"), (DEX, "DCode.__init__"), (DEX, "DCode.get_ins_off"), (DEX, "DCode.off_to_pos")],
      params=[{"k": k, "fails": f} for k in (0, 1, 3) for f in (False, True)], samples=20,
      note="sweep replaced by its contract (yields k instruction objects, then ends or raises InvalidInstruction); three "
           "successive disassemblies of the same DCode, interleaved with an offset lookup")
def dcode_wrapper(U, k, fails):
    m = U.mod(DEX)
    items = [_L(2 * U.int("l%d" % i, 1, 5)) for i in range(k)]
    sweep = _StubSweep(items, m.InvalidInstruction if fails else None)
    U.substitute(m, "LinearSweepAlgorithm", sweep, "contract stub: finite instruction stream, optionally ending in InvalidInstruction")
    cmo = object()
    buf = bytes(16)
    dc = m.DCode(cmo, 0x100, 8, buf)
    for attempt in range(3):
        o = U.call(lambda: list(dc.get_instructions()))
        if fails:
            U.ensures("disassembly %d of invalid code raises InvalidInstruction (a partial result is never presented as the code)" % attempt,
                      o.raised(m.InvalidInstruction), got=repr(o.value if o.ok else o.exc)[:120])
        else:
            U.ensures("disassembly %d yields exactly the sweep's instructions in order" % attempt,
                      o.ok and len(o.value) == k and all(a is b for a, b in zip(o.value, items)), got=repr(o.exc))
        if attempt == 0:
            U.ensures("the sweep is given the code object's class manager, declared size, buffer and start index",
                      len(sweep.calls) >= 1 and sweep.calls[0][0] is cmo and sweep.calls[0][1] == 8 and sweep.calls[0][2] is buf
                      and sweep.calls[0][3] == 0)
            q = U.call(dc.get_ins_off, 0)
            if fails:
                U.ensures("offset lookup in invalid code raises as well", q.raised(m.InvalidInstruction), got=repr(q.value if q.ok else q.exc)[:80])
            else:
                U.ensures("offset 0 is the first instruction (None for empty code)", q.ok and (q.value is items[0] if k else q.value is None))


class _L:
    def __init__(self, n):
        self.n = n

    def get_length(self):
        return self.n


# ------------------------------------------------------------------------------------------------
# Loop contract (unbounded + termination) on the sweep loop `while idx < max_idx` of LinearSweepAlgorithm.get_instructions, for code
# buffers of ARBITRARY length and content, any declared size and any start index.  The decoders are replaced by their contract
# (proved by sweep_step / C01 on the real constructors): they return an object of some length L >= 2 or raise InvalidInstruction.
# Invariant: start <= idx <= max_idx.  Variant: max_idx - idx (=> the sweep terminates on every input).
from pyvc import ubuf  # noqa: E402
from pyvc.loops import LoopSpec  # noqa: E402

SWEEP = LoopSpec("LinearSweepAlgorithm.get_instructions#0",
                 invariant=lambda s, L, k: And(L["idx"] >= s.G["idx0"], Or(L["idx"] <= L["max_idx"], L["idx"] == s.G["idx0"])),
                 variant=lambda s, L, k: L["max_idx"] - L["idx"],
                 havoc={"idx": lambda s, L: s.G["U"].int("idx@", 0, ubuf.MAXLEN)},
                 const=("cm", "insn", "is_odex", "max_idx", "size"))


class _Decoded:
    def __init__(self, kind, op, buff, length):
        self.kind, self.op, self.buff, self.length = kind, op, buff, length

    def get_length(self):
        return self.length


@unit("C02", covers=[(DEX, "LinearSweepAlgorithm.get_instructions")], loops={(DEX, "LinearSweepAlgorithm.get_instructions", 0): SWEEP},
      samples=300, terminates=True, max_paths=4000,
      note="loop contract: code of any length and content, any declared size, any start index; decoders replaced by their "
           "contract (object of length >= 2 or InvalidInstruction); variant max_idx - idx")
def sweep_loop_unbounded(U):
    m = U.mod(DEX)
    if U.mode != "sym":
        n = U.int("n", 0, 40)
        code = bytearray(U.bytes("code", n))
        size = U.int("size", 0, 24)
        idx0 = 2 * U.int("start", 0, 3)
        o = U.call(lambda: list(m.LinearSweepAlgorithm.get_instructions(U.cm(), size, code, idx0)))
        U.ensures("the sweep ends, with the instructions or with InvalidInstruction", o.ok or o.raised(m.InvalidInstruction), exc=repr(o.exc))
        if o.ok:
            end = idx0 + sum(i.get_length() for i in o.value)
            U.ensures("the instructions tile the code from the start index to its end", end == max(min(2 * size, n), idx0) or not o.value,
                      end=end)
        return
    mem = ubuf.SymMem("code")
    insn = ubuf.SymBuf(mem, 0, U.int("len", 0, ubuf.MAXLEN))
    size = U.int("size", 0, 1 << 31)
    idx0 = U.int("idx0", 0, ubuf.MAXLEN)
    calls = []

    def decoder(kind):
        def stub(cm, op, buff):
            from pyvc.core import ctx
            tag = "%s#%d" % (kind, next(ctx().fresh))
            if U.bool("%s.invalid" % tag):
                raise m.InvalidInstruction("unused / truncated instruction")
            d = _Decoded(kind, op, buff, U.int("%s.length" % tag, 2, 1 << 20))
            calls.append(d)
            return d
        return stub
    U.substitute(m, "get_instruction", decoder("get_instruction"), "callee contract: an instruction object of length >= 2, or InvalidInstruction")
    pay = decoder("get_instruction_payload")
    U.substitute(m, "get_instruction_payload", lambda op, cm, buff: pay(cm, op, buff), "callee contract: a payload object of length >= 2, or InvalidInstruction")
    U.substitute(m, "get_optimized_instruction", lambda cm, op, buff: decoder("get_optimized_instruction")(cm, op, buff), "callee contract")
    from pyvc.models import SymKeyDict
    for nm in ("DALVIK_OPCODES_PAYLOAD", "DALVIK_OPCODES_OPTIMIZED"):
        if not isinstance(getattr(m, nm), SymKeyDict):
            U.substitute(m, nm, SymKeyDict(getattr(m, nm)), "same mapping, proxy-key lookup by equality")
    SWEEP.G = {"U": U, "idx0": idx0}
    gen = m.LinearSweepAlgorithm.get_instructions(U.cm(), size, insn, idx0)
    o = U.call(next, gen)
    if o.raised(StopIteration):
        U.cover("the sweep ends")
        return
    U.ensures("an iteration yields an instruction or reports InvalidInstruction", o.ok or o.raised(m.InvalidInstruction), exc=repr(o.exc))
    if not o.ok:
        return
    obj = o.value
    U.cover("an arbitrary iteration yields")
    max_idx = Ite(2 * size > insn.length, insn.length, 2 * size)
    at = obj.buff.base          # the decoder was handed insn[idx:]
    U.ensures("the yielded object is the one decoded from the code at the current index, inside the code",
              And(len(calls) == 1 and calls[0] is obj, isinstance(obj.buff, ubuf.SymBuf) and obj.buff.mem is mem, at >= idx0, at + obj.length <= max_idx))
    U.ensures("the decoder sees the rest of the buffer (never bytes before the index)", obj.buff.length == insn.length - at)
    low, high = mem.byte(at), mem.byte(at + 1)
    U.ensures("the opcode handed to the decoder is the low byte of the code unit (payload pseudo-opcodes: the whole unit)",
              Or(obj.op == low, And(obj.kind == "get_instruction_payload", obj.op == low + 256 * high)))
    U.call(next, gen)           # back edge: invariant and variant (the path ends there)
