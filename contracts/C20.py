"""C20  Def-use chains equal the reaching-definitions solution (DESIGN §7 C20)."""
import itertools
import random

from contracts import graphworld as G
from pyvc.unit import unit

GR = "androguard/decompiler/graph.py"
DF = "androguard/decompiler/dataflow.py"
META = {
    "technique": 'bounded stand-in (not proved): reaching-definitions contract evaluated on exhaustive small instruction graphs',
    "level": "exploration",
    "partial": True,
    "level_text": "Bounded stand-in (NOT a proof): the contract 'UD[var, loc] is exactly the set of definitions of var (parameters "
                  "included, as negative locations) that reach loc along some path without an intervening redefinition, and DU is its "
                  "inverse' is evaluated on the real build_def_use / reach_def_analysis / BasicReachDef for every graph of up to 3 "
                  "nodes (every edge subset without self-loops; with self-loops in thorough) x every assignment of 8 statement lists "
                  "over two registers to the nodes, with and without parameters, and for seeded random graphs up to 30 nodes. The "
                  "reference is an independent path-based propagation over (node, position).",
    "trusted": ["reference reaching-definitions by explicit path search (contracts/C20.py)", "stub nodes/instructions with the "
                "observers get_loc_with_ins / get_lhs / get_used_vars"],
    "explanation": "bounded: exhaustive small instruction graphs + random larger ones.",
    "assumptions": ["all nodes reachable from the entry (graph construction)"],
}


class I:
    def __init__(self, lhs, uses):
        self.lhs, self.uses = lhs, list(uses)

    def get_lhs(self):
        return self.lhs

    def get_used_vars(self):
        return self.uses

    def __repr__(self):
        return "%s=f(%s)" % (self.lhs, ",".join(self.uses))


STMTS = [[], [("a", [])], [(None, ["a"])], [("a", []), (None, ["a"])], [(None, ["a"]), ("a", [])], [("b", []), (None, ["b", "a"])],
         [("a", ["a", "b"])], [(None, ["b"]), ("a", ["b"])]]


def _reference(n, edges, ins, params):
    """UD by explicit propagation: state = (node, index) ; facts = set of (var, def loc)"""
    succ = {}
    for a, b in edges:
        succ.setdefault(a, []).append(b)
    # locations follow graph.rpo numbering: the caller passes loc maps
    return succ


def _spec_ud(nodes, gsucc, params):
    """nodes: list of stub nodes with loc_ins; gsucc: node -> successors.  returns {(var, loc): set(def locs)}"""
    entry_facts = frozenset((p, -(i + 1)) for i, p in enumerate(params))
    IN = {x: set() for x in nodes}
    IN[nodes[0]] = set(entry_facts)
    changed = True

    def transfer(x, facts, record=None):
        facts = set(facts)
        for loc, ins in x.loc_ins:
            if record is not None:
                for v in ins.get_used_vars():
                    record.setdefault((v, loc), set()).update(d for (w, d) in facts if w == v)
            k = ins.get_lhs()
            if k is not None:
                facts = {(w, d) for (w, d) in facts if w != k} | {(k, loc)}
        return facts
    while changed:
        changed = False
        for x in nodes:
            out = transfer(x, IN[x])
            for y in gsucc.get(x, []):
                if not out <= IN[y]:
                    IN[y] |= out
                    changed = True
    rec = {}
    for x in nodes:
        transfer(x, IN[x], rec)
    return rec


def _check(U, n, edges, stmt_idx, params, gmod, df):
    ins = {i: [I(l, u) for l, u in STMTS[stmt_idx[i]]] for i in range(n)}
    g, nodes = G.build(gmod, n, edges, (), ins)
    succ = {}
    for a, b in edges:
        succ.setdefault(a, []).append(b)
    if G.reachable(n, succ) != set(range(n)):
        return
    g.compute_rpo()
    g.number_ins()
    o = U.call(df.build_def_use, g, list(params))
    d = {"n": n, "edges": edges, "stmts": [STMTS[k] for k in stmt_idx], "params": list(params)}
    U.ensures("build_def_use does not raise", o.ok, exc=repr(o.exc), **d)
    if not o.ok:
        return
    UD, DU = o.value
    gs = {x: list(g.all_sucs(x)) for x in nodes}
    want = _spec_ud(nodes, gs, params)
    known = set(params) | {i_.get_lhs() for x in nodes for _, i_ in x.loc_ins if i_.get_lhs() is not None}
    got = {k: set(v) for k, v in UD.items()}
    want = {k: v for k, v in want.items() if k[0] in known}
    U.ensures("UD: each use is linked to exactly the definitions that reach it",
              {k: v for k, v in got.items() if v} == {k: v for k, v in want.items() if v},
              got={str(k): sorted(v) for k, v in got.items()}, want={str(k): sorted(v) for k, v in want.items()}, **d)
    inv = {}
    for (var, loc), defs in got.items():
        for dd in defs:
            inv.setdefault((var, dd), set()).add(loc)
    U.ensures("DU is the inverse of UD", {k: set(v) for k, v in DU.items()} == inv, **d)
    U.ensures("no duplicate links", all(len(v) == len(set(v)) for v in UD.values()) and all(len(v) == len(set(v)) for v in DU.values()), **d)


NCHUNK = 16


def _enum(tier, chunk):
    k = 0
    for n in (1, 2, 3):
        for es in G.all_edge_sets(n, tier != "quick" or n < 3):
            for st in itertools.product(range(len(STMTS)), repeat=n):
                for params in ((), ("a", "b")):
                    k += 1
                    if k % NCHUNK == chunk:
                        yield {"n": n, "edges": es, "stmts": list(st), "params": list(params)}


@unit("C20", covers=[(DF, "build_def_use"), (DF, "reach_def_analysis"), (DF, "BasicReachDef.__init__"), (DF, "BasicReachDef.run")],
      params=[{"chunk": c} for c in range(NCHUNK)], level="bounded",
      note="graphs of <= 3 nodes (no self-loops on 3 nodes in quick) x 8 statement lists per node over registers a, b x with/without "
           "parameters, all nodes reachable")
def small_programs(U, chunk):
    gmod, df = U.mod(GR), U.mod(DF)
    g = U.given or {"n": 2, "edges": [(0, 1)], "stmts": [1, 2], "params": []}
    U.drawn.update({"n": g["n"], "edges": [list(e) for e in g["edges"]], "stmts": g["stmts"], "params": g["params"]})
    _check(U, g["n"], [tuple(e) for e in g["edges"]], g["stmts"], tuple(g["params"]), gmod, df)


small_programs.enumerate_inputs = lambda tier, chunk: _enum(tier, chunk)


@unit("C20", covers=[(DF, "build_def_use"), (DF, "BasicReachDef.run")], level="bounded", samples=200,
      note="seeded random graphs of 4..30 nodes with random statement lists")
def random_programs(U):
    gmod, df = U.mod(GR), U.mod(DF)
    seed = U.int("seed", 0, 1 << 30)
    rng = random.Random(seed)
    n = rng.choice([4, 5, 6, 8, 12, 30])
    edges = G.random_graph(rng, n, 2)
    # keep only the reachable part
    succ = {}
    for a, b in edges:
        succ.setdefault(a, []).append(b)
    reach = sorted(G.reachable(n, succ))
    ren = {o: i for i, o in enumerate(reach)}
    edges = [(ren[a], ren[b]) for a, b in edges if a in ren and b in ren]
    st = [rng.randrange(len(STMTS)) for _ in reach]
    _check(U, len(reach), edges, st, rng.choice([(), ("a",), ("a", "b")]), gmod, df)
