"""C29  Resource resolution terminates on reference cycles (DESIGN §7 C29)."""
import itertools
import random

from pyvc.unit import bare, unit

AXML = "androguard/core/axml/__init__.py"
META = {
    "technique": 'bounded stand-in: recursion-variant contract evaluated on all small reference graphs (real resolver, stub table)',
    "level": "other",
    "partial": True,
    "level_text": "Contract on the mutual recursion resolve -> _resolve_into_result -> put_ate_value -> put_item_value: the recursion "
                  "variant is the set of resource ids not on the current resolution path, i.e. a recursive call is only made for an "
                  "id that is not being resolved. The obligation is checked (a) by exhaustive path enumeration of the real resolver on "
                  "every reference graph over <= 4 resource ids with 1..2 entries per id (plain references, complex entries whose "
                  "items reference, concrete values) -- every such world is a closed execution, so this part is complete for the "
                  "scope -- and (b) on random graphs up to 12 ids. Besides termination the returned values are compared with the "
                  "concrete values reachable from the id.",
    "trusted": ["stub ARSCParser.get_res_configs (returns the entries of an id), stub entries; real ResourceResolver and real "
                "ARSCResStringPoolRef objects"],
    "explanation": "termination + result of the resolver on all small reference graphs (exhaustive scope) and random larger ones; "
                   "bounded in the number of resources.",
    "assumptions": ["get_res_configs returns a finite list per id (C28)"],
}


class _Pool:
    def getString(self, i):
        return "str%d" % i


class _Pkg:
    stringpool_main = _Pool()


class _Item:
    items = ()


class _Ate:
    def __init__(self, rid, kind, key=None, items=(), datatype=None, data=None):
        self.mResId, self.kind, self.key = rid, kind, key
        self.item = _Item()
        self.item.items = [(0, it) for it in items]
        self.parent = _Pkg()
        if kind == "compact":           # FLAG_COMPACT: the typed value travels in the entry itself
            self.datatype, self.data = datatype, data

    def is_complex(self):
        return self.kind == "complex"

    def is_compact(self):
        return self.kind == "compact"


class _Res:
    def __init__(self, table):
        self.table = table
        self.calls = 0

    def get_res_configs(self, rid, config=None, fallback=True):
        self.calls += 1
        if self.calls > 100000:
            raise RuntimeError("get_res_configs called more than 100000 times")
        return [("cfg", a) for a in self.table.get(rid, [])]


def _ref(m, data_type, data):
    r = bare(m.ARSCResStringPoolRef)
    r.start, r.size, r.res0, r.data_type, r.data, r.parent = 0, 8, 0, data_type, data, _Pkg()
    return r


def _world(m, n, desc):
    """desc[i] = list of entries for id i+1; entry = ('ref', j) | ('val', k) | ('complex', [j or -k ...])"""
    table = {}
    for i, ents in enumerate(desc):
        rid = i + 1
        table[rid] = []
        for e in ents:
            if e[0] == "ref":
                table[rid].append(_Ate(rid, "plain", _ref(m, 1, e[1])))
            elif e[0] == "val":
                table[rid].append(_Ate(rid, "plain", _ref(m, 0x10, e[1])))
            elif e[0] == "cref":
                table[rid].append(_Ate(rid, "compact", datatype=1, data=e[1]))
            elif e[0] == "cval":
                table[rid].append(_Ate(rid, "compact", datatype=0x10, data=e[1]))
            else:
                table[rid].append(_Ate(rid, "complex", None, [_ref(m, 1, x) if x > 0 else _ref(m, 0x10, -x) for x in e[1]]))
    return table


def _reachable_values(desc, start):
    """concrete values reachable from `start` through references (cycles cut)"""
    vals, seen, st = set(), set(), [start]
    while st:
        r = st.pop()
        if r in seen or not (1 <= r <= len(desc)):
            continue
        seen.add(r)
        for e in desc[r - 1]:
            if e[0] in ("ref", "cref"):
                st.append(e[1])
            elif e[0] in ("val", "cval"):
                vals.add(str(e[1]))
            else:
                for x in e[1]:
                    if x > 0:
                        st.append(x)
                    else:
                        vals.add(str(-x))
    return vals


def _flatten(res):
    out = set()
    for x in res:
        if isinstance(x, tuple):
            if isinstance(x[1], list):
                out.update(str(v) for v in x[1] if not isinstance(v, tuple))
                out.update(_flatten([v for v in x[1] if isinstance(v, tuple)]))
            else:
                out.add(str(x[1]))
        else:
            out.add(str(x))
    return out


def _flat_list(res):
    out = []
    for x in res:
        if isinstance(x, tuple):
            if isinstance(x[1], list):
                out.extend(_flat_list(x[1]))
            else:
                out.append(str(x[1]))
        else:
            out.append(str(x))
    return sorted(out)


def _unfold(desc, rid, path=()):
    """leaves of the complete unfolding of the reference graph below `rid` (one leaf per path), or None if a cycle is reachable"""
    if rid in path:
        return None
    if not (1 <= rid <= len(desc)):
        return []
    out = []
    for e in desc[rid - 1]:
        subs = [e[1]] if e[0] in ("ref", "cref") else ([] if e[0] in ("val", "cval") else [x for x in e[1]])
        if e[0] in ("val", "cval"):
            out.append(str(e[1]))
        for x in subs:
            if x > 0:
                r = _unfold(desc, x, path + (rid,))
                if r is None:
                    return None
                out.extend(r)
            elif e[0] == "complex":
                out.append(str(-x))
    return out


def _check(U, m, desc, start):
    table = _world(m, len(desc), desc)
    res = _Res(table)
    rr = m.ARSCParser.ResourceResolver(res, None)
    o = U.call(rr.resolve, start)
    U.ensures("resolution terminates without RecursionError", o.ok, exc=repr(o.exc)[:100], desc=desc, start=start)
    if o.ok:
        U.ensures("returns the concrete values reachable from the id", _flatten(o.value) == _reachable_values(desc, start),
                  got=sorted(_flatten(o.value)), want=sorted(_reachable_values(desc, start)), desc=desc, start=start)
        tree = _unfold(desc, start)
        if tree is not None:
            U.ensures("without a cycle every stored value is returned once per reference path (nothing dropped, nothing repeated)",
                      _flat_list(o.value) == sorted(tree), got=_flat_list(o.value), want=sorted(tree), desc=desc, start=start)
        again = U.call(rr.resolve, start)
        U.ensures("a second resolution gives the same result (no state left behind)", again.ok and _flatten(again.value) == _flatten(o.value))


def _entries(n):
    ents = [("val", 7)]
    ents += [("ref", j) for j in range(1, n + 1)]
    ents += [("complex", [j, -9]) for j in range(1, n + 1)]
    ents += [("complex", [j, -9, j]) for j in range(1, n + 1)]      # the same resource referenced twice by one entry
    ents += [("cref", j) for j in range(1, n + 1)] + [("cval", 5)]    # compact entries: a reference / a value in the entry itself
    return ents


def _enum(tier, **_):
    for n in (1, 2, 3) if tier == "quick" else (1, 2, 3, 4):
        es = _entries(n)
        choices = [[e] for e in es] + ([[a, b] for a in es[:n + 1] for b in es[:n + 1] if a != b] if n <= 2 else [])
        for combo in itertools.product(range(len(choices)), repeat=n):
            yield {"n": n, "combo": list(combo)}


@unit("C29", covers=[(AXML, "ARSCParser.ResourceResolver.resolve"), (AXML, "ARSCParser.ResourceResolver._resolve_into_result"),
                     (AXML, "ARSCParser.ResourceResolver.put_ate_value"), (AXML, "ARSCParser.ResourceResolver.put_item_value")],
      level="bounded",
      note="every reference graph over n <= 3 (thorough: 4) resource ids, one entry per id from {value, reference to any id, complex "
           "entry with a reference item and a value, complex entry referencing the same id twice, compact reference, compact value} (two entries per id for n <= 2): chains and cycles of length 1..n", terminates=True)
def small_reference_graphs(U):
    m = U.mod(AXML)
    g = U.given or {"n": 2, "combo": [2, 1]}
    U.drawn.update(g)
    n = g["n"]
    es = _entries(n)
    choices = [[e] for e in es] + ([[a, b] for a in es[:n + 1] for b in es[:n + 1] if a != b] if n <= 2 else [])
    desc = [choices[c] for c in g["combo"]]
    for start in range(1, n + 1):
        _check(U, m, desc, start)


small_reference_graphs.enumerate_inputs = lambda tier, **p: _enum(tier)


@unit("C29", covers=[(AXML, "ARSCParser.ResourceResolver.put_item_value")], level="bounded", samples=150,
      note="seeded random reference graphs over 5..12 ids with 1..3 entries each", terminates=True)
def random_reference_graphs(U):
    m = U.mod(AXML)
    seed = U.int("seed", 0, 1 << 30)
    rng = random.Random(seed)
    n = rng.randint(5, 12)
    desc = []
    for _ in range(n):
        ents = []
        for _ in range(rng.randint(1, 3)):
            r = rng.random()
            if r < 0.3:
                ents.append(("val", rng.randint(1, 50)))
            elif r < 0.55:
                ents.append(("ref", rng.randint(1, n)))
            elif r < 0.7:
                ents.append(("cref", rng.randint(1, n)) if rng.random() < 0.7 else ("cval", rng.randint(1, 50)))
            else:
                ents.append(("complex", [rng.randint(1, n) if rng.random() < 0.6 else -rng.randint(1, 50) for _ in range(rng.randint(1, 4))]))
        desc.append(ents)
    _check(U, m, desc, rng.randint(1, n))
