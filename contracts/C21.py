"""C21  Decompiled integer code computes what the bytecode computes (DESIGN §7 C21)."""
import json
import os

import z3

from pyvc.core import And, Eq, Implies, Ite, Not, Or, SymBool, SymInt
from pyvc.unit import bare, unit
from specs import javaexpr as J
from specs import dalvikgen as G
from specs import dexwriter as DW
from specs import javaharness as JH

OPI = "androguard/decompiler/opcode_ins.py"
WR = "androguard/decompiler/writer.py"
INS = "androguard/decompiler/instruction.py"
META = {
    "technique": 'contract-based deductive verification: symbolic execution of the real functions against sidecar contracts (z3/cvc5) for the proved units; bounded contract evaluation (enumerated scope / independent writer) for the rest',
    "level": "other",
    "partial": True,
    "level_text": "Two layers. (1) proved, all operand values: for every int/long arithmetic, bitwise, shift (3-register, /2addr, "
                  "/lit16, /lit8), negation, complement and int/long/byte/char/short conversion opcode the real handler from "
                  "INSTRUCTION_SET is run on a stub instruction, the expression it returns is printed by the real Writer visitors, the "
                  "printed Java text is parsed with Java's typing/semantics (promotion, shift masking, truncating division) into a "
                  "bit-vector term and proved equal, for all 2^32 / 2^64 operand values (z3 bit-vector proof), to the Dalvik semantics "
                  "of that opcode; destination and operand registers are checked too. (2) BOUNDED, not proved: the rest of the pipeline "
                  "(register propagation, dead code elimination, variable splitting, structuring of ifs / loops / switches, statement "
                  "printing, javac acceptance) is exercised end to end on an enumerated scope of generated structured methods (quick "
                  "1600, thorough 16000 programs x 8 argument tuples): independent DEX writer -> real DecompilerDAD -> javac 17 -> java, "
                  "compared with an independent Dalvik interpreter. No contract of this family expresses 'the emitted Java text "
                  "computes the same function' for whole methods, so layer 2 is a bounded stand-in and never counted as proved. "
                  "Two further bounded units run hand-written programs: `scenarios` (11) and `hunted_programs` (the 25 programs of an "
                  "independent defect hunt: int and long parameters, switches, nested loops, nop). Open known findings KF-C21-1..5 "
                  "(programs listed in known_c21_seeds.json) and KF-C21-6..8 (programs of hunted_programs).",
    "trusted": ["Java expression semantics as transcribed in specs/javaexpr.py (JLS §15)", "Dalvik opcode semantics table in the same file",
                "stub instruction objects exposing the register fields of formats 23x/12x/22s/22b",
                "bounded layer: javac / java 17 of the image, specs/dalvikgen.py (generator + reference interpreter), specs/dexwriter.py"],
    "explanation": "opcode->expression semantics proved for all operand values; the rest of the decompiler pipeline is checked only on a "
                   "bounded, enumerated scope of generated methods (labelled bounded).",
    "assumptions": ["literal operands of /lit16 and /lit8 forms are taken from boundary sets (the literal is printed in decimal; "
                    "registers are fully symbolic)", "division/remainder: both sides throw for a zero divisor (precondition b != 0)",
                    "bounded layer: 8 argument tuples (boundary values and random) per generated method; a decompiled method that has "
                    "not returned after 15 s is reported as 'timeout' (the reference interpreter needs < 20000 steps)"],
}

TABLE = J.table()
LITS16 = [-32768, -255, -1, 0, 1, 31, 32, 255, 32767]
LITS8 = [-128, -33, -1, 0, 1, 5, 31, 32, 33, 127]


class _Ins:
    def __init__(self, **kw):
        self.__dict__.update(kw)

    def get_output(self):
        return ""


def _print_rhs(wr, exp, vmap):
    w = bare(wr.Writer)
    buf = []
    w.write = lambda s, data=None: buf.append(s)
    w.write_ext = lambda t: None
    for v in vmap.values():
        v.declared = True
    exp.rhs.visit(w)
    return "".join(buf)


def _bv(x, w):
    """operand as a w-bit vector (x: python int or proxy holding a w-bit signed value)"""
    if isinstance(x, SymInt):
        return z3.Extract(w - 1, 0, x.t)
    return z3.BitVecVal(x, w)


PARAMS = []
for _op, _d in sorted(TABLE.items()):
    if _d["form"] in ("22s", "22b"):
        for _l in (LITS16 if _d["form"] == "22s" else LITS8):
            PARAMS.append({"op": _op, "lit": _l})
    else:
        PARAMS.append({"op": _op, "lit": None})


@unit("C21", covers=[(OPI, "INSTRUCTION_SET", "global"), (OPI, "Op"), (OPI, "assign_binary_exp"), (OPI, "assign_binary_2addr_exp"),
                     (OPI, "assign_lit"), (OPI, "assign_cast_exp"), (OPI, "get_variables"), (WR, "Writer.visit_binary_expression"),
                     (WR, "Writer.visit_unary_expression"), (WR, "Writer.visit_cast"), (WR, "Writer.visit_constant"),
                     (WR, "Writer.visit_variable")], params=PARAMS, samples=25, timeout_ms=60000)
def opcode_expression(U, op, lit):
    opi, wr = U.mod(OPI), U.mod(WR)
    d = TABLE[op]
    w = 64 if d["ty"] == "J" else 32
    vmap = {}
    if d["form"] == "23x":
        ins = _Ins(AA=0, BB=1, CC=2)
        dest, srcs = 0, (1, 2)
    elif d["form"] == "12x":
        ins = _Ins(A=1, B=2)
        dest, srcs = 1, (1, 2)
    elif d["form"] == "22s":
        ins = _Ins(A=0, B=1, CCCC=lit)
        dest, srcs = 0, (1,)
    elif d["form"] == "22b":
        ins = _Ins(AA=0, BB=1, CC=lit)
        dest, srcs = 0, (1,)
    else:
        ins = _Ins(A=0, B=1)
        dest, srcs = 0, (1,)
    o = U.call(opi.INSTRUCTION_SET[op], ins, vmap)
    U.ensures("handler does not raise", o.ok, exc=repr(o.exc), opcode=d["name"])
    if not o.ok:
        return
    exp = o.value
    U.ensures("assigns to the destination register", getattr(exp, "lhs", None) == dest, got=getattr(exp, "lhs", None))
    text = _print_rhs(wr, exp, vmap)
    # operands: all bit patterns
    sw = 64 if d.get("src", d["ty"]) == "J" else 32
    a = U.int("a", -(1 << (sw - 1)), (1 << (sw - 1)) - 1)
    env = {"v%d" % srcs[0]: (_bv(a, sw), "J" if sw == 64 else "I")}
    args = [_bv(a, sw)]
    if len(srcs) == 2:
        bw = 32 if d.get("shift") else w
        b = U.int("b", -(1 << (bw - 1)), (1 << (bw - 1)) - 1)
        env["v%d" % srcs[1]] = (_bv(b, bw), "J" if bw == 64 else "I")
        args.append(_bv(b, bw))
    elif lit is not None:
        args.append(z3.BitVecVal(lit, 32))
    divisor_zero = False
    if d["name"].split("-")[0] in ("div", "rem"):
        divisor_zero = args[1] == 0
    try:
        term, ty = J.parse(text, env)
    except Exception as e:
        U.ensures("the printed expression is a Java integer expression over the operand registers", False, text=text, err=repr(e))
        return
    U.ensures("the printed expression has the opcode's result type", ty == d["ty"], text=text, got=ty)
    if ty != d["ty"]:
        return
    want = d["fn"](*args)
    cond = z3.Or(divisor_zero, term == want) if not isinstance(divisor_zero, bool) else (term == want)
    cond = z3.simplify(cond)
    if U.mode == "sym":
        U.ensures("for all operand values the printed Java expression computes the Dalvik result (%s)" % d["name"], SymBool(cond), text=text)
    else:
        U.ensures("for all operand values the printed Java expression computes the Dalvik result (%s)" % d["name"], z3.is_true(cond),
                  text=text, a=a, opcode=d["name"])


# ---------------------------------------------------------------------------------------------
# bounded end-to-end pipeline: generated DEX -> real DAD -> javac -> java, against the reference interpreter

E2E_FILES = ["androguard/decompiler/decompiler.py", "androguard/decompiler/decompile.py", "androguard/decompiler/dataflow.py",
             "androguard/decompiler/control_flow.py", "androguard/decompiler/graph.py", "androguard/decompiler/instruction.py",
             "androguard/decompiler/basic_blocks.py", OPI, WR]
BATCH = 50
NCHUNK = 16


KNOWN_FILE = os.path.join(os.path.dirname(os.path.dirname(os.path.abspath(__file__))), "known_c21_seeds.json")
# javac complaint / wrong result -> the open known finding it belongs to (known_findings.json)
KF_OF = {"symbol": "KF-C21-1", "lossy": "KF-C21-2", "unreach": "KF-C21-3", "value": "KF-C21-4"}
KF_MALFORMED = "KF-C21-5"      # any other javac complaint of a listed program (two triaged programs, see known_findings.json)


def kf_of(cat):
    return KF_OF.get(cat, KF_MALFORMED)


def generator_digest():
    """identifies the generated programs: the seed list in known_c21_seeds.json is only meaningful for this generator"""
    import hashlib
    import inspect
    h = hashlib.sha256()
    for mod in (G, DW):
        with open(mod.__file__, "rb") as f:
            h.update(f.read())
    h.update(inspect.getsource(generate).encode())
    h.update(repr((BATCH, NCHUNK, [list(_e2e_inputs("thorough", c))[-1] for c in (0, NCHUNK - 1)])).encode())
    return h.hexdigest()


def _known_seeds():
    """{seed: set of categories} of the programs recorded as known findings.  The file is committed, written only by
    tools/gen_c21_known.py and never by a check; a list made for another generator is a broken checker, not a violation."""
    with open(KNOWN_FILE) as f:
        data = json.load(f)
    if data.get("generator_sha256") != generator_digest():
        raise RuntimeError("known_c21_seeds.json was made for another program generator (specs/dalvikgen.py, specs/dexwriter.py or "
                           "contracts/C21.py:generate changed): regenerate it with tools/gen_c21_known.py on the unchanged tree")
    return {int(k): set(v) for k, v in data["seeds"].items()}


def _e2e_inputs(tier, chunk):
    nb = 2 if tier == "quick" else 20
    for b in range(nb):
        yield {"base": (chunk * 100 + b) * BATCH, "count": BATCH}


def generate(seed):
    """one single-method class for this seed -> (class model, method description, argument tuples)"""
    import random
    rng = random.Random(seed)
    cls, descs = G.make_class(rng, 1)
    d = descs[0]
    args = G.arg_tuples(rng, d["wide"], d["nparams"], 8)
    return cls, d, args


DF, CFL, GRF, DCP, INSF = ("androguard/decompiler/dataflow.py", "androguard/decompiler/control_flow.py", "androguard/decompiler/graph.py",
                            "androguard/decompiler/decompile.py", "androguard/decompiler/instruction.py")
E2E_COVERS = [(DCP, "DvMethod.process"), (DCP, "DvClass.get_source"), (DF, "build_def_use"), (DF, "split_variables"),
              (DF, "dead_code_elimination"), (DF, "register_propagation"), (DF, "clear_path"), (DF, "place_declarations"),
              (DF, "BasicReachDef.run"), (CFL, "identify_structures"), (CFL, "loop_struct"), (CFL, "if_struct"), (CFL, "switch_struct"),
              (CFL, "short_circuit_struct"), (CFL, "while_block_struct"), (GRF, "construct"), (GRF, "make_node"), (GRF, "split_if_nodes"),
              (GRF, "simplify"), (INSF, "BinaryExpression.replace"), (INSF, "BinaryExpression.has_side_effect"), (INSF, "Constant.visit"),
              (WR, "Writer.write_method"), (WR, "Writer.visit_statement_node"), (WR, "Writer.visit_cond_node"), (WR, "Writer.visit_loop_node"),
              (WR, "Writer.visit_switch_node"), (WR, "Writer.visit_assign"), (WR, "Writer.visit_return"), (WR, "Writer.visit_constant")]


def evaluate(dexm, anam, decm, base, count):
    """decompile, compile and run the generated methods base .. base+count-1 -> {seed: outcome}, outcome =
    {"raise": repr} | {"source", "errors": [(line, message)], "cats": set, "wrong": [(args, want, got)], "calls": n}"""
    out, sources, calls, expected, seeds = {}, {}, {}, {}, {}
    for seed in range(base, base + count):
        cls, d, args = generate(seed)
        cname = "T%d" % seed
        cls["name"], cls["source"] = "Lp/%s;" % cname, cname + ".java"
        try:
            dx = dexm.DEX(DW.write([cls]))
            an = anam.Analysis(dx)
            an.create_xref()
            src = decm.DecompilerDAD(dx, an).get_source_class(dx.get_classes()[0])
        except (RecursionError, Exception) as e:  # the exception is an observable outcome
            out[seed] = {"raise": repr(e)[:300]}
            continue
        sources[cname], seeds[cname], calls[cname] = src, seed, []
        out[seed] = {"source": src, "errors": [], "cats": set(), "wrong": [], "calls": 0}
        for n, a in enumerate(args):
            ref = G.interpret(d["code"], dict(zip(d["params"], a)))
            if ref[0] == "timeout":
                continue
            key = "%s#%d" % (cname, n)
            calls[cname].append((key, d["name"], a, d["wide"]))
            expected[key] = (cname, a, "exc" if ref[0] == "exc" else str(ref[1]))
    errors, results, log = JH.compile_and_run(sources, calls)
    for cname, es in errors.items():
        o = out[seeds[cname]]
        o["errors"] = [list(e) for e in es]
        o["cats"] = set(JH.category(m) for _, m in es)
    for key, (cname, a, want) in sorted(expected.items()):
        if cname in errors:
            continue
        o = out[seeds[cname]]
        o["calls"] += 1
        if results.get(key) != want:
            o["wrong"].append((a, want, results.get(key)))
    return out, log


@unit("C21", covers=E2E_COVERS, params=[{"chunk": c} for c in range(NCHUNK)], level="bounded", samples=2, timeout_ms=900000,
      note="generated structured static methods over int / long (constants, 3-register, /2addr, /lit16, /lit8 arithmetic, shifts, neg/not, "
           "int<->long/byte/char/short casts, if / if-else with compound && / || conditions, counted loops, packed and sparse switches), one "
           "method per class, assembled into a DEX file by an independent writer, decompiled by the real DecompilerDAD, compiled with "
           "javac 17 and run on 8 boundary/random argument tuples each; reference = independent Dalvik interpreter. quick: 16 x 2 x 50 "
           "methods, thorough: 16 x 20 x 50")
def end_to_end(U, chunk):
    for f in E2E_FILES:
        U.mod(f)
    dexm = U.mod("androguard/core/dex/__init__.py")
    anam = U.mod("androguard/core/analysis/analysis.py")
    decm = U.mod("androguard/decompiler/decompiler.py")
    g = U.given or {"base": chunk * 100 * BATCH, "count": BATCH}
    U.drawn.update(g)
    known = _known_seeds()
    out, log = evaluate(dexm, anam, decm, g["base"], g["count"])
    for seed in sorted(out):
        o = out[seed]
        listed = known.get(seed, set())
        U.ensures("the decompiler does not raise", "raise" not in o, seed=seed, exc=o.get("raise"))
        if "raise" in o:
            continue
        cats = o["cats"]
        # a rejected source is a known finding only when this very program is listed with every category javac reports
        U.ensures("the decompiled source is accepted by javac", not cats,
                  unless=[U.known(kf, cats <= listed and any(kf_of(c) == kf for c in cats))
                          for kf in ("KF-C21-1", "KF-C21-2", "KF-C21-3", KF_MALFORMED)],
                  seed=seed, errors=o["errors"][:4], source=o["source"][:1500])
        if cats:
            continue
        U.ensures("the compiled decompiler output returns the value (or throws the ArithmeticException) the bytecode does",
                  not o["wrong"], unless=[U.known(KF_OF["value"], "value" in listed)],
                  seed=seed, wrong=[list(w) for w in o["wrong"][:3]], calls=o["calls"], source=o["source"][:1500], log=log[:200])


end_to_end.enumerate_inputs = _e2e_inputs
end_to_end.conc_timeout = 600     # one batch = 50 decompilations + javac + java; a looping decompiled method costs 40 s + 15 s


# ------------------------------------------------------------------------------------------------
# Bounded: hand-written scenario programs for shapes the random generator does not (or hardly ever) build: a throwing division
# below a non-throwing operator whose single use lies behind a branch, an expression defined in front of a loop whose operand
# the loop changes, uses behind switches ...  Each program is run on the full grid of a small argument pool.
def _scenarios():
    B = lambda name, d, a, b: ("bin", name, False, d, a, b)
    out = {}
    # locals v0..v2, parameters v3, v4, v5
    out["neg_of_div_behind_branch"] = (3, [B("div", 0, 3, 4), ("un", "neg", False, 0, 0), ("ifz", "le", 5, "L"), ("ret", 5), ("label", "L"), ("ret", 0)])
    out["not_of_rem_behind_branch"] = (3, [B("rem", 0, 3, 4), ("un", "not", False, 0, 0), ("ifz", "ne", 5, "L"), ("ret", 5), ("label", "L"), ("ret", 0)])
    out["cast_of_div_behind_branch"] = (3, [B("div", 0, 3, 4), ("cast", "i2b", 0, 0), ("ifz", "gt", 5, "L"), ("ret", 5), ("label", "L"), ("ret", 0)])
    out["sum_with_div_behind_branch"] = (3, [B("div", 0, 3, 4), ("lit8", "add", 0, 0, 1), ("ifz", "lt", 5, "L"), ("ret", 5), ("label", "L"), ("ret", 0)])
    out["div_behind_two_branches"] = (3, [B("div", 0, 3, 4), ("un", "neg", False, 0, 0), ("ifz", "le", 5, "L"), ("ifz", "eq", 3, "M"), ("ret", 5),
                                          ("label", "M"), ("ret", 4), ("label", "L"), ("ret", 0)])
    out["lit_div_behind_branch"] = (3, [("lit8", "rsub", 1, 4, 0), ("lit8", "div", 0, 3, 0) if False else B("div", 0, 3, 1), ("un", "neg", False, 0, 0),
                                        ("ifz", "le", 5, "L"), ("ret", 5), ("label", "L"), ("ret", 0)])
    # locals v0..v2, parameters v3, v4
    out["product_before_loop_operand_changes"] = (2, [("lit8", "add", 1, 4, 1), ("const", 2, 0), B("mul", 0, 3, 1), ("label", "LOOP"),
                                                      ("bin2", "add", False, 2, 0), ("lit8", "add", 1, 1, 1), ("if", "lt", 1, 3, "LOOP"), ("ret", 2)])
    out["sum_before_while_loop_operand_changes"] = (2, [("lit8", "add", 1, 4, 0), ("const", 2, 0), B("add", 0, 3, 1), ("label", "TOP"),
                                                        ("if", "ge", 1, 3, "END"), ("bin2", "xor", False, 2, 0), ("lit8", "add", 1, 1, 2),
                                                        ("goto", "TOP"), ("label", "END"), ("ret", 2)])
    out["shift_before_loop_operand_changes"] = (2, [("lit8", "and", 1, 4, 7), ("const", 2, 1), B("shl", 0, 3, 1), ("label", "LOOP"),
                                                    ("bin2", "add", False, 2, 0), ("lit8", "add", 1, 1, 1), ("lit8", "rsub", 0 + 0, 1, 9) if False else ("label", "X"),
                                                    ("if", "lt", 1, 3, "LOOP"), ("ret", 2)])
    out["expression_used_after_loop"] = (2, [("lit8", "add", 1, 4, 1), ("const", 2, 0), B("mul", 0, 3, 1), ("label", "LOOP"), ("lit8", "add", 2, 2, 3),
                                             ("lit8", "add", 1, 1, 1), ("if", "lt", 1, 3, "LOOP"), ("bin2", "add", False, 2, 0), ("ret", 2)])
    out["div_before_loop_used_inside"] = (2, [("const", 1, 0), ("const", 2, 0), B("div", 0, 3, 4), ("label", "LOOP"), ("lit8", "add", 1, 1, 1),
                                              ("if", "ge", 1, 3, "END"), ("bin2", "add", False, 2, 0), ("goto", "LOOP"), ("label", "END"), ("ret", 2)])
    return out


SCEN_POOL = [-7, -1, 0, 1, 2, 5]


@unit("C21", covers=E2E_COVERS, level="bounded", samples=1, timeout_ms=900000,
      note="hand-written scenario programs (throwing division under neg / not / cast / add whose single use lies behind one or two "
           "branches; expressions defined in front of do-while / while loops whose operand the loop changes; uses after the loop), "
           "each run on the full grid of the argument pool {-7, -1, 0, 1, 2, 5}: independent DEX writer -> real DecompilerDAD -> javac -> java "
           "vs the reference interpreter")
def scenarios(U):
    import itertools
    for f in E2E_FILES:
        U.mod(f)
    dexm = U.mod("androguard/core/dex/__init__.py")
    anam = U.mod("androguard/core/analysis/analysis.py")
    decm = U.mod("androguard/decompiler/decompiler.py")
    sources, calls, expected = {}, {}, {}
    for name, (nparams, code) in sorted(_scenarios().items()):
        code = [i for i in code if i != ("label", "X")]
        cname = "S_" + name
        params = [3 + i for i in range(nparams)]
        cd = dict(registers=3 + nparams, ins=nparams, outs=0, insns=G.assemble(code))
        cls = dict(name="Lp/%s;" % cname, access=1, super="Ljava/lang/Object;", interfaces=[], source=cname + ".java", sfields=[], ifields=[],
                   dmethods=[("m0", "I", ["I"] * nparams, 0x9, cd)], vmethods=[])
        o = U.call(lambda: decm.DecompilerDAD(*(lambda dx: (dx, (lambda an: (an.create_xref(), an)[1])(anam.Analysis(dx))))(dexm.DEX(DW.write([cls])))))
        U.ensures("the decompiler does not raise", o.ok, scenario=name, exc=repr(o.exc)[:200])
        if not o.ok:
            continue
        dad = o.value
        src = dad.get_source_class(dad.vm.get_classes()[0])
        sources[cname], calls[cname] = src, []
        for n, a in enumerate(itertools.product(SCEN_POOL, repeat=nparams)):
            ref = G.interpret(code, dict(zip(params, a)))
            if ref[0] == "timeout":
                continue
            key = "%s#%d" % (cname, n)
            calls[cname].append((key, "m0", list(a), False))
            expected[key] = (cname, list(a), "exc" if ref[0] == "exc" else str(ref[1]))
    errors, results, log = JH.compile_and_run(sources, calls)
    for cname in sorted(sources):
        U.ensures("the decompiled source is accepted by javac", cname not in errors, scenario=cname, errors=errors.get(cname, [])[:3],
                  source=sources[cname][:1200])
        wrong = [(a, want, results.get(k)) for k, (c, a, want) in sorted(expected.items()) if c == cname and cname not in errors and results.get(k) != want]
        U.ensures("the compiled decompiler output returns the value (or throws the ArithmeticException) the bytecode does",
                  not wrong, scenario=cname, wrong=wrong[:4], source=sources[cname][:1200])


scenarios.enumerate_inputs = lambda tier, **p: iter([{}])
scenarios.conc_timeout = 600


# ------------------------------------------------------------------------------------------------
# Bounded: the programs with which an independent defect hunt (DESIGN §9, session 3) showed wrong decompilations of the
# unchanged tree -- moves of throwing expressions, cmp-long used as a value, do-while latches that leave on the taken branch, nop,
# switch fall-through layouts, loops nested in do-while bodies, register reuse with another type, three-level loop nests,
# conditional continue, switches in a row inside a case, default bodies starting with a condition or a loop.  int and long
# parameters; each program runs on the argument tuples recorded with it (specs/c21_hunt_scenarios.json).
_HUNT_KNOWN = {5: "KF-C21-6", 7: "KF-C21-7", 9: "KF-C21-8"}


def _hunt_programs():
    import json
    import os
    return json.load(open(os.path.join(os.path.dirname(os.path.dirname(os.path.abspath(__file__))), "specs", "c21_hunt_scenarios.json")))


@unit("C21", covers=E2E_COVERS, level="bounded", samples=1, timeout_ms=900000,
      note="25 hand-written programs from the defect hunt (int and long parameters, switches, nested loops, nop), each on its recorded "
           "argument tuples: independent DEX writer -> real DecompilerDAD -> javac -> java vs the reference interpreter")
def hunted_programs(U):
    for f in E2E_FILES:
        U.mod(f)
    dexm = U.mod("androguard/core/dex/__init__.py")
    anam = U.mod("androguard/core/analysis/analysis.py")
    decm = U.mod("androguard/decompiler/decompiler.py")
    sources, calls, expected, kf = {}, {}, {}, {}
    for p in _hunt_programs():
        code = [tuple(i) for i in p["code"]]
        cname = "H_" + p["name"]
        kf[cname] = [U.known(_HUNT_KNOWN[p["defect"]], True)] if p["defect"] in _HUNT_KNOWN else []
        params, r = [], p["nlocals"]
        for t in p["ptypes"]:
            params.append(r)
            r += 2 if t == "J" else 1
        insns = bytes.fromhex(p["insns"]) if p["insns"] else G.assemble(code)
        cd = dict(registers=r, ins=r - p["nlocals"], outs=0, insns=insns)
        cls = dict(name="Lp/%s;" % cname, access=1, super="Ljava/lang/Object;", interfaces=[], source=cname + ".java", sfields=[], ifields=[],
                   dmethods=[("m0", p["ret"], list(p["ptypes"]), 0x9, cd)], vmethods=[])
        o = U.call(lambda: decm.DecompilerDAD(*(lambda dx: (dx, (lambda an: (an.create_xref(), an)[1])(anam.Analysis(dx))))(dexm.DEX(DW.write([cls])))))
        U.ensures("the decompiler does not raise", o.ok, program=cname, exc=repr(o.exc)[:200], unless=kf[cname])
        if not o.ok:
            continue
        dad = o.value
        src = dad.get_source_class(dad.vm.get_classes()[0])
        U.ensures("the method is decompiled (a body is emitted)", " m0(" in src, program=cname, source=src[:400], unless=kf[cname])
        if " m0(" not in src:
            continue
        sources[cname], calls[cname] = src, []
        for n, a in enumerate(p["args"]):
            ref = G.interpret(code, dict(zip(params, a)))
            if ref[0] == "timeout":
                continue
            key = "%s#%d" % (cname, n)
            calls[cname].append((key, "m0", [("%dL" % v) if t == "J" else str(v) for v, t in zip(a, p["ptypes"])], False))
            expected[key] = (cname, list(a), "exc" if ref[0] == "exc" else str(ref[1]))
    errors, results, log = JH.compile_and_run(sources, calls)
    for cname in sorted(sources):
        U.ensures("the decompiled source is accepted by javac", cname not in errors, program=cname, errors=errors.get(cname, [])[:3],
                  source=sources[cname][:1200], unless=kf[cname])
        wrong = [(a, want, results.get(k)) for k, (c, a, want) in sorted(expected.items()) if c == cname and cname not in errors and results.get(k) != want]
        U.ensures("the compiled decompiler output returns the value (or throws the ArithmeticException) the bytecode does",
                  not wrong, program=cname, wrong=wrong[:4], source=sources[cname][:1200], unless=kf[cname])


hunted_programs.enumerate_inputs = lambda tier, **p: iter([{}])
hunted_programs.conc_timeout = 600
