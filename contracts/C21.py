"""C21  Decompiled integer code computes what the bytecode computes (DESIGN §7 C21) -- partial."""
import z3

from pyvc.core import And, Eq, Implies, Ite, Not, Or, SymBool, SymInt
from pyvc.unit import unit
from specs import javaexpr as J
from specs import dalvikgen as G
from specs import dexwriter as DW
from specs import javaharness as JH

OPI = "androguard/decompiler/opcode_ins.py"
WR = "androguard/decompiler/writer.py"
INS = "androguard/decompiler/instruction.py"
META = {
    "technique": 'contract-based deductive verification: symbolic execution of the real functions against sidecar contracts (z3/cvc5) for the proved units; bounded contract evaluation (enumerated scope / independent writer) for the rest',
    "level": "other",
    "partial": True,
    "level_text": "Partial: only the opcode -> expression translation is under contract. For every int/long arithmetic, bitwise, "
                  "shift (3-register, /2addr, /lit16, /lit8), negation, complement and int/long/byte/char/short conversion opcode the "
                  "real handler from INSTRUCTION_SET is run on a stub instruction, the expression it returns is printed by the real "
                  "Writer visitors, the printed Java text is parsed with Java's typing/semantics (promotion, shift masking, truncating "
                  "division) into a bit-vector term and proved equal, for all 2^32 / 2^64 operand values (z3 bit-vector proof), to the "
                  "Dalvik semantics of that opcode; destination and operand registers are checked too. NOT covered: register "
                  "propagation, dead code elimination, structuring (loops/ifs/switches), statement printing, javac acceptance.",
    "trusted": ["Java expression semantics as transcribed in specs/javaexpr.py (JLS §15)", "Dalvik opcode semantics table in the same file",
                "stub instruction objects exposing the register fields of formats 23x/12x/22s/22b"],
    "explanation": "opcode->expression semantics proved for all operand values; the rest of the decompiler pipeline is NOT covered by "
                   "this family (no contract expresses 'the emitted Java text computes the same function' for whole methods).",
    "assumptions": ["literal operands of /lit16 and /lit8 forms are taken from boundary sets (the literal is printed in decimal; "
                    "registers are fully symbolic)", "division/remainder: both sides throw for a zero divisor (precondition b != 0)"],
}

TABLE = J.table()
LITS16 = [-32768, -255, -1, 0, 1, 31, 32, 255, 32767]
LITS8 = [-128, -33, -1, 0, 1, 5, 31, 32, 33, 127]


class _Ins:
    def __init__(self, **kw):
        self.__dict__.update(kw)

    def get_output(self):
        return ""


def _print_rhs(wr, exp, vmap):
    w = object.__new__(wr.Writer)
    buf = []
    w.write = lambda s, data=None: buf.append(s)
    w.write_ext = lambda t: None
    for v in vmap.values():
        v.declared = True
    exp.rhs.visit(w)
    return "".join(buf)


def _bv(x, w):
    """operand as a w-bit vector (x: python int or proxy holding a w-bit signed value)"""
    if isinstance(x, SymInt):
        return z3.Extract(w - 1, 0, x.t)
    return z3.BitVecVal(x, w)


PARAMS = []
for _op, _d in sorted(TABLE.items()):
    if _d["form"] in ("22s", "22b"):
        for _l in (LITS16 if _d["form"] == "22s" else LITS8):
            PARAMS.append({"op": _op, "lit": _l})
    else:
        PARAMS.append({"op": _op, "lit": None})


@unit("C21", covers=[(OPI, "INSTRUCTION_SET", "global"), (OPI, "Op"), (OPI, "assign_binary_exp"), (OPI, "assign_binary_2addr_exp"),
                     (OPI, "assign_lit"), (OPI, "assign_cast_exp"), (OPI, "get_variables"), (WR, "Writer.visit_binary_expression"),
                     (WR, "Writer.visit_unary_expression"), (WR, "Writer.visit_cast"), (WR, "Writer.visit_constant"),
                     (WR, "Writer.visit_variable")], params=PARAMS, samples=25, timeout_ms=60000)
def opcode_expression(U, op, lit):
    opi, wr = U.mod(OPI), U.mod(WR)
    d = TABLE[op]
    w = 64 if d["ty"] == "J" else 32
    vmap = {}
    if d["form"] == "23x":
        ins = _Ins(AA=0, BB=1, CC=2)
        dest, srcs = 0, (1, 2)
    elif d["form"] == "12x":
        ins = _Ins(A=1, B=2)
        dest, srcs = 1, (1, 2)
    elif d["form"] == "22s":
        ins = _Ins(A=0, B=1, CCCC=lit)
        dest, srcs = 0, (1,)
    elif d["form"] == "22b":
        ins = _Ins(AA=0, BB=1, CC=lit)
        dest, srcs = 0, (1,)
    else:
        ins = _Ins(A=0, B=1)
        dest, srcs = 0, (1,)
    o = U.call(opi.INSTRUCTION_SET[op], ins, vmap)
    U.ensures("handler does not raise", o.ok, exc=repr(o.exc), opcode=d["name"])
    if not o.ok:
        return
    exp = o.value
    U.ensures("assigns to the destination register", getattr(exp, "lhs", None) == dest, got=getattr(exp, "lhs", None))
    text = _print_rhs(wr, exp, vmap)
    # operands: all bit patterns
    sw = 64 if d.get("src", d["ty"]) == "J" else 32
    a = U.int("a", -(1 << (sw - 1)), (1 << (sw - 1)) - 1)
    env = {"v%d" % srcs[0]: (_bv(a, sw), "J" if sw == 64 else "I")}
    args = [_bv(a, sw)]
    if len(srcs) == 2:
        bw = 32 if d.get("shift") else w
        b = U.int("b", -(1 << (bw - 1)), (1 << (bw - 1)) - 1)
        env["v%d" % srcs[1]] = (_bv(b, bw), "J" if bw == 64 else "I")
        args.append(_bv(b, bw))
    elif lit is not None:
        args.append(z3.BitVecVal(lit, 32))
    divisor_zero = False
    if d["name"].split("-")[0] in ("div", "rem"):
        divisor_zero = args[1] == 0
    try:
        term, ty = J.parse(text, env)
    except Exception as e:
        U.ensures("the printed expression is a Java integer expression over the operand registers", False, text=text, err=repr(e))
        return
    U.ensures("the printed expression has the opcode's result type", ty == d["ty"], text=text, got=ty)
    if ty != d["ty"]:
        return
    want = d["fn"](*args)
    cond = z3.Or(divisor_zero, term == want) if not isinstance(divisor_zero, bool) else (term == want)
    cond = z3.simplify(cond)
    if U.mode == "sym":
        U.ensures("for all operand values the printed Java expression computes the Dalvik result (%s)" % d["name"], SymBool(cond), text=text)
    else:
        U.ensures("for all operand values the printed Java expression computes the Dalvik result (%s)" % d["name"], z3.is_true(cond),
                  text=text, a=a, opcode=d["name"])


# ---------------------------------------------------------------------------------------------
# bounded end-to-end pipeline: generated DEX -> real DAD -> javac -> java, against the reference interpreter

E2E_FILES = ["androguard/decompiler/decompiler.py", "androguard/decompiler/decompile.py", "androguard/decompiler/dataflow.py",
             "androguard/decompiler/control_flow.py", "androguard/decompiler/graph.py", "androguard/decompiler/instruction.py",
             "androguard/decompiler/basic_blocks.py", OPI, WR]
BATCH = 50
NCHUNK = 16


def _known_seeds():
    import json
    import os
    p = os.path.join(os.path.dirname(os.path.dirname(os.path.abspath(__file__))), "known_c21_seeds.json")
    try:
        with open(p) as f:
            return {int(k): set(v) for k, v in json.load(f)["seeds"].items()}
    except FileNotFoundError:
        return {}


KNOWN_SEEDS = _known_seeds()


def _e2e_inputs(tier, chunk):
    nb = 2 if tier == "quick" else 20
    for b in range(nb):
        yield {"base": (chunk * 100 + b) * BATCH, "count": BATCH}


def generate(seed):
    """one single-method class for this seed -> (class model, method description, argument tuples)"""
    import random
    rng = random.Random(seed)
    cls, descs = G.make_class(rng, 1)
    d = descs[0]
    args = G.arg_tuples(rng, d["wide"], d["nparams"], 8)
    return cls, d, args


DF, CFL, GRF, DCP, INSF = ("androguard/decompiler/dataflow.py", "androguard/decompiler/control_flow.py", "androguard/decompiler/graph.py",
                            "androguard/decompiler/decompile.py", "androguard/decompiler/instruction.py")
E2E_COVERS = [(DCP, "DvMethod.process"), (DCP, "DvClass.get_source"), (DF, "build_def_use"), (DF, "split_variables"),
              (DF, "dead_code_elimination"), (DF, "register_propagation"), (DF, "clear_path"), (DF, "place_declarations"),
              (DF, "BasicReachDef.run"), (CFL, "identify_structures"), (CFL, "loop_struct"), (CFL, "if_struct"), (CFL, "switch_struct"),
              (CFL, "short_circuit_struct"), (CFL, "while_block_struct"), (GRF, "construct"), (GRF, "make_node"), (GRF, "split_if_nodes"),
              (GRF, "simplify"), (INSF, "BinaryExpression.replace"), (INSF, "BinaryExpression.has_side_effect"), (INSF, "Constant.visit"),
              (WR, "Writer.write_method"), (WR, "Writer.visit_statement_node"), (WR, "Writer.visit_cond_node"), (WR, "Writer.visit_loop_node"),
              (WR, "Writer.visit_switch_node"), (WR, "Writer.visit_assign"), (WR, "Writer.visit_return"), (WR, "Writer.visit_constant")]


@unit("C21", covers=E2E_COVERS, params=[{"chunk": c} for c in range(NCHUNK)], level="bounded", samples=2, timeout_ms=300000,
      note="generated structured static methods over int / long (constants, 3-register, /2addr, /lit16, /lit8 arithmetic, shifts, neg/not, "
           "int<->long/byte/char/short casts, if / if-else with compound && / || conditions, counted loops, packed and sparse switches), one "
           "method per class, assembled into a DEX file by an independent writer, decompiled by the real DecompilerDAD, compiled with "
           "javac 17 and run on 8 boundary/random argument tuples each; reference = independent Dalvik interpreter. quick: 16 x 2 x 50 "
           "methods, thorough: 16 x 20 x 50")
def end_to_end(U, chunk):
    for f in E2E_FILES:
        U.mod(f)
    dexm = U.mod("androguard/core/dex/__init__.py")
    anam = U.mod("androguard/core/analysis/analysis.py")
    decm = U.mod("androguard/decompiler/decompiler.py")
    g = U.given or {"base": chunk * 100 * BATCH, "count": BATCH}
    U.drawn.update(g)
    sources, calls, expected, seeds = {}, {}, {}, {}
    for seed in range(g["base"], g["base"] + g["count"]):
        cls, d, args = generate(seed)
        cname = "T%d" % seed
        cls["name"], cls["source"] = "Lp/%s;" % cname, cname + ".java"

        def decompile():
            dx = dexm.DEX(DW.write([cls]))
            an = anam.Analysis(dx)
            an.create_xref()
            return decm.DecompilerDAD(dx, an).get_source_class(dx.get_classes()[0])
        o = U.call(decompile)
        U.ensures("the decompiler does not raise", o.ok, seed=seed, exc=repr(o.exc)[:300])
        if not o.ok:
            continue
        sources[cname] = o.value
        seeds[cname] = seed
        calls[cname] = []
        for n, a in enumerate(args):
            ref = G.interpret(d["code"], dict(zip(d["params"], a)))
            if ref[0] == "timeout":
                continue
            key = "%s#%d" % (cname, n)
            calls[cname].append((key, d["name"], a, d["wide"]))
            expected[key] = (cname, a, "exc" if ref[0] == "exc" else str(ref[1]))
    errors, results, log = JH.compile_and_run(sources, calls)
    for cname in sorted(sources):
        seed = seeds[cname]
        cats = set(JH.category(m) for _, m in errors.get(cname, []))
        listed = KNOWN_SEEDS.get(seed, set())
        U.ensures("the decompiled source is accepted by javac", not cats,
                  unless=[U.known("KF-C21-1", "symbol" in cats and cats <= listed), U.known("KF-C21-2", "lossy" in cats and cats <= listed)],
                  seed=seed, errors=[list(e) for e in errors.get(cname, [])][:4], source=sources[cname][:1500])
    for key, (cname, a, want) in sorted(expected.items()):
        if cname in errors:
            continue
        U.ensures("the compiled decompiler output returns the value (or throws the ArithmeticException) the bytecode does",
                  results.get(key) == want, seed=seeds[cname], args=a, want=want, got=results.get(key), source=sources[cname][:1500], log=log[:200])


end_to_end.enumerate_inputs = _e2e_inputs
