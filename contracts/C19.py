"""C19  Reverse post-order numbering is a valid topological order of forward edges (DESIGN §7 C19)."""
import random

from contracts import graphworld as G
from pyvc.unit import unit

GR = "androguard/decompiler/graph.py"
META = {
    "technique": 'bounded stand-in (not proved): contract on the real compute_rpo evaluated on exhaustive small graphs + seeded random graphs',
    "level": "exploration",
    "partial": True,
    "level_text": "Bounded: ALL rooted digraphs on 5 nodes (65536, every third with a catch edge) and 3200 (thorough 32000) seeded random graphs of 6..60 nodes in 16 batch units; renumbering after changes of the graph. Bounded stand-in (NOT a proof): for every rooted digraph with up to 4 nodes whose nodes are all reachable (the "
                  "precondition Graph construction establishes) and seeded random graphs up to 300 nodes, the real compute_rpo / "
                  "post_order give the entry number 1, a permutation of 1..n, rpo sorted by number, and number the source of every "
                  "edge lower than its target unless the target is an ancestor-or-self of the source in the depth-first tree "
                  "(back edge, computed by an independent DFS in successor order).",
    "trusted": ["reference DFS (contracts/C19.py)"],
    "explanation": "bounded: exhaustive small graphs + random larger graphs, catch edges included.",
    "assumptions": ["graph.nodes holds exactly the nodes reachable from the entry (established by graph construction: call-site fact)"],
}


def _check(U, gmod, n, edges, catch=()):
    succ = {}
    for a, b in edges:
        succ.setdefault(a, []).append(b)
    reach = G.reachable(n, succ)
    keep = sorted(reach)
    ren = {old: i for i, old in enumerate(keep)}
    edges = [(ren[a], ren[b]) for a, b in edges if a in reach and b in reach]
    catch = [(ren[a], ren[b]) for a, b in catch if a in reach and b in reach]
    n = len(keep)
    g, nodes = G.build(gmod, n, [e for e in edges if e not in catch], catch)
    o = U.call(g.compute_rpo)
    U.ensures("compute_rpo does not raise", o.ok, exc=repr(o.exc), n=n, edges=edges)
    if not o.ok:
        return
    nums = [x.num for x in nodes]
    U.ensures("the entry has number 1", nodes[0].num == 1, nums=nums, edges=edges)
    U.ensures("the numbers are a permutation of 1..n", sorted(nums) == list(range(1, n + 1)), nums=nums, edges=edges)
    U.ensures("rpo lists the nodes by increasing number", [x.num for x in g.rpo] == sorted(nums) and len(g.rpo) == n)
    # independent DFS in all_sucs order: ancestors at discovery time
    order = {}
    for x in nodes:
        order[x.name] = [y.name for y in g.all_sucs(x)]
    anc = {}
    seen = set()

    def dfs(v, stack):
        seen.add(v)
        anc[v] = set(stack) | {v}
        for w in order[v]:
            if w not in seen:
                dfs(w, stack + [v])
    import sys
    sys.setrecursionlimit(10000)
    dfs(0, [])
    bad = [(a, b) for a in range(n) for b in order[a] if not (nums[a] < nums[b]) and b not in anc[a]]
    U.ensures("every non-back edge goes from a lower to a higher number", not bad, bad=bad[:5], nums=nums, edges=edges)


def _enum(tier, **_):
    for n in (1, 2, 3):
        for es in G.all_edge_sets(n, True):
            yield {"n": n, "edges": es, "catch": []}
            if n == 3:
                for i in range(len(es)):
                    yield {"n": n, "edges": es, "catch": [es[i]]}
    for es in G.all_edge_sets(4, tier != "quick"):
        yield {"n": 4, "edges": es, "catch": []}


@unit("C19", covers=[(GR, "Graph.compute_rpo"), (GR, "Graph.post_order")], level="bounded",
      note="all rooted digraphs with n<=3 (self-loops, single catch-edge splits) and n=4 (without self-loops in quick), restricted to "
           "their reachable part")
def small_graphs(U):
    gmod = U.mod(GR)
    g = U.given or {"n": 2, "edges": [(0, 1)], "catch": []}
    U.drawn.update({"n": g["n"], "edges": [list(e) for e in g["edges"]], "catch": [list(e) for e in g["catch"]]})
    _check(U, gmod, g["n"], [tuple(e) for e in g["edges"]], [tuple(e) for e in g["catch"]])


small_graphs.enumerate_inputs = lambda tier, **p: _enum(tier)


@unit("C19", covers=[(GR, "Graph.compute_rpo"), (GR, "Graph.post_order")], level="bounded", samples=150,
      note="seeded random graphs with 6..300 nodes")
def random_graphs(U):
    gmod = U.mod(GR)
    seed = U.int("seed", 0, 1 << 30)
    rng = random.Random(seed)
    n = rng.choice([6, 8, 10, 15, 30, 80, 300])
    edges = G.random_graph(rng, n, rng.choice([1, 2, 3]))
    _check(U, gmod, n, edges, [e for e in edges if rng.random() < 0.1])


# ---- the postcondition of compute_rpo holds in every pre-state: renumbering a graph that was numbered before and then changed
# (another entry node, an added edge, a removed node) must give a valid numbering of the CURRENT graph


def _valid_numbering(U, g, live, root, what):
    n = len(live)
    nums = {x.name: x.num for x in live}
    U.ensures("%s: the entry has number 1" % what, root.num == 1, nums=nums)
    U.ensures("%s: the numbers are a permutation of 1..n" % what, sorted(nums.values()) == list(range(1, n + 1)), nums=nums)
    U.ensures("%s: rpo lists the nodes by increasing number" % what, [x.num for x in g.rpo] == sorted(nums.values()) and len(g.rpo) == n)
    order = {x.name: [y.name for y in g.all_sucs(x)] for x in live}
    anc, seen = {}, set()

    def dfs(v, stack):
        seen.add(v)
        anc[v] = set(stack) | {v}
        for w in order[v]:
            if w not in seen:
                dfs(w, stack + [v])
    import sys
    sys.setrecursionlimit(10000)
    dfs(root.name, [])
    bad = [(a, b) for a in order for b in order[a] if not (nums[a] < nums[b]) and b not in anc.get(a, ())]
    U.ensures("%s: every non-back edge goes from a lower to a higher number" % what, not bad, bad=bad[:5], nums=nums)


def _all_reach(g, live, root):
    seen, st = set(), [root]
    while st:
        x = st.pop()
        if x in seen:
            continue
        seen.add(x)
        st.extend(g.all_sucs(x))
    return len(seen) == len(live)


@unit("C19", covers=[(GR, "Graph.compute_rpo"), (GR, "Graph.post_order"), (GR, "Graph.add_edge"), (GR, "Graph.remove_node")],
      level="bounded", samples=200,
      note="seeded random graphs (4..12 nodes, strongly connected core so that other entries reach everything): number, then 1..3 "
           "changes out of {move the entry, add an edge, remove a node}, renumbering after each")
def renumber_after_changes(U):
    gmod = U.mod(GR)
    seed = U.int("seed", 0, 1 << 30)
    rng = random.Random(seed)
    n = rng.randint(4, 12)
    edges = set(G.random_graph(rng, n, 2))
    for a in range(n):                       # a cycle through all nodes: every node reaches every node
        edges.add((a, (a + 1) % n))
    g, nodes = G.build(gmod, n, sorted(edges), [])
    live = list(nodes)
    o = U.call(g.compute_rpo)
    U.ensures("compute_rpo does not raise", o.ok, exc=repr(o.exc))
    if not o.ok:
        return
    _valid_numbering(U, g, live, g.entry, "fresh graph")
    for step in range(rng.randint(1, 3)):
        kind = rng.choice(["entry", "entry", "edge", "remove"])
        if kind == "entry":
            g.entry = rng.choice(live)
        elif kind == "edge":
            g.add_edge(rng.choice(live), rng.choice(live))
        else:
            cand = [x for x in live if x is not g.entry]
            if len(cand) < 2:
                continue
            v = rng.choice(cand)
            g.remove_node(v)
            live.remove(v)
        if not _all_reach(g, live, g.entry):
            return      # precondition of compute_rpo (all nodes reachable from the entry) no longer holds
        o = U.call(g.compute_rpo)
        U.ensures("compute_rpo does not raise", o.ok, exc=repr(o.exc))
        if not o.ok:
            return
        _valid_numbering(U, g, live, g.entry, "after change %d (%s)" % (step + 1, kind))


def _rpo_problems(gmod, n, edges, catch):
    """pure version of the clauses of _check for batch runs -> list of problems"""
    succ = {}
    for a, b in edges:
        succ.setdefault(a, []).append(b)
    reach = G.reachable(n, succ)
    keep = sorted(reach)
    ren = {old: i for i, old in enumerate(keep)}
    edges = [(ren[a], ren[b]) for a, b in edges if a in reach and b in reach]
    catch = [(ren[a], ren[b]) for a, b in catch if a in reach and b in reach]
    n = len(keep)
    g, nodes = G.build(gmod, n, [e for e in edges if e not in catch], catch)
    try:
        g.compute_rpo()
    except Exception as e:
        return ["raises %r" % e]
    nums = [x.num for x in nodes]
    out = []
    if nodes[0].num != 1:
        out.append("entry number %r" % nodes[0].num)
    if sorted(nums) != list(range(1, n + 1)):
        out.append("numbers are not a permutation of 1..n: %r" % nums[:12])
        return out
    if [x.num for x in g.rpo] != sorted(nums):
        out.append("rpo list not sorted by number")
    order = {x.name: [y.name for y in g.all_sucs(x)] for x in nodes}
    anc, seen = {}, set()
    stack = [(0, iter(order[0]))]
    seen.add(0)
    path = [0]
    anc[0] = {0}
    while stack:                      # iterative DFS in all_sucs order: ancestors at discovery time
        v, it = stack[-1]
        for w in it:
            if w not in seen:
                seen.add(w)
                anc[w] = set(path) | {w}
                path.append(w)
                stack.append((w, iter(order[w])))
                break
        else:
            stack.pop()
            path.pop()
    bad = [(a, b) for a in range(n) for b in order[a] if not (nums[a] < nums[b]) and b not in anc[a]]
    if bad:
        out.append("non-back edges that do not go up: %r" % bad[:4])
    return out


@unit("C19", covers=[(GR, "Graph.compute_rpo"), (GR, "Graph.post_order")], level="bounded", params=[{"chunk": c} for c in range(16)], samples=1,
      note="ALL rooted digraphs on 5 nodes without self-loops / edges into the entry (4096 per chunk, every third one with a catch edge) "
           "and 200 (thorough: 2000) seeded random graphs with 6..60 nodes per chunk")
def exhaustive_and_medium_graphs(U, chunk):
    import os
    gmod = U.mod(GR)
    U.drawn.update({"chunk": chunk})
    pairs = [(a, b) for a in range(5) for b in range(1, 5) if a != b]
    bad, cnt = [], 0
    for mask in range(chunk, 1 << len(pairs), 16):
        edges = [p for i, p in enumerate(pairs) if mask >> i & 1]
        catch = [edges[mask % len(edges)]] if edges and mask % 3 == 0 else []
        cnt += 1
        pr = _rpo_problems(gmod, 5, edges, catch)
        if pr:
            bad.append((edges, catch, pr))
            if len(bad) > 2:
                break
    count = 200 if os.environ.get("VERIF_TIER", "quick") == "quick" else 2000
    seed0 = int(os.environ.get("VERIF_SEED", "0") or 0)
    for k in range(count):
        if len(bad) > 2:
            break
        rng = random.Random("c19/%d/%d/%d" % (seed0, chunk, k))
        n = rng.randint(6, 60)
        edges = G.random_graph(rng, n, rng.choice([1, 2, 3]))
        catch = [e for e in edges if rng.random() < 0.12]
        cnt += 1
        pr = _rpo_problems(gmod, n, edges, catch)
        if pr:
            bad.append((n, edges[:40], catch[:10], pr))
    U.ensures("entry numbered 1, numbers a permutation, rpo sorted, every non-back edge goes up -- on every graph of the chunk", not bad,
              graphs=cnt, first_failures=bad[:2])


exhaustive_and_medium_graphs.enumerate_inputs = lambda tier, **p: iter([{}])
exhaustive_and_medium_graphs.conc_timeout = 600
