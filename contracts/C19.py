"""C19  Reverse post-order numbering is a valid topological order of forward edges (DESIGN §7 C19)."""
import random

from contracts import graphworld as G
from pyvc.unit import unit

GR = "androguard/decompiler/graph.py"
META = {
    "technique": 'bounded stand-in (not proved): contract on the real compute_rpo evaluated on exhaustive small graphs + seeded random graphs',
    "level": "exploration",
    "partial": True,
    "level_text": "Bounded stand-in (NOT a proof): for every rooted digraph with up to 4 nodes whose nodes are all reachable (the "
                  "precondition Graph construction establishes) and seeded random graphs up to 300 nodes, the real compute_rpo / "
                  "post_order give the entry number 1, a permutation of 1..n, rpo sorted by number, and number the source of every "
                  "edge lower than its target unless the target is an ancestor-or-self of the source in the depth-first tree "
                  "(back edge, computed by an independent DFS in successor order).",
    "trusted": ["reference DFS (contracts/C19.py)"],
    "explanation": "bounded: exhaustive small graphs + random larger graphs, catch edges included.",
    "assumptions": ["graph.nodes holds exactly the nodes reachable from the entry (established by graph construction: call-site fact)"],
}


def _check(U, gmod, n, edges, catch=()):
    succ = {}
    for a, b in edges:
        succ.setdefault(a, []).append(b)
    reach = G.reachable(n, succ)
    keep = sorted(reach)
    ren = {old: i for i, old in enumerate(keep)}
    edges = [(ren[a], ren[b]) for a, b in edges if a in reach and b in reach]
    catch = [(ren[a], ren[b]) for a, b in catch if a in reach and b in reach]
    n = len(keep)
    g, nodes = G.build(gmod, n, [e for e in edges if e not in catch], catch)
    o = U.call(g.compute_rpo)
    U.ensures("compute_rpo does not raise", o.ok, exc=repr(o.exc), n=n, edges=edges)
    if not o.ok:
        return
    nums = [x.num for x in nodes]
    U.ensures("the entry has number 1", nodes[0].num == 1, nums=nums, edges=edges)
    U.ensures("the numbers are a permutation of 1..n", sorted(nums) == list(range(1, n + 1)), nums=nums, edges=edges)
    U.ensures("rpo lists the nodes by increasing number", [x.num for x in g.rpo] == sorted(nums) and len(g.rpo) == n)
    # independent DFS in all_sucs order: ancestors at discovery time
    order = {}
    for x in nodes:
        order[x.name] = [y.name for y in g.all_sucs(x)]
    anc = {}
    seen = set()

    def dfs(v, stack):
        seen.add(v)
        anc[v] = set(stack) | {v}
        for w in order[v]:
            if w not in seen:
                dfs(w, stack + [v])
    import sys
    sys.setrecursionlimit(10000)
    dfs(0, [])
    bad = [(a, b) for a in range(n) for b in order[a] if not (nums[a] < nums[b]) and b not in anc[a]]
    U.ensures("every non-back edge goes from a lower to a higher number", not bad, bad=bad[:5], nums=nums, edges=edges)


def _enum(tier, **_):
    for n in (1, 2, 3):
        for es in G.all_edge_sets(n, True):
            yield {"n": n, "edges": es, "catch": []}
            if n == 3:
                for i in range(len(es)):
                    yield {"n": n, "edges": es, "catch": [es[i]]}
    for es in G.all_edge_sets(4, tier != "quick"):
        yield {"n": 4, "edges": es, "catch": []}


@unit("C19", covers=[(GR, "Graph.compute_rpo"), (GR, "Graph.post_order")], level="bounded",
      note="all rooted digraphs with n<=3 (self-loops, single catch-edge splits) and n=4 (without self-loops in quick), restricted to "
           "their reachable part")
def small_graphs(U):
    gmod = U.mod(GR)
    g = U.given or {"n": 2, "edges": [(0, 1)], "catch": []}
    U.drawn.update({"n": g["n"], "edges": [list(e) for e in g["edges"]], "catch": [list(e) for e in g["catch"]]})
    _check(U, gmod, g["n"], [tuple(e) for e in g["edges"]], [tuple(e) for e in g["catch"]])


small_graphs.enumerate_inputs = lambda tier, **p: _enum(tier)


@unit("C19", covers=[(GR, "Graph.compute_rpo"), (GR, "Graph.post_order")], level="bounded", samples=150,
      note="seeded random graphs with 6..300 nodes")
def random_graphs(U):
    gmod = U.mod(GR)
    seed = U.int("seed", 0, 1 << 30)
    rng = random.Random(seed)
    n = rng.choice([6, 8, 10, 15, 30, 80, 300])
    edges = G.random_graph(rng, n, rng.choice([1, 2, 3]))
    _check(U, gmod, n, edges, [e for e in edges if rng.random() < 0.1])
