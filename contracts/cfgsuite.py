"""Composition harness shared by C10, C11, C12, C40 (bounded): builds the real MethodAnalysis for
an enumerated small program and hands the pieces to the property-specific clause function."""
import itertools

from contracts import cfgworld as W

ANA = "androguard/core/analysis/analysis.py"
DEX = "androguard/core/dex/__init__.py"
NCHUNK = 16


def enum_inputs(tier, chunk):
    sizes = (1, 2, 3) if tier == "quick" else (1, 2, 3, 4)
    k = 0
    for n in sizes:
        for pi, items in enumerate(W.programs(n, tier)):
            for ti, _ in enumerate(W.try_layouts(n, tier)):
                if n == 4 and (pi * 7 + ti) % 23:      # thorough: n = 4 is sampled (1/23), n <= 3 exhaustive
                    continue
                k += 1
                if k % NCHUNK == chunk:
                    yield {"n": n, "prog": pi, "tries": ti, "tier": tier}


_cache = {}


def lookup(n, pi, ti, tier):
    key = (n, tier)
    if key not in _cache:
        _cache[key] = list(W.try_layouts(n, tier))
    return W.Prog(W.program_at(n, tier, pi), _cache[key][ti])


def build(U, tier_hint="quick"):
    """returns (prog, method, analysis or None, outcome)"""
    ana, dex = U.mod(ANA), U.mod(DEX)
    g = U.given or {"n": 2, "prog": 5, "tries": 0, "tier": "quick"}
    U.drawn.update(g)
    prog = lookup(g["n"], g["prog"], g["tries"], g.get("tier", "quick"))
    meth = W.Method(dex, prog)
    o = U.call(ana.MethodAnalysis, W.VM(), meth)
    return prog, meth, o


def describe(prog):
    return {"items": [[k, a] for k, a in prog.items], "tries": [list(map(str, t)) for t in prog.tries], "code": prog.encode().hex()}


def blocks_of(ma):
    return list(ma.get_basic_blocks().get())


def valid_offsets(prog):
    return set(prog.ins_offsets())


PARAMS = [{"chunk": c} for c in range(NCHUNK)]
NOTE = ("every method of 1..3 instructions (quick; thorough adds sparse-switch/fill-array and a 1/23 sample of 4-instruction "
        "methods) over {nop, const, return, throw, goto t, if t, packed-switch t1 t2} with every target (each instruction, the "
        "end of the body, outside the method), x 3-4 try/handler layouts; real linear sweep, real MethodAnalysis")


def enumerator(tier, chunk):
    return enum_inputs(tier, chunk)
