#!/bin/sh
# builds the interpreter the checks run under: a 3.12 venv with z3/cvc5 from the offline
# wheelhouse that also sees the repository's own dependencies (site dir of /venv)
set -e
HERE="$(cd "$(dirname "$0")" && pwd)"
cd "$HERE"
if [ ! -x .venv/bin/python ] || ! .venv/bin/python -c 'import z3' 2>/dev/null; then
  rm -rf .venv
  /venv/bin/python -m venv .venv
  PIP_NO_INDEX=1 .venv/bin/python -m pip install -q --no-index --find-links /opt/veriftools/wheels z3-solver cvc5 jsonschema
  echo "import site; site.addsitedir('/venv/lib/python3.12/site-packages')" > .venv/lib/python3.12/site-packages/_repo_deps.pth
fi
PYTHONPATH="$HERE:/repo" .venv/bin/python -c 'import z3, androguard; print("setup ok", z3.get_version_string())'
