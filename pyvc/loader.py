"""Mechanical extraction of the code under verification.

On every run the *whole* source file is re-read from /repo, parsed, passed through the
transformations listed below, compiled and executed into a private module object (not
registered in sys.modules).  The verified text is therefore the text that runs, minus
exactly these mechanical changes:

 T1  `"literal" % args`  ->  `__pyvc_fmt__("literal", args)`       (string formatting of
     symbolic values yields an uninterpreted token naming the term; concrete arguments are
     formatted by CPython)
 T2  loops named in a unit's `loops=` contract are replaced by the usual invariant
     encoding: assert invariant on entry; havoc the loop-modified state; assume invariant;
     one arbitrary iteration; assert invariant and variant decrease on the back edge (path
     ends); the code after the loop continues from invariant && !test.
 T4  `"literal".join(x)` -> `__pyvc_join__("literal", x)` (CPython's str.join rejects proxy
     strings; for real strings the helper calls str.join)
 T3  names bound in the module namespace after execution: `struct`, `unpack`, `pack`,
     `calcsize` (model of CPython's struct, models.py), the builtins `len`, `int`,
     `isinstance`, `max`, `min`, `bytes`, `bytearray`, `hex`, `ord`, `chr`, `str`,
     `sorted`, `sum`, `bool` (proxy-aware versions that defer to CPython for concrete
     values), and whatever the unit substitutes explicitly (callee contracts, opaque
     observers) -- each substitution is reported in the evidence of the unit.

Nothing else is dropped or rewritten; logging calls execute (loguru sinks are removed).
"""
from __future__ import annotations

import ast
import hashlib
import os
import sys
import types

REPO = os.environ.get("VERIF_REPO", "/repo")

_src_cache = {}


def read_source(relpath):
    p = os.path.join(REPO, relpath)
    st = os.stat(p)
    key = (p, st.st_mtime_ns, st.st_size)
    if key not in _src_cache:
        with open(p, encoding="utf-8") as f:
            src = f.read()
        _src_cache[key] = (src, ast.parse(src, filename=p))
    return _src_cache[key]


def modname_of(relpath):
    m = relpath[:-3].replace("/", ".")
    if m.endswith(".__init__"):
        m = m[: -len(".__init__")]
    return m


class _Index(ast.NodeVisitor):
    """qualname -> node for functions / classes"""

    def __init__(self):
        self.stack = []
        self.defs = {}

    def _visit_def(self, node):
        self.stack.append(node.name)
        self.defs[".".join(self.stack)] = node
        self.generic_visit(node)
        self.stack.pop()

    visit_FunctionDef = visit_ClassDef = visit_AsyncFunctionDef = _visit_def


def index_defs(tree):
    ix = _Index()
    ix.visit(tree)
    return ix.defs


def describe(relpath, qualname):
    """file, qualname, line span and sha256 of the source segment (for evidence)"""
    src, tree = read_source(relpath)
    defs = index_defs(tree)
    if qualname not in defs:
        raise BindingError("%s: no definition %r (contract must be re-bound)" % (relpath, qualname))
    n = defs[qualname]
    seg = "\n".join(src.splitlines()[n.lineno - 1:n.end_lineno])
    return {"file": relpath, "qualname": qualname, "lines": [n.lineno, n.end_lineno],
            "sha256": hashlib.sha256(seg.encode()).hexdigest()[:16]}


def describe_global(relpath, name):
    src, tree = read_source(relpath)
    for n in tree.body:
        if isinstance(n, (ast.Assign, ast.AnnAssign)):
            tg = n.targets if isinstance(n, ast.Assign) else [n.target]
            if any(isinstance(t, ast.Name) and t.id == name for t in tg):
                seg = "\n".join(src.splitlines()[n.lineno - 1:n.end_lineno])
                return {"file": relpath, "qualname": name, "lines": [n.lineno, n.end_lineno],
                        "sha256": hashlib.sha256(seg.encode()).hexdigest()[:16]}
    raise BindingError("%s: no global %r" % (relpath, name))


class BindingError(Exception):
    pass


class _Transform(ast.NodeTransformer):
    def __init__(self, loops):
        self.loops = loops or {}  # (qualname, ordinal) -> loop id
        self.stack = []
        self.counters = []
        self.bound = set()

    def _def(self, node):
        self.stack.append(node.name)
        self.counters.append(0)
        self.generic_visit(node)
        self.counters.pop()
        self.stack.pop()
        return node

    visit_ClassDef = _def

    def visit_FunctionDef(self, node):
        # local variables of the function (parameters and every name it stores): a loop contract may replace the value of any
        # local the loop reads (e.g. a list the loop appends to) -- never a global or builtin name
        a = node.args
        params = [x.arg for x in a.posonlyargs + a.args + a.kwonlyargs] + [x.arg for x in (a.vararg, a.kwarg) if x]
        glob = {n for s in ast.walk(node) if isinstance(s, (ast.Global, ast.Nonlocal)) for n in s.names}
        self.fn_locals = getattr(self, "fn_locals", [])
        self.fn_locals.append((set(params) | _assigned_names(node)) - glob)
        try:
            return self._def(node)
        finally:
            self.fn_locals.pop()

    def visit_BinOp(self, node):
        self.generic_visit(node)
        if isinstance(node.op, ast.Mod) and (
                isinstance(node.left, ast.Constant) and isinstance(node.left.value, str)):
            return ast.copy_location(
                ast.Call(func=ast.Name(id="__pyvc_fmt__", ctx=ast.Load()),
                         args=[node.left, node.right], keywords=[]), node)
        return node

    def visit_Call(self, node):
        self.generic_visit(node)
        f = node.func
        # T4: "literal".join(x) / "literal".format(...) -> proxy-aware helpers (CPython's str methods reject proxies)
        if isinstance(f, ast.Attribute) and isinstance(f.value, ast.Constant) and isinstance(f.value.value, (str, bytes)):
            if f.attr == "join" and len(node.args) == 1 and not node.keywords:
                return ast.copy_location(
                    ast.Call(func=ast.Name(id="__pyvc_join__", ctx=ast.Load()), args=[f.value, node.args[0]], keywords=[]), node)
        return node

    def _loop(self, node):
        if not self.counters:
            self.generic_visit(node)
            return node
        k = self.counters[-1]
        self.counters[-1] += 1
        key = (".".join(self.stack), k)
        # names the ORIGINAL loop assigns / reads (nested loops under contract are rewritten below and would add their own
        # re-binding assignments)
        own = {n.id for n in ast.walk(node.target) if isinstance(n, ast.Name)} if isinstance(node, ast.For) else set()
        assigned = _assigned_names(node)
        loaded = {n.id for n in ast.walk(node) if isinstance(n, ast.Name) and isinstance(n.ctx, ast.Load)} - own
        self.generic_visit(node)
        if key not in self.loops:
            return node
        self.bound.add(key)
        lid = self.loops[key]
        return _encode_loop(node, lid, self.fn_locals[-1] if getattr(self, "fn_locals", None) else set(), assigned, loaded)

    visit_While = _loop
    visit_For = _loop


class _BreakCont(ast.NodeTransformer):
    """inside the instrumented body: `continue` becomes the back-edge check"""

    def __init__(self, lid):
        self.lid = lid

    def visit_While(self, node):
        return node  # inner loops keep their own continue/break

    visit_For = visit_While
    visit_FunctionDef = visit_While

    def visit_Continue(self, node):
        return ast.copy_location(_back_edge(self.lid), node)


def _call(name, *args):
    return ast.Call(func=ast.Name(id=name, ctx=ast.Load()), args=list(args), keywords=[])


def _locals():
    return _call("locals")


def _back_edge(lid):
    return ast.Expr(value=_call("__pyvc_loop_back__", ast.Constant(lid), _locals()))


def _encode_loop(node, lid, fn_locals=frozenset(), assigned0=None, loaded0=None):
    """while/for with contract -> invariant encoding (see module docstring, T2)"""
    if node.orelse:
        raise BindingError("loop with else clause cannot carry a contract")
    body = [_BreakCont(lid).visit(s) for s in node.body]
    pre = []
    if isinstance(node, ast.While):
        test = node.test
        head = []
    else:
        # for TARGET in ITER:  ->  symbolic position inside the (finite) iterable
        # __it = __pyvc_for_iter__(lid, ITER);  test = __it.has_next();  TARGET = __it.next()
        itname = "__pyvc_it_%s" % abs(hash(lid))
        pre.append(ast.Assign(targets=[ast.Name(id=itname, ctx=ast.Store())],
                              value=_call("__pyvc_for_iter__", ast.Constant(lid), node.iter)))
        test = ast.Call(func=ast.Attribute(value=ast.Name(id=itname, ctx=ast.Load()), attr="has_next",
                                           ctx=ast.Load()), args=[], keywords=[])
        head = [ast.Assign(targets=[node.target],
                           value=ast.Call(func=ast.Attribute(value=ast.Name(id=itname, ctx=ast.Load()),
                                                             attr="next", ctx=ast.Load()), args=[], keywords=[]))]
    # __pyvc_loop_enter__(lid, locals()) returns a dict of havocked locals, applied via exec-free assignment:
    # we assign each modified local explicitly: names come from the loop spec at run time, so we use a
    # generic update through a helper that returns a tuple in the order of `__pyvc_loop_names__(lid)`.
    # names the body reads; the target of a `for` is bound by the loop itself before the body runs
    own = {n.id for n in ast.walk(node.target) if isinstance(n, ast.Name)} if isinstance(node, ast.For) else set()
    if loaded0 is None:
        loaded0 = {n.id for n in ast.walk(node) if isinstance(n, ast.Name) and isinstance(n.ctx, ast.Load)} - own
    loaded = sorted(n for n in loaded0 if not n.startswith("__pyvc"))
    enter = ast.Expr(value=_call("__pyvc_loop_enter__", ast.Constant(lid), _locals(),
                                 ast.List(elts=[ast.Constant(n) for n in loaded], ctx=ast.Load())))
    assigned = set(assigned0) if assigned0 is not None else _assigned_names(node)
    names = assigned | (set(loaded) & set(fn_locals))
    hav = []
    for nm in sorted(names):
        hav.append(ast.Assign(
            targets=[ast.Name(id=nm, ctx=ast.Store())],
            value=_call("__pyvc_loop_havoc__", ast.Constant(lid), ast.Constant(nm), _locals(), ast.Constant(nm in assigned))))
    assume = ast.Expr(value=_call("__pyvc_loop_assume__", ast.Constant(lid), _locals()))
    inner = ast.While(
        test=ast.Constant(True),
        body=[ast.If(test=ast.UnaryOp(op=ast.Not(), operand=test), body=[ast.Break()], orelse=[]),
              ast.Expr(value=_call("__pyvc_loop_iter__", ast.Constant(lid), _locals()))]
        + head + body + [_back_edge(lid)],
        orelse=[])
    out = pre + [enter] + hav + [assume, inner]
    for n in out:
        ast.copy_location(n, node)
        ast.fix_missing_locations(n)
    return out


def _assigned_names(node):
    names = set()
    for n in ast.walk(node):
        if isinstance(n, ast.Name) and isinstance(n.ctx, ast.Store):
            names.add(n.id)
    return names


def load_module(relpath, loops=None, private_name=None):
    """compile the current /repo source of `relpath` (transformed) into a fresh module"""
    src, tree = read_source(relpath)
    tree = ast.parse(src, filename=os.path.join(REPO, relpath))  # fresh copy, we mutate
    tr = _Transform(loops)
    tree = tr.visit(tree)
    ast.fix_missing_locations(tree)
    missing = set((loops or {}).keys()) - tr.bound
    if missing:
        raise BindingError("loop contract(s) not bound in %s: %s" % (relpath, sorted(missing)))
    name = modname_of(relpath)
    if REPO not in sys.path:
        sys.path.insert(0, REPO)
    mod = types.ModuleType(name)
    mod.__file__ = os.path.join(REPO, relpath)
    if relpath.endswith("__init__.py"):
        mod.__package__ = name
        mod.__path__ = [os.path.dirname(mod.__file__)]
    else:
        mod.__package__ = name.rpartition(".")[0]
    from . import shadow
    shadow.install_pre(mod)
    code = compile(tree, mod.__file__, "exec", dont_inherit=True)
    exec(code, mod.__dict__)
    shadow.install_post(mod)
    return mod


def import_real(relpath):
    import importlib
    if REPO not in sys.path:
        sys.path.insert(0, REPO)
    return importlib.import_module(modname_of(relpath))
