"""Models of the library objects the verified code talks to (assumed contracts A-struct, A-io).

`StructModule` replaces the `struct` module (and the names imported from it) inside the
compiled copy of a repository module; `SymStream` stands for io.BytesIO /
io.BufferedReader objects.  Both accept concrete values too and then behave like CPython
(they delegate to the real `struct` for purely concrete arguments).
"""
from __future__ import annotations

import re
import struct as _struct

import z3

from .core import (PathEnd, SymBool, SymBytes, SymInt, Unsupported, W, _bv, _mk, ctx)

_CODES = {
    "b": (1, True), "B": (1, False), "h": (2, True), "H": (2, False),
    "i": (4, True), "I": (4, False), "l": (4, True), "L": (4, False),
    "q": (8, True), "Q": (8, False), "f": (4, None), "d": (8, None),
}


def _float_from_bits(bs):
    """IEEE-754 value (as binary64) of little-endian bytes (4: binary32, 8: binary64)"""
    from .core import SymFloat
    t = None
    for b in reversed(bs):
        e = z3.Extract(7, 0, SymInt.lift(b).t)
        t = e if t is None else z3.Concat(t, e)
    if len(bs) == 4:
        return SymFloat(z3.fpFPToFP(z3.RNE(), z3.fpBVToFP(t, z3.Float32()), z3.Float64()))
    return SymFloat(z3.fpBVToFP(t, z3.Float64()))


def _parse_fmt(fmt):
    order = "<"
    if fmt and fmt[0] in "<>=!@":
        order = fmt[0]
        fmt = fmt[1:]
    if order in ">!":
        raise Unsupported("big-endian struct format")
    if order == "@":
        raise Unsupported("native-aligned struct format")
    items = []
    for cnt, ch in re.findall(r"(\d*)([a-zA-Z?])", fmt.replace(" ", "")):
        n = int(cnt) if cnt else 1
        if ch == "s":
            items.append(("s", n))
        elif ch == "x":
            items.append(("x", n))
        elif ch in _CODES:
            items.extend([(ch, 1)] * n)
        else:
            raise Unsupported("struct format char %r" % ch)
    return items


def _size(items):
    t = 0
    for ch, n in items:
        t += n if ch in "sx" else _CODES[ch][0]
    return t


def _has_sym(vals):
    for v in vals:
        if isinstance(v, (SymInt, SymBytes, SymBool)):
            return True
        if isinstance(v, (list, tuple)) and _has_sym(v):
            return True
    return False


def compose_le(bs, signed):
    """little-endian value of a list of byte values (ints / SymInts in 0..255)"""
    n = len(bs)
    if not _has_sym(bs):
        return int.from_bytes(bytes(bs), "little", signed=signed)
    t = None
    for b in reversed(bs):
        bt = SymInt.lift(b).t
        e = z3.Extract(7, 0, bt)
        t = e if t is None else z3.Concat(t, e)
    if signed:
        return SymInt(z3.SignExt(W - 8 * n, t), -(1 << (8 * n - 1)), (1 << (8 * n - 1)) - 1)
    return SymInt(z3.ZeroExt(W - 8 * n, t), 0, (1 << (8 * n)) - 1)


def split_le(v, n):
    """the n little-endian bytes of value v (two's complement)"""
    if not isinstance(v, SymInt):
        return list((v & ((1 << (8 * n)) - 1)).to_bytes(n, "little"))
    out = []
    for i in range(n):
        e = z3.Extract(8 * i + 7, 8 * i, v.t)
        out.append(_mk(z3.ZeroExt(W - 8, e), 0, 255))
    return out


class StructModel:
    def __init__(self, fmt, errcls):
        self.format = fmt
        self._items = _parse_fmt(fmt)
        self.size = _size(self._items)
        self._err = errcls

    def unpack(self, data):
        if isinstance(data, memoryview):
            data = bytes(data)
        if isinstance(data, (bytes, bytearray)):
            try:
                return _struct.unpack(self.format if self.format[0] in "<=" else "<" + self.format, data)
            except _struct.error as e:
                raise self._err(str(e))
        if not isinstance(data, SymBytes):
            if hasattr(data, "as_symbytes"):
                data = data.as_symbytes()
            else:
                raise Unsupported("unpack of %r" % type(data))
        if len(data) != self.size:
            raise self._err("unpack requires a buffer of %d bytes" % self.size)
        out, p = [], 0
        for ch, n in self._items:
            if ch == "x":
                p += n
            elif ch == "s":
                out.append(SymBytes(data.items[p:p + n]))
                p += n
            else:
                sz, sg = _CODES[ch]
                if sg is None:
                    out.append(_float_from_bits(data.items[p:p + sz]))
                else:
                    out.append(compose_le(data.items[p:p + sz], sg))
                p += sz
        return tuple(out)

    def unpack_from(self, data, offset=0):
        return self.unpack(data[offset:offset + self.size])

    def pack(self, *vals):
        nvals = sum(1 for ch, _ in self._items if ch != "x")
        if len(vals) != nvals:
            raise self._err("pack expected %d items for packing (got %d)" % (nvals, len(vals)))
        if not _has_sym(vals):
            try:
                return _struct.pack(self.format if self.format[0] in "<=" else "<" + self.format, *vals)
            except _struct.error as e:
                raise self._err(str(e))
        out, k = [], 0
        for ch, n in self._items:
            if ch == "x":
                out.extend([0] * n)
                continue
            v = vals[k]
            k += 1
            if ch == "s":
                b = list(v.items if isinstance(v, SymBytes) else v)
                out.extend((b + [0] * n)[:n])
                continue
            if isinstance(v, SymBool):
                v = SymInt.lift(v)
            if not isinstance(v, (int, SymInt)) or isinstance(v, bool) and False:
                raise self._err("required argument is not an integer")
            sz, sg = _CODES[ch]
            if sg is None:
                if isinstance(v, (int, float)):
                    out.extend(_struct.pack("<" + ch, v))
                    continue
                raise Unsupported("pack of a symbolic float")
            lo, hi = (-(1 << (8 * sz - 1)), (1 << (8 * sz - 1)) - 1) if sg else (0, (1 << (8 * sz)) - 1)
            if isinstance(v, SymInt):
                if v.lo < lo or v.hi > hi:
                    if ctx().decide(z3.Or(v.t < lo, v.t > hi)):
                        raise self._err("'%s' format requires %d <= number <= %d" % (ch, lo, hi))
                    v = SymInt(v.t, max(lo, v.lo), min(hi, v.hi))
            elif not lo <= v <= hi:
                raise self._err("'%s' format requires %d <= number <= %d" % (ch, lo, hi))
            out.extend(split_le(v, sz))
        return SymBytes(out)


class StructModule:
    """drop-in for the `struct` module inside a compiled repository module"""

    error = _struct.error

    def __init__(self):
        self._cache = {}

    def Struct(self, fmt):
        if fmt not in self._cache:
            self._cache[fmt] = StructModel(fmt, self.error)
        return self._cache[fmt]

    def calcsize(self, fmt):
        return _struct.calcsize(fmt)

    def unpack(self, fmt, data):
        if isinstance(data, (bytes, bytearray)):
            return _struct.unpack(fmt, data)
        return self.Struct(fmt).unpack(data)

    def pack(self, fmt, *vals):
        if not _has_sym(vals):
            return _struct.pack(fmt, *vals)
        return self.Struct(fmt).pack(*vals)

    def unpack_from(self, fmt, data, offset=0):
        return self.Struct(fmt).unpack_from(data, offset)


class PackerModel:
    """stands for DalvikPacker('<'): item -> Struct('<' + item)"""

    def __init__(self, sm: StructModule, endian="<"):
        self._sm, self.endian_tag = sm, endian

    def __getitem__(self, item):
        return self._sm.Struct(self.endian_tag + item)


class SymKeyDict:
    """a dict (same mapping) that can be asked with a proxy key: lookup by equality, forking"""

    def __init__(self, d):
        self._d = d

    def _find(self, k):
        for key in self._d:
            e = key == k
            if e is False or e is NotImplemented:
                continue
            if e:          # forks for proxies
                return True, self._d[key]
        return False, None

    def get(self, k, default=None):
        ok, v = self._find(k)
        return v if ok else default

    def __getitem__(self, k):
        ok, v = self._find(k)
        if not ok:
            raise KeyError(k)
        return v

    def __contains__(self, k):
        return self._find(k)[0]

    def __iter__(self):
        return iter(self._d)

    def __len__(self):
        return len(self._d)

    def keys(self):
        return self._d.keys()

    def items(self):
        return self._d.items()

    def values(self):
        return self._d.values()


class IoModel:
    """drop-in for the `io` module: BytesIO over proxy bytes is the stream model"""

    def __init__(self):
        import io as _io
        self._io = _io

    def BytesIO(self, data=b""):
        if isinstance(data, SymBytes):
            return SymStream(data)
        return self._io.BytesIO(data)

    def BufferedReader(self, raw, *a):
        if isinstance(raw, SymStream):
            return raw
        return self._io.BufferedReader(raw, *a)

    def __getattr__(self, n):
        return getattr(self._io, n)


class NonTerminating(Exception):
    """the code under contract keeps reading a finite stream without making progress"""


class SymStream:
    """io.BytesIO over a SymBytes / bytes of concrete length, concrete position"""

    def __init__(self, data, pos=0):
        self.data = data if isinstance(data, SymBytes) else SymBytes(data)
        self.pos = pos
        self.reads = 0

    def read(self, n=-1):
        n = -1 if n is None else n
        if isinstance(n, SymInt):
            n = n.concretize()
        self.reads += 1
        if self.reads > 20 * len(self.data) + 2000:
            # far more reads than bytes: the caller keeps reading at EOF.  Reported as an observable
            # outcome (an exception of the call) so that the counter-model is replayed on the real code.
            raise NonTerminating("more than %d reads on a %d-byte stream" % (self.reads - 1, len(self.data)))
        L = len(self.data)
        if n < 0:
            n = max(L - self.pos, 0)
        out = self.data[self.pos:self.pos + n] if self.pos < L else SymBytes([])
        self.pos += len(out)
        return out

    def tell(self):
        return self.pos

    def seek(self, off, whence=0):
        if isinstance(off, SymInt):
            off = off.concretize()
        if whence == 0:
            if off < 0:
                raise ValueError("negative seek value %d" % off)
            self.pos = off
        elif whence == 1:
            self.pos = max(self.pos + off, 0)
        elif whence == 2:
            self.pos = max(len(self.data) + off, 0)
        else:
            raise ValueError("invalid whence")
        return self.pos

    def getvalue(self):
        return self.data

    def getbuffer(self):
        return self.data

    @property
    def raw(self):
        return self

    def readable(self):
        return True

    def close(self):
        pass
