"""Loop contracts (loader transformation T2) and the ghost data they talk about.

A loop of the real code that is named in a unit's `loops=` table is not unrolled: the loader
replaces it by the usual invariant encoding and the hooks below generate the obligations

    <loop>: invariant holds on entry
    <loop>: invariant is preserved by an arbitrary iteration
    <loop>: variant is bounded below / decreases            (while loops; a `for` over a finite
                                                            sequence advances its own position)

and the code after the loop runs from an arbitrary state satisfying invariant && !test.  The proof is
therefore independent of the number of iterations and of the length of the data.

Frame: every local name the loop body reads must be declared by the contract as `havoc` (replaced by
a fresh value), `heap` (ghost object whose state is havocked in place) or `const` (bound to an object
the body does not modify -- a frame *assumption*, listed in the evidence).  A name that is assigned in
the loop and not declared is poisoned: any use before its re-assignment makes the unit undecided.
Quantified facts are expressed with Skolem constants (ghost indices drawn by the unit).
"""
from __future__ import annotations

import z3

from . import core
from .core import SymBool, SymInt, Unsupported, W, ctx


def _t(cond):
    if z3.is_expr(cond):
        return cond
    if isinstance(cond, SymBool):
        return cond.t
    if isinstance(cond, SymInt):
        return cond.t != 0
    return bool(cond)


def prove(label, cond, **info):
    return ctx().prove(label, _t(cond), info=info or None)


class Poison:
    """value of a loop-modified local the contract does not describe"""
    __slots__ = ("_pyvc_name",)

    def __init__(self, name):
        object.__setattr__(self, "_pyvc_name", name)

    def _fail(self, *a, **k):
        raise Unsupported("local %r is modified by a loop under contract and used without being described by the contract"
                          % object.__getattribute__(self, "_pyvc_name"))

    def __getattr__(self, n):
        self._fail()

    __bool__ = __iter__ = __index__ = __int__ = __len__ = __call__ = __getitem__ = __setitem__ = _fail
    __add__ = __radd__ = __sub__ = __rsub__ = __mul__ = __rmul__ = __and__ = __or__ = __xor__ = __lshift__ = __rshift__ = _fail
    __lt__ = __le__ = __gt__ = __ge__ = __eq__ = __ne__ = __neg__ = __invert__ = __floordiv__ = __mod__ = __contains__ = _fail
    __hash__ = None


# ------------------------------------------------------------------------------------------------
# ghost sequences


class AbstractSeq:
    """finite sequence of symbolic length `n`; element k is produced by `at(k)` (k may be a proxy)"""

    def __init__(self, n, at, name="seq"):
        self.n, self.at, self.name = n, at, name

    def __iter__(self):
        if isinstance(self.n, int):
            for i in range(self.n):
                yield self.at(i)
            return
        i = 0
        while ctx().decide(self.n.t > i):       # native iteration: one fork per element
            yield self.at(i)
            i += 1
            if i > 20000:
                raise Unsupported("abstract sequence iterated natively for more than 20000 elements")

    def __pyvc_len__(self):
        return self.n


class SymRange:
    """range(start, start + n * step, step) with a symbolic count n"""

    def __init__(self, start, n, step=1):
        self.start, self.n, self.step = start, n, step

    def seq(self):
        return AbstractSeq(self.n, lambda k: self.start + k * self.step, "range")

    def __iter__(self):
        n = self.n
        if isinstance(n, SymInt):
            if n.hi - n.lo + 1 > 300:
                n.tighten()
            if n.hi - n.lo + 1 > 300:
                return iter(self.seq())
            n = n.concretize(limit=4096)
        return iter([self.start + i * self.step for i in range(max(n, 0))])

    def __pyvc_len__(self):
        return self.n


def as_seq(x):
    if isinstance(x, AbstractSeq):
        return x
    if isinstance(x, SymRange):
        return x.seq()
    if isinstance(x, (list, tuple, range)):
        lst = list(x)
        return AbstractSeq(len(lst), lambda k: lst[k if isinstance(k, int) else k.concretize(limit=len(lst) + 1)], "list")
    raise Unsupported("loop contract on a `for` over %s" % type(x).__name__)


class SeqIter:
    def __init__(self, seq, tag):
        self.seq, self.k, self.tag = seq, 0, tag

    def havoc(self):
        n = self.seq.n
        hi = n if isinstance(n, int) else n.hi
        self.k = core.fresh_int("%s.k" % self.tag, 0, max(hi, 0))
        if isinstance(self.k, SymInt):
            ctx().assume(_t(self.k <= n))

    def has_next(self):
        return bool(self.k < self.seq.n)

    def next(self):
        e = self.seq.at(self.k)
        self.k = self.k + 1
        return e


class GhostList:
    """a list the loop appends to: symbolic length, contents known through integer *observers*
    (name -> (function of an element, lo, hi)); only append / len are allowed on it."""

    def __init__(self, name, observers):
        self.name, self.observers = name, observers
        self.n = 0
        self.arr = {o: z3.K(z3.BitVecSort(W), z3.BitVecVal(0, W)) for o in observers}
        self.version = 0
        self.appended = []          # elements appended since the last havoc (ghost)

    def append(self, el):
        for o, (f, lo, hi) in self.observers.items():
            v = SymInt.lift(f(el))
            prove("%s: appended element's %s lies in %d..%d" % (self.name, o, lo, hi), core.And(v >= lo, v <= hi))
            self.arr[o] = z3.Store(self.arr[o], SymInt.lift(self.n).t, v.t)
        self.n = self.n + 1
        self.appended.append(el)

    def havoc(self, tag):
        self.version += 1
        self.n = core.fresh_int("%s.len@%s" % (self.name, tag), 0, 1 << 32)
        for o in self.observers:
            self.arr[o] = z3.Array("%s.%s@%s.%d" % (self.name, o, tag, self.version), z3.BitVecSort(W), z3.BitVecSort(W))
        self.appended = []

    def obs(self, o, j):
        """observer `o` of element j (j < len is the reader's obligation); range facts are instantiated here"""
        f, lo, hi = self.observers[o]
        t = z3.Select(self.arr[o], SymInt.lift(j).t)
        t = z3.simplify(t)
        if z3.is_bv_value(t):
            return t.as_signed_long()
        ctx().add_fact(z3.And(t >= lo, t <= hi))
        return SymInt(t, lo, hi)

    def __pyvc_len__(self):
        return self.n

    def __len__(self):
        n = self.n
        return n if isinstance(n, int) else n.concretize()

    def __getattr__(self, nm):
        raise Unsupported("operation %r on a ghost list" % nm)


# ------------------------------------------------------------------------------------------------
# loop contract


def _immutable(v):
    """values a loop cannot change in place: numbers, texts, bytes, None, functions / bound methods of such, struct objects, tuples of these"""
    import struct as _struct
    import types as _types
    from .strings import SymStr
    if v is None or isinstance(v, (bool, int, float, str, bytes, frozenset, core.SymInt, core.SymBool, core.SymFloat, core.SymBytes, SymStr,
                                   _struct.Struct, _types.FunctionType, _types.BuiltinFunctionType, type)):
        return True
    if isinstance(v, _types.MethodType):
        return _immutable(v.__self__) or type(v.__self__).__name__ in ("StructModel", "Struct")
    if isinstance(v, tuple):
        return all(_immutable(x) for x in v)
    return type(v).__name__ in ("StructModel",)


class _AliasView:
    """the loop's locals under the contract's names (see LoopSpec._view)"""

    def __init__(self, L, alias, loop=""):
        self.L, self.alias, self.loop = L, alias, loop

    def __getitem__(self, k):
        a = self.alias.get(k, k)
        if a not in self.L:
            # the contract speaks of a local the (edited) loop does not have: the contract does not bind, nothing is wrong with the code
            raise Unsupported("loop contract %s refers to local %r, which the function does not bind here" % (self.loop, k))
        return self.L[a]

    def __setitem__(self, k, v):
        self.L[self.alias.get(k, k)] = v

    def __contains__(self, k):
        return self.alias.get(k, k) in self.L

    def get(self, k, d=None):
        return self.L.get(self.alias.get(k, k), d)


class LoopSpec:
    """contract of one loop.  Subclass or instantiate with functions; `G` is per-path ghost state set by the unit."""

    def __init__(self, name, invariant=None, variant=None, havoc=None, heap=(), const=(), at_back=None, at_iteration=None,
                 at_havoc=None):
        self.name = name
        self._inv, self._var = invariant, variant
        self.havoc_names = dict(havoc or {})
        self.heap, self.const = tuple(heap), tuple(const)
        self._at_back, self._at_iteration, self._at_havoc = at_back, at_iteration, at_havoc
        self.G = {}
        self.it = None
        self._v0 = None
        self.tag = name
        self.alias = {}

    # -- renamed locals: a contract names the locals of the loop; when exactly one declared name is gone from the function and
    # exactly one undeclared local is read by the loop (and it can play the role: a heap name must be havoc-able), the contract
    # is applied to that local (recorded in the evidence notes as loop-alias).  Anything less clear-cut stays Unsupported.
    def _view(self, L):
        return _AliasView(L, self.alias, self.name)

    # -- what the contract says
    def invariant(self, L, k):
        return True if self._inv is None else self._inv(self, self._view(L), k)

    def variant(self, L, k):
        return None if self._var is None else self._var(self, self._view(L), k)

    # -- hooks called by the transformed loop
    def for_iter(self, iterable):
        self.it = SeqIter(as_seq(iterable), self.tag)
        return self.it

    def _k(self):
        return None if self.it is None else self.it.k

    def enter(self, L, loaded):
        declared = set(self.havoc_names) | set(self.heap) | set(self.const)
        self.alias = {}
        missing = sorted(n for n in loaded if n in L and n not in declared and not n.startswith("__pyvc"))
        gone = sorted(n for n in declared if n not in L and n not in loaded)
        if len(missing) == 1 and len(gone) == 1 and (gone[0] not in self.heap or hasattr(L[missing[0]], "havoc")):
            self.alias = {gone[0]: missing[0]}
            ctx().notes.append("loop-alias:%s:%s->%s" % (self.name, gone[0], missing[0]))
            missing = []
        # an undeclared local bound to an immutable value at loop entry (a hoisted length, a bound method, a struct object): if
        # the loop does not assign it -- havoc() is told -- it is a constant of the loop whatever its name; it is noted as such
        self.frozen = set(n for n in missing if _immutable(L[n]))
        missing = [n for n in missing if n not in self.frozen]
        if missing:
            raise Unsupported("loop %s reads locals %s that its contract does not classify (havoc / heap / const)" % (self.name, missing))
        for n in self.heap:
            n = self.alias.get(n, n)
            if n in L and not hasattr(L[n], "havoc"):
                raise Unsupported("loop %s: heap name %r is bound to %s, which cannot be havocked" % (self.name, n, type(L[n]).__name__))
        self.entry = dict(L)
        ctx().notes.append("loop-contract:%s" % self.name)
        prove("%s: invariant holds on entry" % self.name, self.invariant(L, self._k()))

    def havoc(self, name, L, assigned=True):
        """value of local `name` in the arbitrary loop state; `assigned`: the loop body assigns the name"""
        actual = name
        name = {v: k for k, v in self.alias.items()}.get(name, name)         # the contract's name for this local
        if name in self.havoc_names:
            return self.havoc_names[name](self, self._view(L))
        L = {name: L[actual]} if (actual != name and actual in L) else L
        if name in getattr(self, "frozen", ()):
            if assigned:
                raise Unsupported("loop %s assigns local %r, which its contract does not classify (havoc / heap / const)" % (self.name, name))
            ctx().notes.append("loop-const:%s:%s" % (self.name, name))
            return L[name]
        if not assigned:
            # only read (or mutated in place) by the loop: unchanged binding; enter() has checked that it is declared heap/const
            return L[name] if name in L else Poison(name)
        if name in self.const and name in L:
            raise Unsupported("loop %s assigns %r, which its contract declares const" % (self.name, name))
        if name in self.heap and name in L:
            return L[name]
        return Poison(name)

    def assume(self, L):
        for n in self.heap:
            n = self.alias.get(n, n)
            if n in L:
                L[n].havoc(self.tag)
        if self.it is not None:
            self.it.havoc()
        if self._at_havoc is not None:
            self._at_havoc(self, self._view(L))       # contract-specific havoc of object fields the loop writes (e.g. self.x = GhostList)
        ctx().assume(_t(self.invariant(L, self._k())))

    def iteration(self, L):
        if self.it is None:
            v = self.variant(L, None)
            if v is None:
                raise Unsupported("while loop %s under contract without a variant" % self.name)
            prove("%s: variant is non-negative whenever the loop continues" % self.name, v >= 0)
            self._v0 = v
        if self._at_iteration is not None:
            self._at_iteration(self, self._view(L), self._k())

    def back(self, L):
        if self._at_back is not None:
            self._at_back(self, self._view(L), self._k())
        prove("%s: invariant is preserved by an arbitrary iteration" % self.name, self.invariant(L, self._k()))
        if self.it is None:
            prove("%s: variant strictly decreases" % self.name, self.variant(L, None) < self._v0)


class GhostIntList:
    """a list of integers of symbolic length (contents in one z3 array): append, len, item read and write"""

    def __init__(self, name, lo, hi):
        self.name, self.lo, self.hi = name, lo, hi
        self.n = 0
        self.arr = z3.K(z3.BitVecSort(W), z3.BitVecVal(0, W))
        self.version = 0

    def _idx(self, i):
        if isinstance(i, SymInt) or isinstance(self.n, SymInt):
            if bool(core.Or(i < 0, i >= self.n)):
                raise IndexError("list index out of range")
        elif not 0 <= i < self.n:
            raise IndexError("list index out of range")
        return SymInt.lift(i).t

    def append(self, v):
        v = SymInt.lift(v)
        prove("%s: appended value lies in %d..%d" % (self.name, self.lo, self.hi), core.And(v >= self.lo, v <= self.hi))
        self.arr = z3.Store(self.arr, SymInt.lift(self.n).t, v.t)
        self.n = self.n + 1

    def __getitem__(self, i):
        if isinstance(i, slice):
            raise Unsupported("slice of a ghost list")
        t = z3.simplify(z3.Select(self.arr, self._idx(i)))
        if z3.is_bv_value(t):
            return t.as_signed_long()
        ctx().add_fact(z3.And(t >= self.lo, t <= self.hi))
        return SymInt(t, self.lo, self.hi)

    def __setitem__(self, i, v):
        v = SymInt.lift(v)
        prove("%s: stored value lies in %d..%d" % (self.name, self.lo, self.hi), core.And(v >= self.lo, v <= self.hi))
        self.arr = z3.Store(self.arr, self._idx(i), v.t)

    def peek(self, j):
        """element j without a bounds decision (for invariants / postconditions guarded by j < len)"""
        t = z3.Select(self.arr, SymInt.lift(j).t)
        ctx().add_fact(z3.And(t >= self.lo, t <= self.hi))
        return SymInt(t, self.lo, self.hi)

    def havoc(self, tag, keep_len=False):
        """arbitrary contents; arbitrary length too unless the loop only overwrites elements (keep_len)"""
        self.version += 1
        if not keep_len:
            self.n = core.fresh_int("%s.len@%s.%d" % (self.name, tag, self.version), 0, 1 << 32)
        self.arr = z3.Array("%s@%s.%d" % (self.name, tag, self.version), z3.BitVecSort(W), z3.BitVecSort(W))

    def __pyvc_len__(self):
        return self.n

    def __len__(self):
        return self.n if isinstance(self.n, int) else self.n.concretize()

    def __getattr__(self, nm):
        if nm.startswith("__"):
            raise AttributeError(nm)
        raise Unsupported("operation %r on a ghost integer list" % nm)


class GhostChunks:
    """a list of byte chunks that a loop appends to and the caller finally joins: ghost view `the chunks tile
    mem[base, base + tot)`.  append() proves that the new chunk is the next window of the memory."""

    def __init__(self, name, mem, base, tot=0):
        self.name, self.mem, self.base, self.tot = name, mem, base, tot

    def append(self, chunk):
        from .ubuf import SymBuf
        if isinstance(chunk, SymBuf):
            prove("%s: appended chunk is the next window of the data" % self.name,
                  core.And(chunk.mem is self.mem, core.Eq(chunk.base, self.base + self.tot)))
            n = chunk.length
        elif getattr(chunk, "mem", None) is self.mem:
            # provenance known: one address comparison instead of one per byte
            n = len(chunk.items)
            if n:
                prove("%s: appended chunk is the next window of the data" % self.name, core.Eq(chunk.addr, self.base + self.tot))
        else:
            items = list(chunk.items) if hasattr(chunk, "items") else list(chunk)
            n = len(items)
            conj = [SymInt.lift(b).t == self.mem.byte(self.base + self.tot + i).t for i, b in enumerate(items)]
            prove("%s: appended chunk is the next window of the data" % self.name, z3.And(*conj) if conj else True)
        self.tot = self.tot + n

    def __pyvc_join__(self, sep):
        from .ubuf import SymBuf
        if len(sep):
            raise Unsupported("join of ghost chunks with a separator")
        return SymBuf(self.mem, self.base, self.tot)

    def __getattr__(self, nm):
        raise Unsupported("operation %r on ghost chunks" % nm)
