"""Model of the `re` module for proxy strings (SymStr of concrete length).

Patterns are parsed by CPython's own parser (re._parser); matching is a backtracking matcher
written over code points in which every character test is an ordinary branch on a SymBool
and therefore forks the path: under the assumptions of a path the matcher follows Python's
leftmost / greedy-with-backtracking order, so `match`, `search` and `sub` return what
CPython's engine returns for every string satisfying the path condition.  Concrete strings
are handed to the real `re`.  Assumed contract: A-re (this matcher = CPython's semantics for
the supported subset: literals, classes, `.`, greedy/lazy repeats, groups, alternation,
`^ $ \\Z`; no flags, no back-references, no look-around).
"""
from __future__ import annotations

import re as _re
import re._constants as C
import re._parser as P

from . import core
from .core import Unsupported
from .strings import SymStr, mk, _cp


def _cat(av, c):
    if av is C.CATEGORY_DIGIT:
        return core.And(c >= 48, c <= 57)
    if av is C.CATEGORY_NOT_DIGIT:
        return core.Not(core.And(c >= 48, c <= 57))
    if av is C.CATEGORY_WORD:
        return core.Or(core.And(c >= 48, c <= 57), core.And(c >= 65, c <= 90), core.And(c >= 97, c <= 122), c == 95)
    if av is C.CATEGORY_SPACE:
        return core.Or(*[c == w for w in (9, 10, 11, 12, 13, 32)])
    raise Unsupported("regex category %s" % (av,))


def in_class(items, c):
    """membership of code point c in a parsed character class (no fork: a formula)"""
    neg, alts = False, []
    for op, av in items:
        if op is C.NEGATE:
            neg = True
        elif op is C.LITERAL:
            alts.append(c == av)
        elif op is C.RANGE:
            alts.append(core.And(c >= av[0], c <= av[1]))
        elif op is C.CATEGORY:
            alts.append(_cat(av, c))
        else:
            raise Unsupported("regex class item %s" % (op,))
    r = core.Or(*alts)
    return core.Not(r) if neg else r


def _test(node, c):
    op, av = node
    if op is C.LITERAL:
        return c == av
    if op is C.NOT_LITERAL:
        return c != av
    if op is C.ANY:
        return c != 10
    if op is C.IN:
        return in_class(av, c)
    return None


class Match:
    def __init__(self, s, start, end, groups):
        self._s, self._start, self._end, self._groups = s, start, end, groups

    def start(self, g=0):
        return self._start if g == 0 else self._groups[g][0]

    def end(self, g=0):
        return self._end if g == 0 else self._groups[g][1]

    def span(self, g=0):
        return (self.start(g), self.end(g))

    def group(self, g=0):
        a, b = self.span(g)
        return self._s[a:b] if a is not None else None

    def groups(self):
        return tuple(self.group(i) for i in sorted(self._groups))


class _M:
    """backtracking matcher over code points `s`"""

    def __init__(self, s):
        self.s = s
        self.n = len(s)
        self.groups = {}

    def seq(self, nodes, k, pos, cont):
        if k == len(nodes):
            return cont(pos)
        node = nodes[k]
        op, av = node
        t = None
        if op in (C.LITERAL, C.NOT_LITERAL, C.ANY, C.IN):
            if pos >= self.n:
                return None
            if _test(node, self.s[pos]):      # forks on a proxy character
                return self.seq(nodes, k + 1, pos + 1, cont)
            return None
        if op is C.AT:
            if av in (C.AT_BEGINNING, C.AT_BEGINNING_STRING):
                ok = pos == 0
            elif av is C.AT_END_STRING:
                ok = pos == self.n
            elif av is C.AT_END:
                ok = pos == self.n or (pos == self.n - 1 and bool(self.s[pos] == 10))
            else:
                raise Unsupported("regex anchor %s" % (av,))
            return self.seq(nodes, k + 1, pos, cont) if ok else None
        if op is C.SUBPATTERN:
            gid, _, _, sub = av
            old = self.groups.get(gid)

            def after(p):
                if gid is not None:
                    self.groups[gid] = (pos, p)
                r = self.seq(nodes, k + 1, p, cont)
                if r is None and gid is not None:
                    if old is None:
                        self.groups.pop(gid, None)
                    else:
                        self.groups[gid] = old
                return r
            return self.seq(list(sub), 0, pos, after)
        if op is C.BRANCH:
            for alt in av[1]:
                r = self.seq(list(alt), 0, pos, lambda p: self.seq(nodes, k + 1, p, cont))
                if r is not None:
                    return r
            return None
        if op in (C.MAX_REPEAT, C.MIN_REPEAT):
            lo, hi, sub = av
            sub = list(sub)
            hi = self.n + 1 if hi is C.MAXREPEAT else hi
            greedy = op is C.MAX_REPEAT

            def rep(count, p):
                def more():
                    if count >= hi:
                        return None
                    return self.seq(sub, 0, p, lambda q: rep(count + 1, q) if q > p or count < lo else None)

                def stop():
                    return self.seq(nodes, k + 1, p, cont) if count >= lo else None
                first, second = (more, stop) if greedy else (stop, more)
                r = first()
                return r if r is not None else second()
            return rep(0, pos)
        raise Unsupported("regex node %s" % (op,))


class Pattern:
    def __init__(self, pattern, flags=0):
        if flags:
            raise Unsupported("regex flags")
        self.pattern = pattern
        self._real = _re.compile(pattern)
        self._nodes = None

    def _parsed(self):
        if self._nodes is None:
            self._nodes = list(P.parse(self.pattern))
        return self._nodes

    def _at(self, s, start, full=False):
        m = _M(s.items)
        end = m.seq(self._parsed(), 0, start, (lambda p: p if p == m.n else None) if full else (lambda p: p))
        if end is None:
            return None
        return Match(s, start, end, {g: v for g, v in m.groups.items()})

    def match(self, s):
        if isinstance(s, str):
            return self._real.match(s)
        return self._at(s, 0)

    def fullmatch(self, s):
        if isinstance(s, str):
            return self._real.fullmatch(s)
        return self._at(s, 0, full=True)

    def search(self, s, pos=0):
        if isinstance(s, str):
            return self._real.search(s, pos)
        for i in range(pos, len(s.items) + 1):
            m = self._at(s, i)
            if m is not None:
                return m
        return None

    def sub(self, repl, s, count=0):
        if isinstance(s, str) and isinstance(repl, str):
            return self._real.sub(repl, s, count)
        if not isinstance(s, SymStr):
            s = SymStr(_cp(s))
        if callable(repl) or (isinstance(repl, str) and "\\" in repl):
            raise Unsupported("regex sub with function / back-reference")
        nodes = self._parsed()
        rp = _cp(repl)
        if len(nodes) == 1 and nodes[0][0] in (C.LITERAL, C.NOT_LITERAL, C.IN) and len(rp) == 1 and not count:
            # single character class -> single character: element-wise, no fork
            return mk([core.Ite(_test(nodes[0], c), rp[0], c) for c in s.items])
        out, i, done = [], 0, 0
        n = len(s.items)
        while i <= n:
            m = self._at(s, i) if (not count or done < count) else None
            if m is not None:
                out.extend(rp)
                done += 1
                if m.end() == i:          # empty match: copy one character and move on
                    if i < n:
                        out.append(s.items[i])
                    i += 1
                else:
                    i = m.end()
            else:
                if i < n:
                    out.append(s.items[i])
                i += 1
        return mk(out)

    def findall(self, s):
        if isinstance(s, str):
            return self._real.findall(s)
        raise Unsupported("findall on a proxy string")


class ReModel:
    """drop-in for the `re` module inside a compiled repository module"""

    error = _re.error
    Match = Match

    def __init__(self):
        self._cache = {}

    def compile(self, pattern, flags=0):
        if flags:
            return _re.compile(pattern, flags)
        if pattern not in self._cache:
            self._cache[pattern] = Pattern(pattern)
        return self._cache[pattern]

    def match(self, pattern, s, flags=0):
        return self.compile(pattern).match(s) if not flags else _re.match(pattern, s, flags)

    def fullmatch(self, pattern, s, flags=0):
        return self.compile(pattern).fullmatch(s)

    def search(self, pattern, s, flags=0):
        return self.compile(pattern).search(s) if not flags else _re.search(pattern, s, flags)

    def sub(self, pattern, repl, s, count=0, flags=0):
        return self.compile(pattern).sub(repl, s, count)

    def __getattr__(self, n):
        return getattr(_re, n)
