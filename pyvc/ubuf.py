"""Byte buffers and streams of SYMBOLIC length (for loop contracts, loops.py).

`SymMem` is an uninterpreted memory (z3 array index -> byte); `SymBuf` is the bytes-like window
[base, base + length) of a memory with symbolic base and length; `SymStreamU` is a binary stream over a
SymBuf with a symbolic position.  Reads of a concrete number of bytes yield ordinary `SymBytes`
(so `struct` and the code under contract work unchanged); every comparison of a position with the
length is a path decision.  Assumed contract (A-io): CPython's BytesIO/BufferedReader semantics --
short reads at the end of the data, `seek` beyond the end allowed, negative seek raises ValueError.
"""
from __future__ import annotations

import z3

from . import core
from .core import SymBytes, SymInt, Unsupported, W, ctx

MAXLEN = 1 << 40


class SymMem:
    def __init__(self, name):
        self.name = name
        self.arr = z3.Array(name, z3.BitVecSort(W), z3.BitVecSort(8))

    def byte(self, idx):
        t = z3.Select(self.arr, SymInt.lift(idx).t)
        return SymInt(z3.ZeroExt(W - 8, t), 0, 255)


class MemBytes(SymBytes):
    """SymBytes that remember where in a SymMem they were read from (ghost provenance: items[i] == mem[addr + i])"""

    def __init__(self, items, mem, addr):
        SymBytes.__init__(self, items)
        self.mem, self.addr = mem, addr

    def __getitem__(self, k):
        r = SymBytes.__getitem__(self, k)
        if isinstance(k, slice) and isinstance(r, SymBytes) and (k.step in (None, 1)):
            start = k.indices(len(self.items))[0] if not isinstance(k.start, SymInt) else None
            if start is not None:
                return MemBytes(r.items, self.mem, self.addr + start)
        return r

    def split(self, sep=None, maxsplit=-1):
        if maxsplit == 1 and isinstance(sep, (bytes, bytearray)) and len(sep) == 1:
            return SymBuf(self.mem, self.addr, len(self.items)).split(sep, 1)
        parts = SymBytes.split(self, sep, maxsplit)
        out, off = [], 0
        for p_ in parts:
            out.append(MemBytes(p_.items, self.mem, self.addr + off))
            off += len(p_.items) + 1
        return out


def window(mem, addr, n):
    return MemBytes([mem.byte(addr + i) for i in range(n)], mem, addr)


def _dec(cond):
    """decide a dual boolean"""
    return bool(cond)


class SymBuf:
    """bytes / bytearray of symbolic length: window [base, base+length) of `mem`"""

    def __init__(self, mem, base, length):
        self.mem, self.base, self.length = mem, base, length

    # -- length
    def __pyvc_len__(self):
        return self.length

    def __len__(self):
        n = self.length
        return n if isinstance(n, int) else n.concretize()

    @property
    def nbytes(self):
        return self.length

    def __bool__(self):
        return _dec(self.length > 0)

    # -- element / slice access
    def _norm(self, i, default):
        if i is None:
            return default
        if isinstance(i, int) and i >= 0:
            return i
        if isinstance(i, int):
            raise Unsupported("negative index into a buffer of symbolic length")
        if i.lo < 0 and _dec(i < 0):
            raise Unsupported("negative index into a buffer of symbolic length")
        return i

    def __getitem__(self, k):
        if isinstance(k, slice):
            if k.step not in (None, 1):
                raise Unsupported("slice step on a symbolic buffer")
            s = self._norm(k.start, 0)
            e = self._norm(k.stop, None)
            # clamp to the length (Python slicing never raises)
            if not (isinstance(s, int) and s == 0):
                if _dec(s > self.length):
                    s = self.length
            if e is None:
                return SymBuf(self.mem, self.base + s, self.length - s)
            if _dec(e > self.length):
                e = self.length
            if _dec(e < s):
                return SymBytes([])
            w = e - s
            if isinstance(w, SymInt):
                t = z3.simplify(w.t)
                if z3.is_bv_value(t):
                    w = t.as_signed_long()
                elif w.hi - w.lo <= 64:
                    w = w.concretize(limit=80)
                else:
                    w.tighten()
                    if w.hi - w.lo <= 64:
                        w = w.concretize(limit=80)
                    else:
                        return SymBuf(self.mem, self.base + s, w)
            return window(self.mem, self.base + s, w)
        i = self._norm(k, None)
        if _dec(i >= self.length):
            raise IndexError("index out of range")
        return self.mem.byte(self.base + i)

    def _bound(self):
        n = self.length
        hi = n if isinstance(n, int) else n.hi
        if hi > 4096:
            raise Unsupported("search in a symbolic buffer without a small length bound")
        return hi

    def first_index(self, value):
        """index of the first byte equal to `value`, or the length if there is none.  No fork: a fresh index i with its
        definition  0 <= i <= len,  i < len => mem[base+i] == value,  forall a in [base, base+i): mem[a] != value
        (a conservative definitional extension: such an index always exists and is unique)."""
        c = ctx()
        n = SymInt.lift(self.length)
        base = SymInt.lift(self.base)
        k = next(c.fresh)
        i = z3.BitVec("first%d!%d" % (value, k), W)
        a = z3.BitVec("a!%d" % k, W)
        v = z3.BitVecVal(value, 8)
        c.add_fact(z3.And(i >= 0, i <= n.t))
        c.add_fact(z3.Implies(i < n.t, z3.Select(self.mem.arr, base.t + i) == v))
        sel = z3.Select(self.mem.arr, a)
        c.add_fact(z3.ForAll([a], z3.Implies(z3.And(base.t <= a, a < base.t + i), sel != v), patterns=[sel]))
        return SymInt(i, 0, n.hi)

    def __contains__(self, x):
        if not isinstance(x, int):
            raise Unsupported("subsequence test on a symbolic buffer")
        return _dec(self.first_index(x) < self.length)

    def split(self, sep=None, maxsplit=-1):
        if maxsplit != 1 or not isinstance(sep, (bytes, bytearray)) or len(sep) != 1:
            raise Unsupported("split of a symbolic buffer other than split(<one byte>, 1)")
        i = self.first_index(sep[0])
        if not _dec(i < self.length):
            return [self]
        return [SymBuf(self.mem, self.base, i), SymBuf(self.mem, self.base + i + 1, self.length - i - 1)]

    def as_symbytes(self):
        n = self.length
        if isinstance(n, SymInt):
            n = n.concretize(limit=4096)
        return SymBytes([self.mem.byte(self.base + i) for i in range(n)])

    def __iter__(self):
        return iter(self.as_symbytes())

    def __eq__(self, o):
        return self.as_symbytes() == o

    def __hash__(self):
        raise Unsupported("hash of a symbolic buffer")

    def __repr__(self):
        return "SymBuf(%s)" % self.mem.name

    def __getattr__(self, name):
        if name.startswith("__"):
            raise AttributeError(name)
        raise Unsupported("bytes.%s on a symbolic buffer" % name)


class _Raw:
    def __init__(self, s):
        self._s = s

    def getbuffer(self):
        return self._s.buf


class SymStreamU:
    """io.BytesIO / BufferedReader over a SymBuf, symbolic position"""

    def __init__(self, buf, pos=0, name="stream"):
        self.buf, self.pos, self.name = buf, pos, name
        self.version = 0

    def havoc(self, tag):
        self.version += 1
        self.pos = core.fresh_int("%s.pos@%s.%d" % (self.name, tag, self.version), 0, MAXLEN)

    def tell(self):
        return self.pos

    def seek(self, off, whence=0):
        if whence == 1:
            off = self.pos + off
        elif whence == 2:
            off = self.buf.length + off
        elif whence != 0:
            raise ValueError("invalid whence")
        if isinstance(off, SymInt):
            if off.lo < 0 and _dec(off < 0):
                if whence == 0:
                    raise ValueError("negative seek value")
                off = 0
        elif off < 0:
            if whence == 0:
                raise ValueError("negative seek value %d" % off)
            off = 0
        self.pos = off
        return self.pos

    def read(self, n=-1):
        if n is None or (isinstance(n, int) and n < 0):
            r = self.buf[self.pos:]
            self.pos = self.pos + r.length if not _dec(self.pos > self.buf.length) else self.pos
            return r
        if isinstance(n, SymInt):
            if n.lo < 0 and _dec(n < 0):
                return self.read(-1)
        avail_all = _dec(self.pos + n <= self.buf.length)
        if avail_all:
            out = self.buf[self.pos:self.pos + n]
            self.pos = self.pos + n
            return out
        # short read at the end of the data
        if _dec(self.pos >= self.buf.length):
            return SymBytes([])
        k = self.buf.length - self.pos          # by the decisions taken: 1 <= k <= n - 1
        if isinstance(k, SymInt) and isinstance(n, int):
            k = SymInt(k.t, max(k.lo, 1), min(k.hi, n - 1))
        out = window(self.buf.mem, self.buf.base + self.pos, k) if isinstance(k, int) else SymBuf(self.buf.mem, self.buf.base + self.pos, k)
        self.pos = self.pos + k
        return out

    @property
    def raw(self):
        return _Raw(self)

    def getbuffer(self):
        return self.buf

    def getvalue(self):
        return self.buf

    def readable(self):
        return True

    def close(self):
        pass

    def __getattr__(self, name):
        if name.startswith("__"):
            raise AttributeError(name)
        raise Unsupported("stream.%s on the symbolic stream model" % name)


def fresh_buf(name, max_len=MAXLEN):
    """a buffer of arbitrary content and arbitrary length 0..max_len"""
    n = core.fresh_int(name + ".len", 0, max_len)
    return SymBuf(SymMem(name + ".mem"), 0, n)
