"""Second-opinion solvers for queries z3's API leaves `unknown`: cvc5 and z3-new CLIs."""
import os
import subprocess
import tempfile
import time

import z3


def second_opinion(solver, extra, timeout_ms):
    """returns (status in {'unsat','sat','unknown'}, solver name, seconds, reason)"""
    s2 = z3.Solver()
    for a in solver.assertions():
        s2.add(a)
    s2.add(extra)
    smt = "(set-logic ALL)\n" + s2.to_smt2()
    t0 = time.time()
    tsec = max(1, timeout_ms // 1000)
    fd, path = tempfile.mkstemp(suffix=".smt2", dir=os.environ.get("VERIF_SCRATCH") or None)
    try:
        with os.fdopen(fd, "w") as f:
            f.write(smt)
        for name, cmd in (
            ("cvc5", ["/usr/bin/cvc5", "--strings-exp", "--tlimit=%d" % (tsec * 1000), path]),
            ("z3-cli", ["z3-new", "-T:%d" % tsec, "smt.random_seed=7", path]),
        ):
            try:
                out = subprocess.run(cmd, capture_output=True, text=True, timeout=tsec + 5).stdout.strip()
            except (subprocess.TimeoutExpired, FileNotFoundError):
                continue
            first = out.splitlines()[0] if out else ""
            if first == "unsat":
                return "unsat", name, time.time() - t0, ""
            if first == "sat":
                return "sat", name, time.time() - t0, "sat without usable model"
        return "unknown", "z3+cvc5", time.time() - t0, "all back ends unknown/timeout"
    finally:
        try:
            os.unlink(path)
        except OSError:
            pass
