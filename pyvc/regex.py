"""Python `re` pattern  ->  z3 regular expression (for language-level obligations).

The pattern is parsed by CPython's own parser (re._parser) and translated node by node.
Supported: literals, `.`, classes (ranges, \\d \\w \\s, negation), `* + ? {m,n}` (greedy or
not: same language), groups, alternation, anchors `^` (only leading), `$` / `\\Z` (only
trailing).  `$` keeps Python's meaning: end of string *or* just before a trailing newline.
`match` anchors at the start only, `search` nowhere, `fullmatch` at both ends.
"""
from __future__ import annotations

import re
import re._constants as C
import re._parser as P

import z3


class UnsupportedPattern(Exception):
    pass


def _any_char(dotall=False):
    allc = z3.AllChar(z3.ReSort(z3.StringSort()))
    if dotall:
        return allc
    return z3.Diff(allc, z3.Re("\n"))


def _cls(items):
    neg = False
    parts = []
    for op, av in items:
        if op is C.NEGATE:
            neg = True
        elif op is C.LITERAL:
            parts.append(z3.Re(chr(av)))
        elif op is C.RANGE:
            parts.append(z3.Range(chr(av[0]), chr(av[1])))
        elif op is C.CATEGORY:
            parts.append(_category(av))
        else:
            raise UnsupportedPattern("class item %s" % (op,))
    r = parts[0] if len(parts) == 1 else z3.Union(*parts)
    if neg:
        r = z3.Diff(z3.AllChar(z3.ReSort(z3.StringSort())), r)
    return r


def _category(av):
    # ASCII-only categories: stated assumption (Python's str patterns also match other Unicode digits etc.)
    if av is C.CATEGORY_DIGIT:
        return z3.Range("0", "9")
    if av is C.CATEGORY_WORD:
        return z3.Union(z3.Range("a", "z"), z3.Range("A", "Z"), z3.Range("0", "9"), z3.Re("_"))
    if av is C.CATEGORY_SPACE:
        return z3.Union(*[z3.Re(c) for c in " \t\n\r\f\v"])
    raise UnsupportedPattern("category %s" % (av,))


def _seq(nodes, last_is_end):
    """nodes -> z3 regex; returns (regex, ends_with_dollar, ends_with_Z)"""
    out = []
    dollar = zed = False
    n = len(nodes)
    for k, (op, av) in enumerate(nodes):
        if op is C.LITERAL:
            out.append(z3.Re(chr(av)))
        elif op is C.NOT_LITERAL:
            out.append(z3.Diff(z3.AllChar(z3.ReSort(z3.StringSort())), z3.Re(chr(av))))
        elif op is C.ANY:
            out.append(_any_char())
        elif op is C.IN:
            out.append(_cls(av))
        elif op in (C.MAX_REPEAT, C.MIN_REPEAT):
            lo, hi, sub = av
            r, d, z = _seq(list(sub), False)
            if hi is C.MAXREPEAT:
                rep = z3.Star(r) if lo == 0 else (z3.Plus(r) if lo == 1 else z3.Concat(z3.Loop(r, lo, lo), z3.Star(r)))
            elif lo == 0 and hi == 1:
                rep = z3.Option(r)
            else:
                rep = z3.Loop(r, lo, hi)
            out.append(rep)
        elif op is C.SUBPATTERN:
            r, d, z = _seq(list(av[3]), False)
            out.append(r)
        elif op is C.BRANCH:
            alts = [_seq(list(a), False)[0] for a in av[1]]
            out.append(z3.Union(*alts))
        elif op is C.AT:
            if av is C.AT_BEGINNING or av is C.AT_BEGINNING_STRING:
                if k != 0 or not last_is_end:
                    raise UnsupportedPattern("^ not at the start")
                continue
            if av is C.AT_END:
                if k != n - 1 or not last_is_end:
                    raise UnsupportedPattern("$ not at the end")
                dollar = True
                continue
            if av is C.AT_END_STRING:
                if k != n - 1 or not last_is_end:
                    raise UnsupportedPattern("\\Z not at the end")
                zed = True
                continue
            raise UnsupportedPattern("anchor %s" % (av,))
        else:
            raise UnsupportedPattern("node %s" % (op,))
    if not out:
        r = z3.Re("")
    elif len(out) == 1:
        r = out[0]
    else:
        r = z3.Concat(*out)
    return r, dollar, zed


def language(pattern, how):
    """z3 regex of the strings s for which re.<how>(pattern, s) succeeds; how in match/search/fullmatch"""
    tree = P.parse(pattern)
    nodes = list(tree)
    starts_anchor = bool(nodes) and nodes[0][0] is C.AT and nodes[0][1] in (C.AT_BEGINNING, C.AT_BEGINNING_STRING)
    body, dollar, zed = _seq(nodes, True)
    allstar = z3.Star(z3.AllChar(z3.ReSort(z3.StringSort())))
    if dollar:
        tail = z3.Option(z3.Re("\n"))
    elif zed or how == "fullmatch":
        tail = z3.Re("")
    else:
        tail = allstar
    if how == "fullmatch" and dollar:
        tail = z3.Re("")  # fullmatch: `$` before a final newline cannot consume it
    r = z3.Concat(body, tail)
    if how == "search" and not starts_anchor:
        r = z3.Concat(allstar, r)
    return r
