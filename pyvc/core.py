"""PyVC core: path-wise symbolic execution of the *real* Python code on proxy values.

The repository functions (re-read from /repo and compiled on every run, see loader.py)
are executed natively by CPython on the proxy values defined here.  Every operation on a
proxy builds a z3 term; every conversion of a proxy to a Python truth value is a branch
decision that forks the path (paths are enumerated by re-execution with a recorded
decision prefix).  Obligations (`Ctx.prove`) are discharged under the path condition.

Integers are signed bit-vectors of a fixed width W together with a sound interval
[lo, hi] maintained by interval arithmetic; an operation whose mathematical result might
not fit W bits raises `Unsupported` (-> undecided), so a W-bit term always denotes the
unbounded Python integer.
"""
from __future__ import annotations

import itertools
import time

import z3

W = 80  # width of every integer term


class Unsupported(BaseException):
    """Construct outside the engine's subset: the unit becomes *undecided*."""


class PathEnd(BaseException):
    """Current path is finished (infeasible assumption, loop back edge)."""


def _fits(lo, hi):
    return -(1 << (W - 1)) <= lo and hi < (1 << (W - 1))


def _bitsbound(lo, hi):
    """smallest k with -2^k <= lo and hi < 2^k"""
    k = 0
    while not (-(1 << k) <= lo and hi < (1 << k)):
        k += 1
    return k


# --------------------------------------------------------------------------------------
# context


class Obligation:
    __slots__ = ("label", "status", "model", "path", "solver", "time", "info", "reason")

    def __init__(self, label, status, path, solver="z3", t=0.0, model=None, info=None, reason=""):
        self.label, self.status, self.path = label, status, path
        self.solver, self.time, self.model, self.info, self.reason = solver, t, model, info, reason


class Ctx:
    """State of one symbolic run of one unit (all its paths)."""

    def __init__(self, timeout_ms=20000, seed=0, max_paths=4000):
        self.timeout_ms = timeout_ms
        self.max_paths = max_paths
        self.solver = z3.Solver()
        self.solver.set("timeout", timeout_ms)
        self.solver.set("random_seed", seed & 0x7FFFFFFF)
        self.obligations = []
        self.paths = 0
        self.pending = [[]]
        self.solver_time = 0.0
        self.solver_calls = 0
        self.inputs = {}  # name -> declared symbolic input (for model extraction)
        self.notes = []
        self.deferred = []  # definitional facts used only when proving (not for path feasibility)
        self.memo = {}
        self.evt = 0
        # per path
        self.prefix = []
        self.pos = 0
        self.fresh = itertools.count()
        self.ended_by_assume = 0
        self.completed = 0

    # ---- path enumeration
    def start_path(self, prefix):
        self.prefix = list(prefix)
        self.pos = 0
        self.fresh = itertools.count()
        self.inputs = {}
        self.deferred = []
        self.solver.reset()
        self.solver.set("timeout", self.timeout_ms)
        self.paths += 1
        self.evt = 0

    def _memo_key(self, kind):
        """paths are deterministic re-executions: the n-th solver event after the same consumed decision prefix is the same
        query, so a result established on an earlier path (obligation discharged, assumption feasible) is reused"""
        self.evt += 1
        return (kind, self.evt, repr(self.prefix[: self.pos]))

    def _check(self, *extra):
        t0 = time.time()
        r = self.solver.check(*extra)
        self.solver_time += time.time() - t0
        self.solver_calls += 1
        return r

    def decide(self, cond):
        """Branch on z3 Bool `cond`; returns the Python bool taken on this path."""
        cond = z3.simplify(cond)
        if z3.is_true(cond):
            return True
        if z3.is_false(cond):
            return False
        if self.pos < len(self.prefix):
            v = self.prefix[self.pos]
            self.pos += 1
            self.solver.add(cond if v else z3.Not(cond))
            return v
        rt = self._check(cond)
        rf = self._check(z3.Not(cond))
        can_t = rt != z3.unsat
        can_f = rf != z3.unsat
        if can_t and can_f:
            self.pending.append(self.prefix + [False])
            v = True
        elif can_t:
            v = True
        elif can_f:
            v = False
        else:
            raise PathEnd("infeasible")
        self.prefix.append(v)
        self.pos += 1
        self.solver.add(cond if v else z3.Not(cond))
        return v

    def choose(self, t):
        """n-ary decision: pick a concrete value for bit-vector term `t`; one path per feasible value.
        Prefix entries ('v', value, excluded) replay the same value; ('more', None, excluded) asks for
        a value different from the ones already handed to sibling paths."""
        if self.pos < len(self.prefix):
            kind, val, excl = self.prefix[self.pos]
            for e in excl:
                self.solver.add(t != e)
            if kind == "v":
                self.pos += 1
                self.solver.add(t == val)
                return val
            self.prefix.pop()           # 'more': becomes a fresh choice below
        else:
            excl = []
        if self._check() != z3.sat:
            raise PathEnd("no further value")
        val = self.solver.model().eval(t, model_completion=True).as_signed_long()
        self.pending.append(self.prefix + [("more", None, excl + [val])])
        self.prefix.append(("v", val, excl))
        self.pos += 1
        self.solver.add(t == val)
        return val

    def assume(self, cond):
        if isinstance(cond, bool):
            if not cond:
                self.ended_by_assume += 1
                raise PathEnd("assume false")
            return
        cond = z3.simplify(cond)
        if z3.is_true(cond):
            return
        self.solver.add(cond)
        key = self._memo_key("assume")
        if self.memo.get(key) == "feasible":
            return
        if z3.is_false(cond) or self._check() == z3.unsat:
            self.ended_by_assume += 1
            raise PathEnd("assume infeasible")
        self.memo[key] = "feasible"

    def defer_fact(self, cond):
        """definition of an opaque value: over-approximates feasibility (sound for proofs),
        taken into account in every obligation and therefore in every counter-model"""
        self.deferred.append(cond)

    def add_fact(self, cond):
        """add a definitional fact (no feasibility check)"""
        if getattr(self, "defer_mode", False):
            self.deferred.append(cond)
        else:
            self.solver.add(cond)

    def prove(self, label, cond, info=None):
        """Obligation `cond` under the current path condition. Returns status."""
        path = "".join(("T" if d else "F") if isinstance(d, bool) else "<%s>" % d[1] for d in self.prefix[: self.pos])
        if isinstance(cond, bool) and not cond and self.deferred:
            cond = z3.BoolVal(False)  # the path may be infeasible once the opaque definitions are used
        if isinstance(cond, bool):
            st = "discharged" if cond else "refuted"
            ob = Obligation(label, st, path, "closed-evaluation", 0.0,
                            self._model_inputs(None) if not cond else None, None)
            if not cond:
                # need a model of the path condition for the replay -- and the path must be feasible at all: a branch is entered
                # when its feasibility check ran out of time, so a closed `False` on such a path is a refutation only if the
                # solver can produce an input that reaches it
                r = self._check()
                if r == z3.unknown:
                    s3 = z3.Solver()
                    s3.set("timeout", self.timeout_ms * 6)
                    s3.add(self.solver.assertions())
                    s3.add(self.deferred)
                    r = s3.check()
                    self.solver_calls += 1
                    if r == z3.sat:
                        ob.model = self._model_inputs(s3.model())
                elif r == z3.sat:
                    ob.model = self._model_inputs(self.solver.model())
                if r == z3.unsat:
                    raise PathEnd("infeasible path (entered because its feasibility check timed out)")
                if r != z3.sat:
                    ob.status, ob.model = "unknown", None
                    ob.reason = "a clause evaluated to False on a path whose feasibility no back end decided"
                    self.obligations.append(ob)
                    return "unknown"
            self.obligations.append(ob)
            return st
        cond = z3.simplify(cond)
        t0 = time.time()
        key = self._memo_key("prove:" + label)
        if self.memo.get(key) == "discharged":
            self.solver.add(cond)        # same obligation as on an earlier path with this decision prefix: already recorded
            return "discharged"
        if z3.is_true(cond):
            self.memo[key] = "discharged"
            self.obligations.append(Obligation(label, "discharged", path, "simplifier", 0.0, None, None))
            return "discharged"
        m_def = None
        r = self._check(z3.Not(cond)) if self.deferred else None
        if r == z3.unsat:
            pass  # already valid without unfolding the opaque definitions
        elif self.deferred:
            # one-shot solver: the non-incremental pipeline eliminates the opaque definitions
            s2 = z3.Solver()
            s2.set("timeout", self.timeout_ms)
            s2.add(self.solver.assertions())
            s2.add(self.deferred)
            s2.add(z3.Not(cond))
            r = s2.check()
            self.solver_calls += 1
            self.solver_time += time.time() - t0
            m_def = s2.model() if r == z3.sat else None
        else:
            r = self._check(z3.Not(cond))
            m_def = None
        dt = time.time() - t0
        if r == z3.unsat:
            self.memo[key] = "discharged"
            self.obligations.append(Obligation(label, "discharged", path, "z3", dt, None, None))
            self.solver.add(cond)
            return "discharged"
        if r == z3.sat:
            m = m_def if m_def is not None else self.solver.model()
            ob = Obligation(label, "refuted", path, "z3", dt, self._model_inputs(m), None)
            if info:
                try:
                    ob.info = {k: _show(m, v) for k, v in info.items()}
                except Exception:
                    ob.info = None
            self.obligations.append(ob)
            self.solver.add(cond)
            if self._check() == z3.unsat:
                raise PathEnd("obligation false on whole path")
            return "refuted"
        # unknown: second solver (cvc5) on the dumped query
        from . import solve
        st, which, dt2, reason = solve.second_opinion(self.solver, z3.Not(cond), self.timeout_ms)
        if st == "unsat":
            self.obligations.append(Obligation(label, "discharged", path, which, dt + dt2, None, None))
            self.solver.add(cond)
            return "discharged"
        if (self.solver.reason_unknown() or "").find("timeout") >= 0 or "timeout" in (reason or ""):
            # every back end ran out of its (wall-clock) budget: on a loaded machine a query that takes a second can. One last
            # attempt with six times the budget on a fresh solver, so that the verdict does not depend on what else is running.
            s3 = z3.Solver()
            s3.set("timeout", self.timeout_ms * 6)
            s3.add(self.solver.assertions())
            s3.add(self.deferred)
            s3.add(z3.Not(cond))
            t3 = time.time()
            r3 = s3.check()
            dt3 = time.time() - t3
            self.solver_calls += 1
            self.solver_time += dt3
            if r3 == z3.unsat:
                self.memo[key] = "discharged"
                self.obligations.append(Obligation(label, "discharged", path, "z3-retry", dt + dt2 + dt3, None, None))
                self.solver.add(cond)
                return "discharged"
            if r3 == z3.sat:
                ob = Obligation(label, "refuted", path, "z3-retry", dt + dt2 + dt3, self._model_inputs(s3.model()), None)
                self.obligations.append(ob)
                self.solver.add(cond)
                if self._check() == z3.unsat:
                    raise PathEnd("obligation false on whole path")
                return "refuted"
        self.obligations.append(Obligation(label, "unknown", path, which, dt + dt2, None, None,
                                           reason=reason or self.solver.reason_unknown()))
        self.solver.add(cond)
        return "unknown"

    def _model_inputs(self, m):
        out = {}
        for name, decl in self.inputs.items():
            out[name] = decl.from_model(m)
        return out


def _show(m, v):
    if isinstance(v, SymInt):
        return m.eval(v.t, model_completion=True).as_signed_long()
    if isinstance(v, SymBool):
        return z3.is_true(m.eval(v.t, model_completion=True))
    if isinstance(v, SymBytes):
        return bytes(_show(m, b) if isinstance(b, SymInt) else b for b in v.items).hex()
    if isinstance(v, (list, tuple)):
        return [_show(m, x) for x in v]
    return repr(v)


_ctx = None


def ctx() -> Ctx:
    if _ctx is None:
        raise RuntimeError("no symbolic context active")
    return _ctx


def set_ctx(c):
    global _ctx
    _ctx = c


def symbolic_active():
    return _ctx is not None


# --------------------------------------------------------------------------------------
# booleans


class SymBool:
    __slots__ = ("t",)

    def __init__(self, t):
        self.t = t

    def __bool__(self):
        return ctx().decide(self.t)

    def __and__(self, o):
        return SymBool(z3.And(self.t, _b(o)))

    __rand__ = __and__

    def __or__(self, o):
        return SymBool(z3.Or(self.t, _b(o)))

    __ror__ = __or__

    def __invert__(self):
        return SymBool(z3.Not(self.t))

    def __eq__(self, o):
        return SymBool(self.t == _b(o))

    def __ne__(self, o):
        return SymBool(self.t != _b(o))

    def __hash__(self):
        return hash(bool(self))

    def __repr__(self):
        return "SymBool(%s)" % self.t


def _b(x):
    if isinstance(x, SymBool):
        return x.t
    if isinstance(x, bool):
        return z3.BoolVal(x)
    if isinstance(x, SymInt):
        return x.t != 0
    if isinstance(x, int):
        return z3.BoolVal(bool(x))
    if z3.is_bool(x):
        return x
    raise Unsupported("cannot use %r as a boolean term" % (x,))


# --------------------------------------------------------------------------------------
# integers


def _bv(v):
    return z3.BitVecVal(v, W)


class SymInt:
    __slots__ = ("t", "lo", "hi")

    def __init__(self, t, lo, hi):
        if not _fits(lo, hi):
            raise Unsupported("integer may exceed the %d-bit model (%d..%d)" % (W, lo, hi))
        self.t, self.lo, self.hi = t, lo, hi

    # -- helpers
    @staticmethod
    def lift(x):
        if isinstance(x, SymInt):
            return x
        if isinstance(x, SymBool):
            return SymInt(z3.If(x.t, _bv(1), _bv(0)), 0, 1)
        if isinstance(x, bool):
            x = int(x)
        if isinstance(x, int):
            if not _fits(x, x):
                raise Unsupported("constant exceeds model width")
            return SymInt(_bv(x), x, x)
        return None

    def _bin(self, o, f, itv):
        o = SymInt.lift(o)
        if o is None:
            return NotImplemented
        lo, hi = itv(self.lo, self.hi, o.lo, o.hi)
        return _mk(f(self.t, o.t), lo, hi)

    def _rbin(self, o, f, itv):
        o = SymInt.lift(o)
        if o is None:
            return NotImplemented
        lo, hi = itv(o.lo, o.hi, self.lo, self.hi)
        return _mk(f(o.t, self.t), lo, hi)

    # -- arithmetic
    def __add__(self, o):
        return self._bin(o, lambda a, b: a + b, lambda a, b, c, d: (a + c, b + d))

    def __radd__(self, o):
        return self._rbin(o, lambda a, b: a + b, lambda a, b, c, d: (a + c, b + d))

    def __sub__(self, o):
        return self._bin(o, lambda a, b: a - b, lambda a, b, c, d: (a - d, b - c))

    def __rsub__(self, o):
        return self._rbin(o, lambda a, b: a - b, lambda a, b, c, d: (a - d, b - c))

    @staticmethod
    def _mul_itv(a, b, c, d):
        p = (a * c, a * d, b * c, b * d)
        return min(p), max(p)

    def __mul__(self, o):
        if isinstance(o, float) or isinstance(o, SymFloat):
            return SymFloat.from_int(self) * o
        return self._bin(o, lambda a, b: a * b, SymInt._mul_itv)

    def __rmul__(self, o):
        if isinstance(o, float) or isinstance(o, SymFloat):
            return o * SymFloat.from_int(self)
        return self._rbin(o, lambda a, b: a * b, SymInt._mul_itv)

    def __neg__(self):
        return _mk(-self.t, -self.hi, -self.lo)

    def __pos__(self):
        return self

    def __abs__(self):
        return _mk(z3.If(self.t < 0, -self.t, self.t), 0 if self.lo <= 0 <= self.hi else min(abs(self.lo), abs(self.hi)),
                   max(abs(self.lo), abs(self.hi)))

    def __invert__(self):
        return _mk(~self.t, -self.hi - 1, -self.lo - 1)

    # -- bit operations (two's complement, exact while values fit W)
    @staticmethod
    def _and_itv(a, b, c, d):
        if a >= 0 and c >= 0:
            return 0, min(b, d)
        if a >= 0:
            return 0, b
        if c >= 0:
            return 0, d
        k = max(_bitsbound(a, b), _bitsbound(c, d))
        return -(1 << k), (1 << k) - 1

    @staticmethod
    def _or_itv(a, b, c, d):
        k = max(_bitsbound(a, b), _bitsbound(c, d))
        if a >= 0 and c >= 0:
            return max(a, c), (1 << k) - 1
        if b < 0 or d < 0:
            return -(1 << k), -1
        return -(1 << k), (1 << k) - 1

    @staticmethod
    def _xor_itv(a, b, c, d):
        k = max(_bitsbound(a, b), _bitsbound(c, d))
        if a >= 0 and c >= 0:
            return 0, (1 << k) - 1
        return -(1 << k), (1 << k) - 1

    def __and__(self, o):
        return self._bin(o, lambda a, b: a & b, SymInt._and_itv)

    __rand__ = __and__

    def __or__(self, o):
        return self._bin(o, lambda a, b: a | b, SymInt._or_itv)

    __ror__ = __or__

    def __xor__(self, o):
        return self._bin(o, lambda a, b: a ^ b, SymInt._xor_itv)

    __rxor__ = __xor__

    @staticmethod
    def _shift_amount(o):
        o = SymInt.lift(o)
        if o is None:
            return None
        if o.lo < 0:
            # Python raises ValueError for negative shift counts
            if ctx().decide(o.t < 0):
                raise ValueError("negative shift count")
            o = SymInt(o.t, 0, o.hi)
        if o.hi > 4 * W:
            raise Unsupported("shift amount not bounded")
        return o

    def __lshift__(self, o):
        s = SymInt._shift_amount(o)
        if s is None:
            return NotImplemented
        cands = (self.lo << s.lo, self.lo << s.hi, self.hi << s.lo, self.hi << s.hi)
        return _mk(self.t << s.t, min(cands), max(cands))

    def __rlshift__(self, o):
        return SymInt.lift(o).__lshift__(self)

    def __rshift__(self, o):
        s = SymInt._shift_amount(o)
        if s is None:
            return NotImplemented
        cands = (self.lo >> s.lo, self.lo >> s.hi, self.hi >> s.lo, self.hi >> s.hi)
        # arithmetic shift by >= W must saturate like Python's: clamp the amount
        amt = z3.If(z3.UGE(s.t, _bv(W - 1)), _bv(W - 1), s.t) if s.hi >= W else s.t
        return _mk(self.t >> amt, min(cands), max(cands))

    def __rrshift__(self, o):
        return SymInt.lift(o).__rshift__(self)

    # -- division (Python floor semantics)
    def _divmod(self, o):
        if isinstance(o, int) and not isinstance(o, bool) and o > 0:
            # division by a positive constant: no division circuit
            if o & (o - 1) == 0:
                k = o.bit_length() - 1
                return self >> k, self & (o - 1)
            qlo, qhi = self.lo // o, self.hi // o
            if qlo == qhi:
                return qlo, self - o * qlo
            c = ctx()
            qv = z3.BitVec("divq!%d" % next(c.fresh), W)
            q = SymInt(qv, qlo, qhi)
            r = self - q * o
            # q, r are uniquely determined by these definitional facts
            c.add_fact(z3.And(qv >= qlo, qv <= qhi, r.t >= 0, r.t < o))
            return q, SymInt(r.t, 0, o - 1)
        o = SymInt.lift(o)
        if o is None:
            return None
        if o.lo <= 0 <= o.hi:
            if ctx().decide(o.t == 0):
                raise ZeroDivisionError("integer division or modulo by zero")
        a, b = self.t, o.t
        q = a / b  # signed division truncating toward zero
        r = z3.SRem(a, b)
        adj = z3.And(r != 0, (r < 0) != (b < 0))
        fq = z3.If(adj, q - 1, q)
        fr = z3.If(adj, r + b, r)
        m = max(abs(self.lo), abs(self.hi))
        bm = max(abs(o.lo), abs(o.hi))
        if o.lo > 0:
            qlo, qhi = min(self.lo // o.lo, self.lo // o.hi), max(self.hi // o.lo, self.hi // o.hi)
            rlo, rhi = 0, o.hi - 1
        else:
            qlo, qhi = -m - 1, m + 1
            rlo, rhi = -bm, bm
        return _mk(fq, qlo, qhi), _mk(fr, rlo, rhi)

    def __floordiv__(self, o):
        r = self._divmod(o)
        return NotImplemented if r is None else r[0]

    def __rfloordiv__(self, o):
        return SymInt.lift(o).__floordiv__(self)

    def __mod__(self, o):
        r = self._divmod(o)
        return NotImplemented if r is None else r[1]

    def __rmod__(self, o):
        l = SymInt.lift(o)
        if l is None:
            return NotImplemented
        return l.__mod__(self)

    def __divmod__(self, o):
        return self._divmod(o)

    def __truediv__(self, o):
        return SymFloat.from_int(self) / o

    def __rtruediv__(self, o):
        return SymFloat.lift(o) / SymFloat.from_int(self)

    # -- comparisons
    def _cmp(self, o, f, concrete):
        o2 = SymInt.lift(o)
        if o2 is None:
            if isinstance(o, (float, SymFloat)):
                return getattr(SymFloat.from_int(self), concrete)(o)
            return NotImplemented
        return SymBool(f(self.t, o2.t))

    def __lt__(self, o):
        return self._cmp(o, lambda a, b: a < b, "__lt__")

    def __le__(self, o):
        return self._cmp(o, lambda a, b: a <= b, "__le__")

    def __gt__(self, o):
        return self._cmp(o, lambda a, b: a > b, "__gt__")

    def __ge__(self, o):
        return self._cmp(o, lambda a, b: a >= b, "__ge__")

    def __eq__(self, o):
        o2 = SymInt.lift(o)
        if o2 is None:
            return False if not isinstance(o, (float, SymFloat)) else SymFloat.from_int(self) == o
        return SymBool(self.t == o2.t)

    def __ne__(self, o):
        o2 = SymInt.lift(o)
        if o2 is None:
            return True if not isinstance(o, (float, SymFloat)) else SymFloat.from_int(self) != o
        return SymBool(self.t != o2.t)

    # -- conversions forcing a concrete value: fork over the feasible values
    def concretize(self, limit=1024):
        c = ctx()
        s = z3.simplify(self.t)
        if z3.is_bv_value(s):
            return s.as_signed_long()
        if self.hi - self.lo + 1 > limit:
            self.tighten()
        if self.hi - self.lo + 1 > limit:
            raise Unsupported("cannot concretise integer with %d candidates" % (self.hi - self.lo + 1))
        return c.choose(self.t)

    def tighten(self):
        """semantic min/max under the current path condition (binary search with the solver)"""
        c = ctx()
        lo, hi = self.lo, self.hi
        a, b = lo, hi  # min in [a,b]
        while a < b:
            mid = (a + b) // 2
            if c._check(self.t <= mid) == z3.unsat:
                a = mid + 1
            else:
                b = mid
        lo = a
        a, b = lo, hi
        while a < b:
            mid = (a + b + 1) // 2
            if c._check(self.t >= mid) == z3.unsat:
                b = mid - 1
            else:
                a = mid
        self.lo, self.hi = lo, a

    def __index__(self):
        return self.concretize()

    __int__ = __index__

    def __hash__(self):
        return hash(self.concretize())

    def __bool__(self):
        return ctx().decide(self.t != 0)

    def __float__(self):
        raise Unsupported("float() of a symbolic int outside the float model")

    def __format__(self, spec):
        from . import text
        return text.tok(spec, self)

    def __str__(self):
        from . import text
        return text.tok("d", self)

    def __repr__(self):
        return "SymInt(%s,[%d,%d])" % (z3.simplify(self.t), self.lo, self.hi)

    def bit_length(self):
        raise Unsupported("bit_length")

    def to_bytes(self, length, byteorder="big", signed=False):
        raise Unsupported("to_bytes")


def _mk(t, lo, hi):
    if lo == hi:
        return lo
    return SymInt(t, lo, hi)


def term_token(t):
    return z3.simplify(t).sexpr().replace("\n", " ")


def fresh_int(name, lo, hi, declare=True):
    c = ctx()
    v = z3.BitVec(name, W)
    c.add_fact(z3.And(v >= lo, v <= hi))
    s = SymInt(v, lo, hi)
    if declare:
        c.inputs[name] = _IntDecl(v, lo)
    return s


class _IntDecl:
    def __init__(self, v, default):
        self.v, self.default = v, default

    def from_model(self, m):
        if m is None:
            return self.default
        return m.eval(self.v, model_completion=True).as_signed_long()


class _BoolDecl:
    def __init__(self, v):
        self.v = v

    def from_model(self, m):
        if m is None:
            return False
        return z3.is_true(m.eval(self.v, model_completion=True))


def fresh_bool(name, declare=True):
    v = z3.Bool(name)
    if declare:
        ctx().inputs[name] = _BoolDecl(v)
    return SymBool(v)


# --------------------------------------------------------------------------------------
# floats (IEEE-754 binary64, round-nearest-even) -- only what C27 needs

_F64 = z3.Float64()
_RNE = z3.RNE()


class SymFloat:
    __slots__ = ("t",)

    def __init__(self, t):
        self.t = t

    @staticmethod
    def lift(x):
        if isinstance(x, SymFloat):
            return x
        if isinstance(x, SymInt):
            return SymFloat.from_int(x)
        if isinstance(x, bool):
            x = int(x)
        if isinstance(x, int):
            return SymFloat(z3.FPVal(float(x), _F64)) if float(x) == x else SymFloat(
                z3.fpSignedToFP(_RNE, z3.BitVecVal(x, 128), _F64))
        if isinstance(x, float):
            return SymFloat(z3.FPVal(x, _F64))
        raise Unsupported("float lift of %r" % (x,))

    @staticmethod
    def from_int(i):
        # float(int) is correctly rounded in CPython
        return SymFloat(z3.fpSignedToFP(_RNE, i.t, _F64))

    def __mul__(self, o):
        return SymFloat(z3.fpMul(_RNE, self.t, SymFloat.lift(o).t))

    __rmul__ = __mul__

    def __add__(self, o):
        return SymFloat(z3.fpAdd(_RNE, self.t, SymFloat.lift(o).t))

    __radd__ = __add__

    def __sub__(self, o):
        return SymFloat(z3.fpSub(_RNE, self.t, SymFloat.lift(o).t))

    def __rsub__(self, o):
        return SymFloat(z3.fpSub(_RNE, SymFloat.lift(o).t, self.t))

    def __truediv__(self, o):
        return SymFloat(z3.fpDiv(_RNE, self.t, SymFloat.lift(o).t))

    def __rtruediv__(self, o):
        return SymFloat(z3.fpDiv(_RNE, SymFloat.lift(o).t, self.t))

    def __neg__(self):
        return SymFloat(z3.fpNeg(self.t))

    def __eq__(self, o):
        return SymBool(z3.fpEQ(self.t, SymFloat.lift(o).t))

    def __ne__(self, o):
        return SymBool(z3.Not(z3.fpEQ(self.t, SymFloat.lift(o).t)))

    def __lt__(self, o):
        return SymBool(z3.fpLT(self.t, SymFloat.lift(o).t))

    def __le__(self, o):
        return SymBool(z3.fpLEQ(self.t, SymFloat.lift(o).t))

    def __gt__(self, o):
        return SymBool(z3.fpGT(self.t, SymFloat.lift(o).t))

    def __ge__(self, o):
        return SymBool(z3.fpGEQ(self.t, SymFloat.lift(o).t))

    def __hash__(self):
        raise Unsupported("hash of symbolic float")

    def __float__(self):
        raise Unsupported("float() of symbolic float")

    def __format__(self, spec):
        from . import text
        return text.tok(spec or "r", self)

    def __str__(self):
        from . import text
        return text.tok("r", self)

    def __repr__(self):
        return "SymFloat(%s)" % term_token(self.t)


# --------------------------------------------------------------------------------------
# byte strings of concrete length with symbolic content


class SymBytes:
    """bytes/bytearray whose length is concrete and whose elements are ints or SymInts."""

    def __init__(self, items, mutable=False):
        self.items = list(items)
        self.mutable = mutable

    def __len__(self):
        return len(self.items)

    def __getattr__(self, name):
        # a bytes method the model does not implement is a limit of the engine (undecided), never an observable AttributeError
        if name.startswith("__") or name in ("items", "mutable", "mem", "addr"):
            raise AttributeError(name)
        raise Unsupported("bytes.%s on symbolic bytes" % name)

    def __iter__(self):
        return iter(self.items)

    def __getitem__(self, k):
        if isinstance(k, slice):
            n = len(self.items)
            k = slice(_conc_bound(k.start, n), _conc_bound(k.stop, n), _conc(k.step))
            return SymBytes(self.items[k], self.mutable)
        if isinstance(k, SymInt):
            n = len(self.items)
            if k.lo < -n or k.hi >= n:
                if ctx().decide(z3.Or(k.t < -n, k.t >= n)):
                    raise IndexError("index out of range")
            return self.items[k.concretize()]
        return self.items[k]

    def __add__(self, o):
        if isinstance(o, SymBytes):
            return SymBytes(self.items + o.items, self.mutable)
        if isinstance(o, (bytes, bytearray)):
            return SymBytes(self.items + list(o), self.mutable)
        return NotImplemented

    def __radd__(self, o):
        if isinstance(o, (bytes, bytearray)):
            return SymBytes(list(o) + self.items, isinstance(o, bytearray))
        return NotImplemented

    def __iadd__(self, o):
        r = self.__add__(o)
        return r

    def __eq__(self, o):
        if isinstance(o, (bytes, bytearray)):
            o = SymBytes(o)
        if not isinstance(o, SymBytes):
            return False
        if len(o.items) != len(self.items):
            return False
        conj = []
        for a, b in zip(self.items, o.items):
            e = a == b
            if isinstance(e, SymBool):
                conj.append(e.t)
            elif not e:
                return False
        if not conj:
            return True
        return SymBool(z3.And(*conj))

    def __ne__(self, o):
        e = self.__eq__(o)
        if isinstance(e, SymBool):
            return SymBool(z3.Not(e.t))
        return not e

    def __contains__(self, x):
        if isinstance(x, (bytes, bytearray, SymBytes)):
            raise Unsupported("subsequence test on symbolic bytes")
        if isinstance(x, (int, SymInt)) and len(self.items) > 8:
            # one decision on the disjunction instead of one fork per element
            terms = []
            for b in self.items:
                e = b == x
                if isinstance(e, SymBool):
                    terms.append(e.t)
                elif e:
                    return True
            return ctx().decide(z3.Or(*terms)) if terms else False
        for b in self.items:
            if b == x:  # forks per element
                return True
        return False

    def __hash__(self):
        raise Unsupported("hash of symbolic bytes")

    def __bool__(self):
        return len(self.items) > 0

    def __repr__(self):
        return "SymBytes(%d)" % len(self.items)

    def split(self, sep=None, maxsplit=-1):
        if not isinstance(sep, (bytes, bytearray)) or len(sep) != 1:
            raise Unsupported("bytes.split with this separator")
        if maxsplit == 1 and len(self.items) > 8:
            # position of the first separator as ONE n-ary decision (instead of one fork per byte)
            n_ = len(self.items)
            t = _bv(n_)
            for i in range(n_ - 1, -1, -1):
                e = self.items[i] == sep[0]
                if isinstance(e, SymBool):
                    t = z3.If(e.t, _bv(i), t)
                elif e:
                    t = _bv(i)
            k = SymInt(t, 0, n_).concretize(limit=n_ + 2) if not z3.is_bv_value(z3.simplify(t)) else z3.simplify(t).as_signed_long()
            if k == n_:
                return [SymBytes(self.items)]
            return [SymBytes(self.items[:k]), SymBytes(self.items[k + 1:])]
        out, cur, n = [], [], 0
        for b in self.items:
            if (maxsplit < 0 or n < maxsplit) and bool(b == sep[0]):    # forks on a proxy byte
                out.append(SymBytes(cur))
                cur = []
                n += 1
            else:
                cur.append(b)
        out.append(SymBytes(cur))
        return out

    @property
    def nbytes(self):
        return len(self.items)

    def decode(self, *a, **k):
        if any(isinstance(b, SymInt) for b in self.items):
            raise Unsupported("decode of symbolic bytes")
        return bytes(self.items).decode(*a, **k)

    def hex(self):
        raise Unsupported("hex of symbolic bytes")

    def __format__(self, spec):
        return "⟦bytes%d⟧" % len(self.items)


def _conc(x):
    if isinstance(x, SymInt):
        return x.concretize()
    return x


def _conc_bound(x, n):
    """slice bound of a sequence of length n: all values >= n (resp. <= -n) behave alike"""
    if not isinstance(x, SymInt):
        return x
    c = ctx()
    if x.hi >= n and c.decide(x.t >= n):
        return n
    if x.lo <= -n and c.decide(x.t <= -n):
        return -n
    return SymInt(x.t, max(x.lo, -n + 1), min(x.hi, n - 1)).concretize(limit=4 * n + 8)


class _BytesDecl:
    def __init__(self, vars_):
        self.vars = vars_

    def from_model(self, m):
        if m is None:
            return "00" * len(self.vars)
        return bytes(m.eval(v, model_completion=True).as_long() & 0xFF for v in self.vars).hex()


def fresh_bytes(name, n, declare=True):
    c = ctx()
    vs = [z3.BitVec("%s_%d" % (name, i), W) for i in range(n)]
    for v in vs:
        c.add_fact(z3.And(v >= 0, v <= 255))
    if declare:
        c.inputs[name] = _BytesDecl(vs)
    return SymBytes([SymInt(v, 0, 255) for v in vs])


# --------------------------------------------------------------------------------------
# dual logic helpers: work on Python values and on proxies


def And(*xs):
    terms = []
    for x in xs:
        if isinstance(x, (SymBool, SymInt)) or z3.is_bool(x):
            terms.append(_b(x))
        elif not x:
            return False
    if not terms:
        return True
    return SymBool(z3.And(*terms))


def Or(*xs):
    terms = []
    for x in xs:
        if isinstance(x, (SymBool, SymInt)) or z3.is_bool(x):
            terms.append(_b(x))
        elif x:
            return True
    if not terms:
        return False
    return SymBool(z3.Or(*terms))


def Not(x):
    if isinstance(x, (SymBool, SymInt)):
        return SymBool(z3.Not(_b(x)))
    return not x


def Implies(a, b):
    return Or(Not(a), b)


def Ite(c, a, b):
    """if-then-else on ints / bools / floats, without forking"""
    if isinstance(c, SymInt):
        c = SymBool(_b(c))
    if not isinstance(c, SymBool):
        return a if c else b
    if isinstance(a, (SymBool, bool)) and isinstance(b, (SymBool, bool)):
        return SymBool(z3.If(c.t, _b(a), _b(b)))
    if isinstance(a, (SymFloat, float)) or isinstance(b, (SymFloat, float)):
        return SymFloat(z3.If(c.t, SymFloat.lift(a).t, SymFloat.lift(b).t))
    la, lb = SymInt.lift(a), SymInt.lift(b)
    if la is None or lb is None:
        raise Unsupported("Ite on %r / %r" % (a, b))
    return SymInt(z3.If(c.t, la.t, lb.t), min(la.lo, lb.lo), max(la.hi, lb.hi))


def Eq(a, b):
    """structural equality of ints / tuples / lists / bytes without forking"""
    if isinstance(a, (list, tuple)) and isinstance(b, (list, tuple)):
        if len(a) != len(b):
            return False
        return And(*[Eq(x, y) for x, y in zip(a, b)])
    if isinstance(a, (list, tuple)) != isinstance(b, (list, tuple)):
        return False
    r = a == b
    if r is NotImplemented:
        return False
    return r


def is_symbolic(x):
    return isinstance(x, (SymInt, SymBool, SymBytes, SymFloat)) or type(x).__name__ in ("SymStr",)
