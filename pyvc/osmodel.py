"""Model of the parts of `os` / `os.path` (POSIX flavour) the verified code uses, for proxy
strings.  The path algebra is posixpath's documented behaviour re-stated over str/SymStr
methods (split, join, normpath, dirname, basename); the file system is an explicit finite set
of existing files/directories supplied by the unit.  Assumed contract A-os: CPython's
posixpath behaves like this (cross-checked on every concrete sample where the unit compares
with the real os.path)."""
from __future__ import annotations

import os as _os

from . import core
from .strings import SymStr, mk, _cp


def _s(x):
    return x if isinstance(x, (str, SymStr)) else _os.fspath(x)


class PathModel:
    sep = "/"

    def __init__(self, fs):
        self.fs = fs

    def split(self, p):
        p = _s(p)
        i = p.rfind("/") + 1
        head, tail = p[:i], p[i:]
        if head and not bool(head == "/" * len(head)):
            head = head.rstrip("/")
        return head, tail

    def dirname(self, p):
        return self.split(p)[0]

    def basename(self, p):
        return self.split(p)[1]

    def join(self, a, *ps):
        path = _s(a)
        for b in ps:
            b = _s(b)
            if b.startswith("/"):
                path = b
            elif not path or path.endswith("/"):
                path = path + b
            else:
                path = path + "/" + b
        return path

    def normpath(self, path):
        path = _s(path)
        if not path:
            return "."
        initial = 0
        if path.startswith("/"):
            initial = 1
            if path.startswith("//") and not path.startswith("///"):
                initial = 2
        comps = path.split("/")
        new = []
        for comp in comps:
            if len(comp) == 0 or bool(comp == "."):
                continue
            if not bool(comp == "..") or (not initial and not new) or (new and bool(new[-1] == "..")):
                new.append(comp)
            elif new:
                new.pop()
        out = "/" * initial
        for k, c in enumerate(new):
            out = out + ("/" if k else "") + c
        return out or "."

    def abspath(self, p):
        p = _s(p)
        if not p.startswith("/"):
            p = self.join(self.fs.cwd, p)
        return self.normpath(p)

    def isfile(self, p):
        return self.fs.isfile(_s(p))

    def exists(self, p):
        return self.fs.exists(_s(p))

    def isdir(self, p):
        return self.fs.isdir(_s(p))

    def splitext(self, p):
        p = _s(p)
        i = p.rfind(".")
        if i <= p.rfind("/") + 0 or i < 0:
            return p, ""
        return p[:i], p[i:]


class FS:
    """explicit finite file system: sets of existing files and directories (str or SymStr)"""

    def __init__(self, files=(), dirs=(), cwd="/cwd"):
        self.files, self.dirs, self.cwd = list(files), list(dirs), cwd
        self.created_dirs, self.opened = [], []

    def isfile(self, p):
        for f in self.files:
            if f == p:           # forks for proxies
                return True
        return False

    def isdir(self, p):
        for d in self.dirs + self.created_dirs:
            if d == p:
                return True
        return False

    def exists(self, p):
        return self.isfile(p) or self.isdir(p)


class OsModel:
    name = "posix"
    sep = "/"

    def __init__(self, fs=None):
        self.fs = fs or FS()
        self.path = PathModel(self.fs)

    def makedirs(self, p, mode=0o777, exist_ok=False):
        self.fs.created_dirs.append(_s(p))

    def mkdir(self, p, mode=0o777):
        self.fs.created_dirs.append(_s(p))

    def fspath(self, p):
        return _s(p)

    def __getattr__(self, n):
        return getattr(_os, n)
