"""str proxy: a string of *concrete length* whose code points are ints or SymInts.

Python's str algorithms are re-stated over code-point lists; wherever the result's shape
depends on the content (find, split, strip, replace of multi-character patterns) the
comparison is an ordinary branch on a SymBool and therefore forks the path.  Assumption
A-str: a Python str is the sequence of its code points (0..0x10FFFF).
"""
from __future__ import annotations

import z3

from . import core
from .core import SymBool, SymInt, Unsupported, ctx


def _cp(x):
    """code points of a str / SymStr"""
    if isinstance(x, SymStr):
        return x.items
    if isinstance(x, str):
        return [ord(c) for c in x]
    raise TypeError("expected str, got %r" % type(x).__name__)


def _is_str(x):
    return isinstance(x, (str, SymStr))


def mk(items):
    """SymStr, or a real str when every code point is concrete"""
    items = list(items)
    if all(isinstance(c, int) for c in items):
        return "".join(chr(c) for c in items)
    return SymStr(items)


def _eq_items(a, b):
    if len(a) != len(b):
        return False
    conj = []
    for x, y in zip(a, b):
        e = x == y
        if isinstance(e, SymBool):
            conj.append(e.t)
        elif not e:
            return False
    if not conj:
        return True
    return SymBool(z3.And(*conj))


class SymStr:
    def __init__(self, items):
        self.items = list(items)

    @staticmethod
    def from_code(x):
        if isinstance(x, SymInt) and (x.lo < 0 or x.hi > 0x10FFFF):
            if ctx().decide(z3.Or(x.t < 0, x.t > 0x10FFFF)):
                raise ValueError("chr() arg not in range(0x110000)")
        return SymStr([x])

    # ---- basics
    def __len__(self):
        return len(self.items)

    def __pyvc_ord__(self):
        if len(self.items) != 1:
            raise TypeError("ord() expected a character, but string of length %d found" % len(self.items))
        return self.items[0]

    def __iter__(self):
        for c in self.items:
            yield mk([c])

    def __getitem__(self, k):
        if isinstance(k, slice):
            k = slice(core._conc(k.start), core._conc(k.stop), core._conc(k.step))
            return mk(self.items[k])
        if isinstance(k, SymInt):
            k = k.concretize()
        return mk([self.items[k]])

    def __add__(self, o):
        if not _is_str(o):
            return NotImplemented
        return mk(self.items + _cp(o))

    def __radd__(self, o):
        if not _is_str(o):
            return NotImplemented
        return mk(_cp(o) + self.items)

    def __mul__(self, n):
        return mk(self.items * n)

    def __eq__(self, o):
        if not _is_str(o):
            return False
        return _eq_items(self.items, _cp(o))

    def __ne__(self, o):
        return core.Not(self.__eq__(o))

    def _cmp(self, o, strict_less):
        # lexicographic comparison of code-point sequences
        a, b = self.items, _cp(o)
        res = (len(a) < len(b)) if strict_less else (len(a) <= len(b))
        for x, y in reversed(list(zip(a, b))):
            res = core.Ite(x == y, res, x < y)
        return res

    def __lt__(self, o):
        return self._cmp(o, True)

    def __le__(self, o):
        return self._cmp(o, False)

    def __gt__(self, o):
        return core.Not(self._cmp(o, False))

    def __ge__(self, o):
        return core.Not(self._cmp(o, True))

    def __hash__(self):
        # a string the path condition has narrowed down to a few candidates (c in ('\r', '\n', '\t') before TABLE[c]): one path
        # per candidate, each with the hash of the concrete string; anything wider stays unsupported
        cps = []
        for it in self.items:
            if isinstance(it, int):
                cps.append(it)
            else:
                try:
                    cps.append(it.concretize(limit=16))
                except Unsupported:
                    raise Unsupported("hash of a symbolic string")
        return hash("".join(chr(c) for c in cps))

    def __bool__(self):
        return len(self.items) > 0

    def __contains__(self, sub):
        return self.find(sub) >= 0

    def __repr__(self):
        return "SymStr(%d)" % len(self.items)

    def __str__(self):
        from . import text
        return text.tok("s", self)

    def __format__(self, spec):
        from . import text
        return text.tok(spec or "s", self)

    # ---- searching (forks on matches)
    def _match_at(self, i, pat):
        return _eq_items(self.items[i:i + len(pat)], pat) if i + len(pat) <= len(self.items) else False

    def find(self, sub, start=0, end=None):
        pat = _cp(sub)
        n = len(self.items) if end is None else min(end, len(self.items))
        for i in range(start, n - len(pat) + 1):
            if self._match_at(i, pat):
                return i
        return -1

    def rfind(self, sub):
        pat = _cp(sub)
        for i in range(len(self.items) - len(pat), -1, -1):
            if self._match_at(i, pat):
                return i
        return -1

    def index(self, sub):
        i = self.find(sub)
        if i < 0:
            raise ValueError("substring not found")
        return i

    def count(self, sub):
        pat = _cp(sub)
        i = n = 0
        while i + len(pat) <= len(self.items):
            if self._match_at(i, pat):
                n += 1
                i += max(len(pat), 1)
            else:
                i += 1
        return n

    def startswith(self, p):
        if isinstance(p, tuple):
            return core.Or(*[self.startswith(x) for x in p])
        return self._match_at(0, _cp(p))

    def endswith(self, p):
        if isinstance(p, tuple):
            return core.Or(*[self.endswith(x) for x in p])
        pat = _cp(p)
        if len(pat) > len(self.items):
            return False
        return _eq_items(self.items[len(self.items) - len(pat):], pat)

    # ---- transformations
    def replace(self, old, new, count=-1):
        po, pn = _cp(old), _cp(new)
        if len(po) == 1 and len(pn) == 1 and count < 0:
            return mk([core.Ite(c == po[0], pn[0], c) for c in self.items])   # no fork
        out, i, done = [], 0, 0
        if not po:
            raise Unsupported("replace of empty pattern")
        while i < len(self.items):
            if (count < 0 or done < count) and self._match_at(i, po):
                out.extend(pn)
                i += len(po)
                done += 1
            else:
                out.append(self.items[i])
                i += 1
        return mk(out)

    def _in_set(self, c, chars):
        if chars is None:
            return core.Or(*[c == w for w in (9, 10, 11, 12, 13, 28, 29, 30, 31, 32, 0x85, 0xA0)])
        return core.Or(*[c == w for w in _cp(chars)])

    def lstrip(self, chars=None):
        i = 0
        while i < len(self.items) and self._in_set(self.items[i], chars):
            i += 1
        return mk(self.items[i:])

    def rstrip(self, chars=None):
        j = len(self.items)
        while j > 0 and self._in_set(self.items[j - 1], chars):
            j -= 1
        return mk(self.items[:j])

    def strip(self, chars=None):
        r = self.lstrip(chars)
        return r.rstrip(chars) if isinstance(r, SymStr) else r.strip(chars)

    def split(self, sep=None, maxsplit=-1):
        if sep is None:
            raise Unsupported("whitespace split")
        pat = _cp(sep)
        out, cur, i, n = [], [], 0, 0
        while i < len(self.items):
            if (maxsplit < 0 or n < maxsplit) and self._match_at(i, pat):
                out.append(mk(cur))
                cur = []
                i += len(pat)
                n += 1
            else:
                cur.append(self.items[i])
                i += 1
        out.append(mk(cur))
        return out

    def rsplit(self, sep=None, maxsplit=-1):
        if sep is None:
            raise Unsupported("whitespace split")
        if maxsplit < 0:
            return self.split(sep)
        pat = _cp(sep)
        out, j, n = [], len(self.items), 0
        i = len(self.items) - len(pat)
        while i >= 0 and n < maxsplit:
            if self._match_at(i, pat):
                out.append(mk(self.items[i + len(pat):j]))
                j = i
                i -= len(pat)
                n += 1
            else:
                i -= 1
        out.append(mk(self.items[:j]))
        return out[::-1]

    def rpartition(self, sep):
        i = self.rfind(sep)
        if i < 0:
            return "", "", self
        return mk(self.items[:i]), sep, mk(self.items[i + len(_cp(sep)):])

    def partition(self, sep):
        i = self.find(sep)
        if i < 0:
            return self, "", ""
        return mk(self.items[:i]), sep, mk(self.items[i + len(_cp(sep)):])

    def join(self, parts):
        out = []
        for k, p in enumerate(parts):
            if k:
                out.extend(self.items)
            out.extend(_cp(p))
        return mk(out)

    def lower(self):
        return mk([core.Ite(core.And(c >= 65, c <= 90), c + 32, c) for c in self._ascii_only("lower")])

    def upper(self):
        return mk([core.Ite(core.And(c >= 97, c <= 122), c - 32, c) for c in self._ascii_only("upper")])

    def _ascii_only(self, what):
        for c in self.items:
            if isinstance(c, SymInt) and c.hi > 127:
                if ctx().decide(c.t > 127):
                    raise Unsupported("%s() of a non-ASCII symbolic character" % what)
        return self.items

    def isdigit(self):
        if not self.items:
            return False
        self._ascii_only("isdigit")
        return core.And(*[core.And(c >= 48, c <= 57) for c in self.items])

    def encode(self, encoding="utf-8", errors="strict"):
        enc = encoding.lower().replace("_", "-")
        if enc in ("ascii", "latin-1", "latin1", "iso-8859-1"):
            lim = 127 if enc == "ascii" else 255
            for c in self.items:
                if isinstance(c, SymInt) and c.hi > lim:
                    if ctx().decide(c.t > lim):
                        raise UnicodeEncodeError(enc, "?", 0, 1, "ordinal not in range")
            return core.SymBytes(self.items)
        # other codecs: only when the path condition already fixes every character
        cps = [c if isinstance(c, int) else c.concretize(limit=4) for c in self.items]
        return "".join(chr(c) for c in cps).encode(encoding, errors)

    def to_int(self, base=10):
        raise Unsupported("int() of a symbolic string")

    def format(self, *a, **k):
        raise Unsupported("format on a symbolic format string")


def join_any(sep, parts):
    """str.join when some parts are SymStr"""
    if hasattr(parts, "__pyvc_join__"):
        return parts.__pyvc_join__(sep)
    parts = list(parts)
    if isinstance(sep, (bytes, bytearray)):
        if all(isinstance(p, (bytes, bytearray)) for p in parts):
            return sep.join(parts)
        out = []
        for k, p in enumerate(parts):
            if k:
                out.extend(sep)
            out.extend(p.items if isinstance(p, core.SymBytes) else p)
        return core.SymBytes(out)
    if isinstance(sep, str) and all(isinstance(p, str) for p in parts):
        return sep.join(parts)
    return SymStr(_cp(sep)).join(parts) if not isinstance(sep, SymStr) else sep.join(parts)


class _StrDecl:
    def __init__(self, vars_):
        self.vars = vars_

    def from_model(self, m):
        if m is None:
            return [0x41] * len(self.vars)
        return [m.eval(v, model_completion=True).as_long() for v in self.vars]


def fresh_str(name, n, lo=0, hi=0x10FFFF, declare=True):
    c = ctx()
    vs = [z3.BitVec("%s_%d" % (name, i), core.W) for i in range(n)]
    for v in vs:
        c.add_fact(z3.And(v >= lo, v <= hi))
    if declare:
        c.inputs[name] = _StrDecl(vs)
    return SymStr([SymInt(v, lo, hi) for v in vs])
