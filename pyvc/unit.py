"""Unit harness API: a *unit* is a Python function `f(U, **params)` that states a contract
on real repository functions: it draws inputs from `U`, states preconditions
(`U.assume`), calls the real code (`U.mod(...)` gives the compiled current source in
symbolic mode and the genuinely imported module in concrete mode) and states
postconditions (`U.ensures`).  The same text runs

 * symbolically  (mode 'sym'):  inputs are proxies, every path is explored, every
   `ensures` is a proof obligation for z3/cvc5;
 * concretely    (mode 'conc'): inputs come from a counter-model (replay against the real
   code), from the seeded sampler (bounded stand-in / engine validation) or from a
   known-finding witness.
"""
from __future__ import annotations

import io
import random

import z3

from . import core, loader, shadow
from .core import (PathEnd, SymBool, SymBytes, SymInt, Unsupported, ctx)
from .models import PackerModel, StructModule, SymStream

import re as _re
# class names of the engine's proxies as they appear in CPython's TypeError messages ("... got 'SymStr'", "... not SymInt")
_PROXY_NAME = _re.compile(r"\b(SymBool|SymInt|SymFloat|SymBytes|SymStr|SymMem|MemBytes|SymBuf|SymStreamU|SymStream|Poison|AbstractSeq|"
                          r"SymRange|SeqIter|GhostList|GhostIntList|GhostChunks|SymKeyDict|_Raw)\b")

REGISTRY = {}  # property -> list of Unit

# instances of repository classes made by a contract without running their constructor (object.__new__): an attribute the
# constructor would have set (a cache a refactoring introduces, say) is missing on them -- a limit of the harness, not a
# behaviour of the code.  `bare` remembers the most recent ones; U.call turns an AttributeError on one of them into Unsupported.
import collections as _collections
_BARE = _collections.OrderedDict()


_INIT_DEFAULTS = {}


def _init_defaults(cls):
    """attributes the class's own constructor sets to a literal (self.x = None / 0 / '' / {} / [] ...), read from the current source:
    the state a constructor gives every instance regardless of its arguments (a cache a refactoring adds, say)"""
    import ast
    import copy
    init = cls.__dict__.get("__init__")
    code = getattr(init, "__code__", None)
    if code is None:
        return {}
    key = (code.co_filename, cls.__qualname__)
    if key not in _INIT_DEFAULTS:
        out = {}
        try:
            tree = ast.parse(open(code.co_filename).read())
            node = tree
            for part in cls.__qualname__.split("."):
                node = next(n for n in node.body if isinstance(n, (ast.ClassDef, ast.FunctionDef)) and n.name == part)
            fn = next(n for n in node.body if isinstance(n, ast.FunctionDef) and n.name == "__init__")
            for st in fn.body:
                tgt = None
                if isinstance(st, ast.Assign) and len(st.targets) == 1:
                    tgt, val = st.targets[0], st.value
                elif isinstance(st, ast.AnnAssign) and st.value is not None:
                    tgt, val = st.target, st.value
                if isinstance(tgt, ast.Attribute) and isinstance(tgt.value, ast.Name) and tgt.value.id == "self":
                    try:
                        if isinstance(val, ast.Call) and isinstance(val.func, ast.Name) and val.func.id in ("dict", "list", "set") and not val.args and not val.keywords:
                            out[tgt.attr] = {"dict": {}, "list": [], "set": set()}[val.func.id]
                        else:
                            out[tgt.attr] = ast.literal_eval(val)
                    except Exception:
                        pass
        except Exception:
            out = {}
        _INIT_DEFAULTS[key] = out
    return copy.deepcopy(_INIT_DEFAULTS[key])


def bare(cls):
    obj = object.__new__(cls)
    for k, v in _init_defaults(cls).items():
        try:
            setattr(obj, k, v)
        except Exception:
            pass
    _BARE[id(obj)] = obj
    while len(_BARE) > 20000:
        _BARE.popitem(last=False)
    return obj


class Unit:
    def __init__(self, prop, name, fn, covers, params, loops, level, note, bounded_samples, timeout_ms, max_paths):
        self.prop, self.name, self.fn = prop, name, fn
        self.covers = covers or []
        self.params = params or [{}]
        self.loops = loops or {}
        self.level = level
        self.note = note
        self.bounded_samples = bounded_samples
        self.timeout_ms = timeout_ms
        self.max_paths = max_paths


def unit(prop, name=None, covers=None, params=None, loops=None, level="proof", note="",
         samples=40, timeout_ms=None, max_paths=4000, terminates=False):
    """register a contract unit.  level: 'proof' (symbolic, all paths) or 'bounded'
    (concrete enumeration/sampling only -- never counted as proved).  terminates=True: termination
    of the code under contract is part of the contract (a concrete run that exceeds the time limit is
    a violation); otherwise a timeout is *undecided* (machine load), never a violation."""

    def deco(fn):
        u = Unit(prop, name or fn.__name__, fn, covers, params, loops, level, note, samples, timeout_ms, max_paths)
        u.terminates = terminates
        REGISTRY.setdefault(prop, []).append(u)
        return fn

    return deco


class Failure(Exception):
    pass


class Outcome:
    """result of U.call: either .value or .exc"""

    def __init__(self, value=None, exc=None):
        self.value, self.exc = value, exc

    @property
    def ok(self):
        return self.exc is None

    def raised(self, *classes):
        return self.exc is not None and isinstance(self.exc, classes)


class UBase:
    mode = None

    def __init__(self):
        self.records = []  # (label, ok, show, known)
        self.substitutions = []
        self._restore = []
        self._mods = {}

    # ---- calling the code under contract
    def call(self, fn, *a, **k):
        try:
            return Outcome(value=fn(*a, **k))
        except (PathEnd, Unsupported, KeyboardInterrupt, SystemExit, Failure):
            raise
        except RecursionError as e:
            return Outcome(exc=e)
        except AttributeError as e:
            # the code under contract asked a stand-in of /verif (stub world, ghost object, proxy) for something it does not
            # model: a limit of the harness (undecided), not a behaviour of androguard
            obj = getattr(e, "obj", None)
            if obj is not None and _BARE.get(id(obj)) is obj:
                raise Unsupported("instance of %s made without its constructor has no attribute %r" % (type(obj).__name__, getattr(e, "name", "?")))
            if obj is not None and (type(obj).__module__ or "").split(".")[0] in ("contracts", "specs", "pyvc"):
                raise Unsupported("stand-in %s.%s has no attribute %r" % (type(obj).__module__, type(obj).__name__, getattr(e, "name", "?")))
            return Outcome(exc=e)
        except TypeError as e:
            # a C-implemented function of the real library (a pattern compiled by the real `re` at import time, int.to_bytes, ...)
            # was handed one of our proxies and rejected its type: a limit of the harness (undecided), not a behaviour of androguard.
            # The concrete executions of the same unit run the real types and would show a real TypeError.
            if _PROXY_NAME.search(str(e)):
                raise Unsupported("library function rejected a proxy: %s" % e)
            return Outcome(exc=e)
        except Exception as e:  # the exception is an observable outcome
            return Outcome(exc=e)

    def substitute(self, mod, name, value, why):
        """bind `name` in the compiled module to a contract stub / model (reported in evidence)"""
        # concrete mode works on the genuinely imported module, which the next unit run by this worker process sees as well:
        # run_conc puts every substituted binding back (a stub left behind made a later unit's samples fail, depending on which
        # worker happened to run what)
        self._restore.append((mod, name, hasattr(mod, name), getattr(mod, name, None)))
        setattr(mod, name, value)
        self.substitutions.append("%s.%s := %s" % (mod.__name__, name, why))

    def restore_substitutions(self):
        while self._restore:
            mod, name, had, old = self._restore.pop()
            if had:
                setattr(mod, name, old)
            else:
                try:
                    delattr(mod, name)
                except AttributeError:
                    pass

    def cm(self, mod=None):
        return _CM(self.packer())

    def known(self, kf_id, pred):
        """characterising predicate of an *open* known finding (known_findings.json);
        for ids that are not open the predicate is False, so nothing is suppressed"""
        if kf_id in getattr(self, "_open_kf", ()):
            return (kf_id, pred)
        return (kf_id, False)


class _CM:
    """stand-in for ClassManager: only the packer and the odex flag are used by the units"""

    def __init__(self, packer, odex=False):
        self.packer = packer
        self._odex = odex

    def get_odex_format(self):
        return self._odex


class USym(UBase):
    mode = "sym"

    def __init__(self, unit, loops_by_file):
        super().__init__()
        self.unit = unit
        self._loops_by_file = loops_by_file

    def mod(self, relpath):
        if relpath not in self._mods:
            self._mods[relpath] = loader.load_module(relpath, self._loops_by_file.get(relpath))
        return self._mods[relpath]

    def packer(self):
        return PackerModel(StructModule())

    def _new(self, name):
        # two draws under one name would be the SAME solver variable (silently equal): a contract bug, never a proof
        if name in ctx().inputs:
            raise RuntimeError("contract draws the input %r twice on one path" % name)

    def int(self, name, lo, hi):
        self._new(name)
        return core.fresh_int(name, lo, hi)

    def bool(self, name):
        self._new(name)
        return core.fresh_bool(name)

    def bytes(self, name, n):
        self._new(name)
        return core.fresh_bytes(name, n)

    def str(self, name, n, lo=0, hi=0x10FFFF):
        """string of n symbolic code points in lo..hi"""
        from .strings import fresh_str
        self._new(name)
        return fresh_str(name, n, lo, hi)

    def buffer(self, prefix, name, n):
        """bytes: concrete prefix followed by n symbolic bytes"""
        return SymBytes(list(prefix) + self.bytes(name, n).items)

    def choice(self, name, options):
        """finite choice, one path per option (options are concrete Python values)"""
        options = list(options)
        i = core.fresh_int(name, 0, len(options) - 1)
        if isinstance(i, int):
            return options[i]
        return options[i.concretize(limit=1 << 20)]

    def stream(self, data, pos=0):
        return SymStream(data, pos)

    def assume(self, cond):
        if isinstance(cond, SymBool):
            ctx().assume(cond.t)
        elif isinstance(cond, SymInt):
            ctx().assume(cond.t != 0)
        else:
            ctx().assume(bool(cond))

    def ensures(self, label, cond, unless=(), **show):
        kn = [k for k, _ in unless]
        if unless:
            cond = core.Or(cond, *[p for _, p in unless])
        if isinstance(cond, SymInt):
            cond = SymBool(cond.t != 0)
        t = cond.t if isinstance(cond, SymBool) else bool(cond)
        st = ctx().prove(label, t, info=show or None)
        self.records.append((label, st, None, kn))
        return st

    def zstr(self, name):
        """unbounded-length string input in z3's string theory (returns the z3 term)"""
        v = z3.String(name)

        class _D:
            def from_model(self_, m):
                if m is None:
                    return []
                s = m.eval(v, model_completion=True).as_string()
                # z3 prints non-ASCII as \\u{..}
                import re as _re
                s = _re.sub(r"\\u\{([0-9a-fA-F]+)\}", lambda mm: chr(int(mm.group(1), 16)), s)
                return [ord(c) for c in s]

        ctx().inputs[name] = _D()
        return v

    def lemma(self, label, build):
        """pure logic obligation: build(z3) returns a closed z3 formula that must be valid"""
        st = ctx().prove("lemma: " + label, build(z3))
        self.records.append((label, st, None, []))
        return st

    def cover(self, label):
        """reachability marker (vacuity guard): recorded when some feasible path gets here"""
        self.records.append(("cover:" + label, "reached", None, []))
        ctx().notes.append("cover:" + label)

    def fail(self, label, **show):
        return self.ensures(label, False, **show)


class UConc(UBase):
    mode = "conc"

    def __init__(self, given=None, rng=None):
        super().__init__()
        self.given = given
        self.rng = rng or random.Random(0)
        self.drawn = {}

    def mod(self, relpath):
        if relpath not in self._mods:
            self._mods[relpath] = loader.import_real(relpath)
        return self._mods[relpath]

    def packer(self):
        import struct

        class _P:
            def __getitem__(self, item):
                return struct.Struct("<" + item)

        return _P()

    def _draw_int(self, lo, hi):
        r = self.rng.random()
        if r < 0.25:
            cands = [lo, hi, lo + 1, hi - 1, 0, 1, -1, 0x7F, 0x80, 0xFF, 0x100, 0x7FFF, 0x8000, 0xFFFF,
                     0x7FFFFFFF, 0x80000000, 0xFFFFFFFF]
            cands = [c for c in cands if lo <= c <= hi]
            return self.rng.choice(cands)
        if r < 0.5 and hi - lo > 16:
            k = self.rng.randrange(0, max(1, (hi - lo).bit_length()))
            v = lo + self.rng.randrange(0, (1 << k) + 1)
            return min(max(v, lo), hi)
        return self.rng.randint(lo, hi)

    def int(self, name, lo, hi):
        if self.given is not None and name in self.given:
            v = int(self.given[name])
        else:
            v = self._draw_int(lo, hi)
        self.drawn[name] = v
        return v

    def bool(self, name):
        if self.given is not None and name in self.given:
            v = bool(self.given[name])
        else:
            v = self.rng.random() < 0.5
        self.drawn[name] = v
        return v

    def bytes(self, name, n):
        if self.given is not None and name in self.given:
            v = bytes.fromhex(self.given[name])
            v = (v + b"\0" * n)[:n]
        else:
            r = self.rng.random()
            if r < 0.15:
                v = bytes(self.rng.choice((0, 0xFF, 0x80, 0x7F)) for _ in range(n))
            else:
                v = bytes(self.rng.randrange(256) for _ in range(n))
        self.drawn[name] = v.hex()
        return v

    def str(self, name, n, lo=0, hi=0x10FFFF):
        if self.given is not None and name in self.given:
            cps = [int(c) for c in self.given[name]]
            cps = (cps + [lo] * n)[:n]
        else:
            cps = []
            for _ in range(n):
                r = self.rng.random()
                if r < 0.3:
                    cands = [c for c in (lo, hi, 0, 0x1F, 0x20, 0x22, 0x27, 0x2E, 0x2F, 0x5C, 0x7E, 0x7F, 0x80, 0xFF, 0x100,
                                         0xD7FF, 0xD800, 0xDFFF, 0xE000, 0xFFFF, 0x10000, 0x10FFFF, 0x41, 0x61, 0x30, 0x39, 0x3B, 0x5B)
                             if lo <= c <= hi]
                    cps.append(self.rng.choice(cands))
                elif r < 0.7:
                    cps.append(self.rng.randint(max(lo, 0x20), min(hi, 0x7E)) if max(lo, 0x20) <= min(hi, 0x7E) else self.rng.randint(lo, hi))
                else:
                    cps.append(self.rng.randint(lo, hi))
        self.drawn[name] = cps
        return "".join(chr(c) for c in cps)

    def buffer(self, prefix, name, n):
        return bytearray(bytes(prefix) + self.bytes(name, n))

    def choice(self, name, options):
        options = list(options)
        if self.given is not None and name in self.given and not isinstance(self.given[name], int) \
                and self.given[name] in options:
            self.drawn[name] = self.given[name]
            return self.given[name]
        i = self.int(name, 0, len(options) - 1)
        return options[i]

    def stream(self, data, pos=0):
        s = io.BufferedReader(io.BytesIO(bytes(data)))  # what DEX/APK code really reads from
        s.seek(pos)
        return s

    def assume(self, cond):
        if not cond:
            raise PathEnd("assume false (sample rejected)")

    def ensures(self, label, cond, unless=(), **show):
        ok = bool(cond)
        hit = []
        if not ok:
            hit = [k for k, p in unless if bool(p)]
        st = "ok" if ok else ("known" if hit else "failed")
        self.records.append((label, st, {k: _plain(v) for k, v in show.items()}, hit))
        return st

    def cover(self, label):
        pass

    def lemma(self, label, build):
        pass

    def zstr(self, name):
        return self.str(name, self.rng.randint(0, 16)) if not (self.given and name in self.given) \
            else self.str(name, len(self.given[name]))

    def fail(self, label, **show):
        return self.ensures(label, False, **show)


def _plain(v):
    if isinstance(v, (int, bool, str, float)) or v is None:
        return v
    if isinstance(v, (bytes, bytearray)):
        return bytes(v).hex()
    if isinstance(v, (list, tuple)):
        return [_plain(x) for x in v]
    return repr(v)
