"""Proxy-aware builtins and hooks bound into a compiled repository module (loader T1-T3)."""
from __future__ import annotations

import builtins as _b
import struct as _struct

import z3

from . import core
from .core import (Ite, PathEnd, SymBool, SymBytes, SymFloat, SymInt, Unsupported, ctx)
from .models import StructModule


def _is_sym(x):
    return isinstance(x, (SymInt, SymBool, SymBytes, SymFloat)) or type(x).__name__ in ("SymStr", "SymBuf")


def _any_sym(xs):
    for x in xs:
        if _is_sym(x):
            return True
        if isinstance(x, (tuple, list)) and _any_sym(x):
            return True
    return False


def pyvc_fmt(fmt, args):
    """`fmt % args` (T1)"""
    tup = args if isinstance(args, tuple) else (args,)
    if not _any_sym(tup) or isinstance(args, dict):
        return fmt % args
    from . import text
    return text.fmt_percent(fmt, args)


# ---- builtins


def s_len(x):
    f = getattr(x, "__pyvc_len__", None)
    if f is not None:
        return f()
    return _b.len(x)


class _IntMeta(type):
    def __instancecheck__(cls, x):
        return _b.isinstance(x, (_b.int, SymInt))

    def __subclasscheck__(cls, c):
        return _b.issubclass(c, _b.int)


class s_int(metaclass=_IntMeta):
    def __new__(cls, x=0, *a):
        if _b.isinstance(x, SymInt):
            return x
        if _b.isinstance(x, SymBool):
            return SymInt.lift(x)
        if _b.isinstance(x, SymFloat):
            raise Unsupported("int(float)")
        if type(x).__name__ == "SymStr":
            return x.to_int(*a)
        return _b.int(x, *a)

    @staticmethod
    def from_bytes(b, byteorder="big", *, signed=False):
        if _b.isinstance(b, SymBytes):
            items = _b.list(b.items)
            if _any_sym(items):
                from .models import compose_le
                return compose_le(items if byteorder == "little" else items[::-1], signed)
            b = _b.bytes(items)
        return _b.int.from_bytes(b, byteorder, signed=signed)


def s_isinstance(x, t):
    if _b.isinstance(x, SymInt):
        ts = t if _b.isinstance(t, tuple) else (t,)
        return any(c in (_b.int, s_int, object) for c in ts)
    if _b.isinstance(x, SymBool):
        ts = t if _b.isinstance(t, tuple) else (t,)
        return any(c in (_b.bool, _b.int, s_int, object) for c in ts)
    if _b.isinstance(x, SymBytes) or type(x).__name__ == "SymBuf":
        ts = t if _b.isinstance(t, tuple) else (t,)
        return any(c in (_b.bytes, _b.bytearray, object, s_bytes, s_bytearray) for c in ts)
    if type(x).__name__ == "SymStr":
        ts = t if _b.isinstance(t, tuple) else (t,)
        return any(c in (_b.str, object, s_str) for c in ts)
    if _b.isinstance(x, SymFloat):
        ts = t if _b.isinstance(t, tuple) else (t,)
        return any(c in (_b.float, object) for c in ts)
    if _b.isinstance(t, tuple):
        t = tuple({s_int: _b.int, s_bytes: _b.bytes, s_bytearray: _b.bytearray, s_str: _b.str}.get(c, c) for c in t)
    else:
        t = {s_int: _b.int, s_bytes: _b.bytes, s_bytearray: _b.bytearray, s_str: _b.str}.get(t, t)
    return _b.isinstance(x, t)


def _minmax(name, args, kw):
    if _b.len(args) == 1 and not kw:
        args = list(args[0])
    if kw or not _any_sym(args):
        return getattr(_b, name)(args, **kw)
    r = args[0]
    for a in args[1:]:
        r = Ite((a > r) if name == "max" else (a < r), a, r)
    return r


def s_max(*args, **kw):
    return _minmax("max", args, kw)


def s_min(*args, **kw):
    return _minmax("min", args, kw)


class _BytesMeta(type):
    def __instancecheck__(cls, x):
        return _b.isinstance(x, (cls._real, SymBytes)) or type(x).__name__ == "SymBuf"


class s_bytes(metaclass=_BytesMeta):
    _real = _b.bytes

    def __new__(cls, *a):
        if a and type(a[0]).__name__ == "SymBuf":
            return a[0]
        if a and _b.isinstance(a[0], SymBytes):
            return SymBytes(a[0].items)
        if a and _b.isinstance(a[0], (list, tuple)) and _any_sym(a[0]):
            return SymBytes(a[0])
        if a and _b.isinstance(a[0], SymInt):
            return _b.bytes(a[0].concretize())
        return _b.bytes(*a)

    fromhex = _b.bytes.fromhex
    join = _b.bytes.join


class s_bytearray(metaclass=_BytesMeta):
    _real = _b.bytearray

    def __new__(cls, *a):
        if a and type(a[0]).__name__ == "SymBuf":
            return a[0]
        if a and _b.isinstance(a[0], SymBytes):
            return SymBytes(a[0].items, mutable=True)
        if a and _b.isinstance(a[0], (list, tuple)) and _any_sym(a[0]):
            return SymBytes(a[0], mutable=True)
        if core.symbolic_active():
            return SymBytes(list(_b.bytearray(*a)), mutable=True)
        return _b.bytearray(*a)


class _StrMeta(type):
    def __instancecheck__(cls, x):
        return _b.isinstance(x, _b.str) or type(x).__name__ == "SymStr"


class s_str(metaclass=_StrMeta):
    def __new__(cls, *a, **k):
        if a and type(a[0]).__name__ == "SymStr":
            return a[0]
        return _b.str(*a, **k)

    join = _b.str.join
    maketrans = _b.str.maketrans


def s_bool(x=False):
    if _b.isinstance(x, SymBool):
        return x
    if _b.isinstance(x, SymInt):
        return SymBool(x.t != 0)
    return _b.bool(x)


def s_hex(x):
    if _b.isinstance(x, SymInt):
        from . import text
        return text.tok("#x", x)
    return _b.hex(x)


def s_ord(x):
    f = getattr(x, "__pyvc_ord__", None)
    if f is not None:
        return f()
    return _b.ord(x)


def s_chr(x):
    if _b.isinstance(x, SymInt):
        from .strings import SymStr
        return SymStr.from_code(x)
    return _b.chr(x)


class _FloatMeta(type):
    def __instancecheck__(cls, x):
        return _b.isinstance(x, (_b.float, SymFloat))


class s_float(metaclass=_FloatMeta):
    def __new__(cls, x=0.0):
        if _b.isinstance(x, SymFloat):
            return x
        if _b.isinstance(x, SymInt):
            return SymFloat.from_int(x)
        return _b.float(x)

    fromhex = _b.float.fromhex


def s_range(*a):
    """range() whose bounds may be symbolic as long as the *count* is concrete (or small)"""
    if not _any_sym(a):
        return _b.range(*a)
    if _b.len(a) == 1:
        start, stop, step = 0, a[0], 1
    elif _b.len(a) == 2:
        start, stop, step = a[0], a[1], 1
    else:
        start, stop, step = a
    if _is_sym(step) or step < 1:
        raise Unsupported("symbolic range with a symbolic or non-positive step")
    n = stop - start
    if step != 1:
        n = (n + (step - 1)) // step
    if _b.isinstance(n, SymInt):
        if n.lo < 0:
            if ctx().decide(n.t <= 0):
                return []
            n = SymInt(n.t, 1, n.hi)
        from .loops import SymRange
        return SymRange(start, n, step)       # iterated natively: concretised / lazily forked; under a loop contract: abstract sequence
    return [start + i * step for i in _b.range(_b.max(n, 0))]


def _lazy_range(start, n):
    """iteration count decided one step at a time (each step forks on `i < n`): usable when the
    loop body fails or finishes long before a large symbolic count is reached"""
    i = 0
    while ctx().decide(n.t > i):
        yield start + i
        i += 1
        if i > 20000:
            raise Unsupported("symbolic range did not end within 20000 iterations")


def s_sum(xs, start=0):
    r = start
    for x in xs:
        r = r + x
    return r


# ---- loop hooks (T2); the active unit provides the specs

_loop_specs = {}


def set_loop_specs(specs):
    global _loop_specs
    _loop_specs = specs or {}


def loop_enter(lid, L, loaded=()):
    _loop_specs[lid].enter(L, loaded)


def loop_havoc(lid, name, L, assigned=True):
    return _loop_specs[lid].havoc(name, L, assigned)


def loop_assume(lid, L):
    _loop_specs[lid].assume(L)


def loop_iter(lid, L):
    _loop_specs[lid].iteration(L)


def loop_back(lid, L):
    _loop_specs[lid].back(L)
    raise PathEnd("loop back edge")


def for_iter(lid, iterable):
    return _loop_specs[lid].for_iter(iterable)


def install_pre(mod):
    d = mod.__dict__
    d["__pyvc_fmt__"] = pyvc_fmt
    d["__pyvc_loop_enter__"] = loop_enter
    d["__pyvc_loop_havoc__"] = loop_havoc
    d["__pyvc_loop_assume__"] = loop_assume
    d["__pyvc_loop_iter__"] = loop_iter
    d["__pyvc_loop_back__"] = loop_back
    d["__pyvc_for_iter__"] = for_iter
    from .strings import join_any
    d["__pyvc_join__"] = join_any


def install_post(mod):
    d = mod.__dict__
    sm = StructModule()
    d["__pyvc_struct__"] = sm
    if d.get("struct") is _struct:
        d["struct"] = sm
    for nm in ("unpack", "pack", "calcsize", "unpack_from"):
        if d.get(nm) is getattr(_struct, nm):
            d[nm] = getattr(sm, nm)
    for nm, f in (("len", s_len), ("int", s_int), ("isinstance", s_isinstance), ("max", s_max),
                  ("min", s_min), ("bytes", s_bytes), ("bytearray", s_bytearray), ("str", s_str),
                  ("bool", s_bool), ("hex", s_hex), ("ord", s_ord), ("chr", s_chr), ("sum", s_sum), ("range", s_range), ("float", s_float)):
        if nm not in d:
            d[nm] = f
