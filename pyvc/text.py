"""Uninterpreted number formatting.

Formatting a symbolic number (`'%08X' % x`, `'{:f}'.format(y)`, `str(x)`, `hex(x)`) yields an
ordinary Python str that contains a *token* naming (conversion, value).  CPython's own
formatting of concrete values is untouched.  `text_eq` compares two such strings: equal
literal skeleton, equal conversions, and semantically equal values (a z3 obligation) --
i.e. CPython's number formatting is a shared uninterpreted function, and what is proved is
that it is applied to equal arguments.
"""
from __future__ import annotations

import re

from . import core

_TOK = re.compile("\x00(\\d+)\x00")
_PCT = re.compile(r"%(?:\((\w+)\))?([#0\- +]*)(\*|\d+)?(?:\.(\*|\d+))?[hlL]?([diouxXeEfFgGcrsa%])")


def canon(spec):
    """canonical conversion name: printf-style and format()-style specs that render alike coincide"""
    s = spec
    if s.startswith("%"):
        s = s[1:]
    if s in ("", "s", "r", "d", "i", "u"):
        return "d"
    if s[-1] in "iu":
        s = s[:-1] + "d"
    return s


def tok(spec, value):
    c = core.ctx()
    holes = c.__dict__.setdefault("holes", [])
    holes.append((canon(spec), value))
    return "\x00%d\x00" % (len(holes) - 1)


def parts(s):
    """[str | (spec, value)]"""
    out, pos = [], 0
    holes = getattr(core._ctx, "holes", []) if core._ctx is not None else []
    for m in _TOK.finditer(s):
        if m.start() > pos:
            out.append(s[pos:m.start()])
        out.append(holes[int(m.group(1))])
        pos = m.end()
    if pos < len(s):
        out.append(s[pos:])
    return out


def atoms(s):
    """rendered text (str or SymStr) -> list of atoms: code points (int / SymInt) and holes (spec, value)"""
    items = list(s.items) if hasattr(s, "items") else [ord(c) for c in s]
    holes = getattr(core._ctx, "holes", []) if core._ctx is not None else []
    out, i = [], 0
    while i < len(items):
        if isinstance(items[i], int) and items[i] == 0:
            j = i + 1
            while j < len(items) and isinstance(items[j], int) and 48 <= items[j] <= 57:
                j += 1
            if j < len(items) and isinstance(items[j], int) and items[j] == 0 and j > i + 1 and holes:
                h = holes[int("".join(chr(c) for c in items[i + 1:j]))]
                if type(h[1]).__name__ == "SymStr" and h[0] == "d":
                    out.extend(h[1].items)    # str()/format() of a proxy string: its characters
                else:
                    out.append(h)
                i = j + 1
                continue
        out.append(items[i])
        i += 1
    return out


def has_tokens(s):
    return isinstance(s, str) and "\x00" in s


def text_eq(a, b):
    """dual: equality of two rendered texts (SymBool / bool)"""
    sa, sb = hasattr(a, "items"), hasattr(b, "items")
    if not (isinstance(a, str) or sa) or not (isinstance(b, str) or sb):
        return False
    if not sa and not sb and not has_tokens(a) and not has_tokens(b):
        return a == b
    pa, pb = atoms(a), atoms(b)
    if len(pa) != len(pb):
        return False
    conj = []
    for x, y in zip(pa, pb):
        if not isinstance(x, tuple) or not isinstance(y, tuple):
            if isinstance(x, tuple) or isinstance(y, tuple):
                return False
            e = x == y
            if e is False:
                return False
            conj.append(e)
            continue
        if x[0] != y[0]:
            return False
        if isinstance(x[1], core.SymFloat) and isinstance(y[1], core.SymFloat):
            # same datum (NaN equals NaN, -0.0 differs from 0.0): that is what formatting sees
            conj.append(core.SymBool(x[1].t == y[1].t))
        else:
            conj.append(x[1] == y[1])
    return core.And(*conj)


def fmt_percent(fmt, args):
    """`fmt % args` where some args are symbolic numbers"""
    tup = args if isinstance(args, tuple) else (args,)
    out, pos, k = [], 0, 0
    for m in _PCT.finditer(fmt):
        out.append(fmt[pos:m.start()])
        pos = m.end()
        if m.group(5) == "%":
            out.append("%")
            continue
        if m.group(1) or m.group(3) == "*" or m.group(4) == "*":
            raise core.Unsupported("format %r" % fmt)
        a = tup[k]
        k += 1
        if isinstance(a, (core.SymInt, core.SymFloat, core.SymBool)):
            spec = (m.group(2) or "") + (m.group(3) or "") + (("." + m.group(4)) if m.group(4) else "") + m.group(5)
            if isinstance(a, core.SymBool):
                a = core.SymInt.lift(a)
            out.append(tok(spec, a))
        elif hasattr(a, "items") and type(a).__name__ == "SymStr" and m.group(0) == "%s":
            out.append(a)                     # a proxy string is spliced in as it is
        else:
            out.append(m.group(0) % (a,))
    out.append(fmt[pos:])
    from .strings import join_any
    return join_any("", out)


def fmt(spec, value):
    """dual helper for spec functions: render `value` under printf-style `spec` ('%08X', '%d', '%f')"""
    if isinstance(value, (core.SymInt, core.SymFloat)):
        return tok(spec, value)
    return spec % value
