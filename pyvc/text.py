"""Uninterpreted number formatting.

Formatting a symbolic number (`'%08X' % x`, `'{:f}'.format(y)`, `str(x)`, `hex(x)`) yields an
ordinary Python str that contains a *token* naming (conversion, value).  CPython's own
formatting of concrete values is untouched.  `text_eq` compares two such strings: equal
literal skeleton, equal conversions, and semantically equal values (a z3 obligation) --
i.e. CPython's number formatting is a shared uninterpreted function, and what is proved is
that it is applied to equal arguments.
"""
from __future__ import annotations

import re

from . import core

_TOK = re.compile("\x00(\\d+)\x00")
_PCT = re.compile(r"%(?:\((\w+)\))?([#0\- +]*)(\*|\d+)?(?:\.(\*|\d+))?[hlL]?([diouxXeEfFgGcrsa%])")


def canon(spec):
    """canonical conversion name: printf-style and format()-style specs that render alike coincide"""
    s = spec
    if s.startswith("%"):
        s = s[1:]
    if s in ("", "s", "r", "d", "i", "u"):
        return "d"
    if s[-1] in "iu":
        s = s[:-1] + "d"
    return s


def tok(spec, value):
    c = core.ctx()
    holes = c.__dict__.setdefault("holes", [])
    holes.append((canon(spec), value))
    return "\x00%d\x00" % (len(holes) - 1)


def parts(s):
    """[str | (spec, value)]"""
    out, pos = [], 0
    holes = getattr(core._ctx, "holes", []) if core._ctx is not None else []
    for m in _TOK.finditer(s):
        if m.start() > pos:
            out.append(s[pos:m.start()])
        out.append(holes[int(m.group(1))])
        pos = m.end()
    if pos < len(s):
        out.append(s[pos:])
    return out


def has_tokens(s):
    return isinstance(s, str) and "\x00" in s


def text_eq(a, b):
    """dual: equality of two rendered texts (SymBool / bool)"""
    if not isinstance(a, str) or not isinstance(b, str):
        return False
    if not has_tokens(a) and not has_tokens(b):
        return a == b
    pa, pb = parts(a), parts(b)
    if len(pa) != len(pb):
        return False
    conj = []
    for x, y in zip(pa, pb):
        if isinstance(x, str) or isinstance(y, str):
            if x != y:
                return False
            continue
        if x[0] != y[0]:
            return False
        if isinstance(x[1], core.SymFloat) and isinstance(y[1], core.SymFloat):
            # same datum (NaN equals NaN, -0.0 differs from 0.0): that is what formatting sees
            conj.append(core.SymBool(x[1].t == y[1].t))
        else:
            conj.append(x[1] == y[1])
    return core.And(*conj)


def fmt_percent(fmt, args):
    """`fmt % args` where some args are symbolic numbers"""
    tup = args if isinstance(args, tuple) else (args,)
    out, pos, k = [], 0, 0
    for m in _PCT.finditer(fmt):
        out.append(fmt[pos:m.start()])
        pos = m.end()
        if m.group(5) == "%":
            out.append("%")
            continue
        if m.group(1) or m.group(3) == "*" or m.group(4) == "*":
            raise core.Unsupported("format %r" % fmt)
        a = tup[k]
        k += 1
        if isinstance(a, (core.SymInt, core.SymFloat, core.SymBool)):
            spec = (m.group(2) or "") + (m.group(3) or "") + (("." + m.group(4)) if m.group(4) else "") + m.group(5)
            if isinstance(a, core.SymBool):
                a = core.SymInt.lift(a)
            out.append(tok(spec, a))
        else:
            out.append(m.group(0) % (a,))
    out.append(fmt[pos:])
    return "".join(out)


def fmt(spec, value):
    """dual helper for spec functions: render `value` under printf-style `spec` ('%08X', '%d', '%f')"""
    if isinstance(value, (core.SymInt, core.SymFloat)):
        return tok(spec, value)
    return spec % value
