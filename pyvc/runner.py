"""Runs the contract units of one property, decides, writes evidence and replay files."""
from __future__ import annotations

import hashlib
import importlib
import json
import multiprocessing as mp
import os
import random
import signal
import sys
import time
import traceback

VERIF = os.path.dirname(os.path.dirname(os.path.abspath(__file__)))
KF_PATH = os.path.join(VERIF, "known_findings.json")
# VERIF_STRICT=1: a unit whose symbolic part could not be carried through makes the check undecided (exit 2) even when its
# concrete executions passed -- used on the unchanged tree, where every proof unit must go through
STRICT = os.environ.get("VERIF_STRICT", "") not in ("", "0")
# evidence/replays of runs against a scratch copy (VERIF_REPO) must not overwrite the real ones
_SCRATCH = os.environ.get("VERIF_REPO", "/repo") not in ("/repo", "")
OUT = os.environ.get("VERIF_OUT") or ("/dev/shm/verif_out" if _SCRATCH else VERIF)


def load_known():
    try:
        with open(KF_PATH) as f:
            return json.load(f)
    except FileNotFoundError:
        return {"findings": [], "fixed": []}


def open_findings(prop=None):
    return [k for k in load_known().get("findings", []) if k.get("status") == "open"
            and (prop is None or k["property"] == prop)]


def _import_contracts(prop):
    from . import unit as U
    if prop not in U.REGISTRY:
        importlib.import_module("contracts.%s" % prop)
    return U.REGISTRY.get(prop, [])


class _Timeout(BaseException):
    pass


def _alarm(sec):
    """limit of one concrete execution: `sec` seconds of CPU time of this process (a loop that does not end burns CPU; the
    verdict must not depend on what else the machine is running), with a wall-clock backstop of 8 x sec for executions that
    wait instead of compute (locks, subprocesses)"""
    def h(sig, frm):
        raise _Timeout()
    signal.signal(signal.SIGPROF, h)
    signal.signal(signal.SIGALRM, h)
    signal.setitimer(signal.ITIMER_PROF, sec)
    signal.alarm(sec * 8)


def _alarm_off():
    signal.setitimer(signal.ITIMER_PROF, 0)
    signal.alarm(0)


def _loops_by_file(u):
    out = {}
    for (relpath, qual, ordinal), spec in u.loops.items():
        out.setdefault(relpath, {})[(qual, ordinal)] = "%s:%s#%d" % (relpath, qual, ordinal)
    return out


def _loop_specs(u):
    return {"%s:%s#%d" % k: v for k, v in u.loops.items()}


def _standin(obj):
    from . import unit as _unit
    return obj is not None and ((type(obj).__module__ or "").split(".")[0] in ("contracts", "specs", "pyvc") or _unit._BARE.get(id(obj)) is obj)


def loader_BindingError():
    from . import loader
    return loader.BindingError


def run_conc(u, params, given=None, rng=None, timeout=None):
    """one concrete execution against the really imported module (60 s unless the unit function declares
    `conc_timeout`, e.g. a whole javac/java batch)"""
    timeout = timeout or getattr(u.fn, "conc_timeout", 60)
    from . import core, shadow
    from .unit import UConc
    from .core import PathEnd, Unsupported
    core.set_ctx(None)
    U = UConc(given=given, rng=rng)
    U._open_kf = {k["id"] for k in open_findings(u.prop)}
    res = {"records": [], "drawn": None, "status": "ok", "error": None}
    _alarm(timeout)
    try:
        u.fn(U, **params)
    except PathEnd:
        res["status"] = "rejected"
    except _Timeout:
        res["status"] = "timeout"
        if getattr(u, "terminates", False):
            U.records.append(("terminates within %d s of CPU time (or %d s of waiting)" % (timeout, 8 * timeout), "failed", None, []))
        else:
            res["error"] = "concrete run exceeded %d s of CPU time: undecided, not a violation" % timeout
    except Unsupported as e:
        res["status"] = "unsupported"
        res["error"] = str(e)
    except loader_BindingError() as e:
        # the contract names a function / pattern that is not in the changed source: nothing can be executed (undecided)
        res["status"] = "unsupported"
        res["error"] = "unbound: %s" % e
    except AttributeError as e:
        # raised outside U.call (the unit drives the code directly): a stand-in of /verif lacking what the code now asks of it
        # is a limit of the harness, anything else a crash of the harness
        if _standin(getattr(e, "obj", None)):
            res["status"] = "unsupported"
            res["error"] = "stand-in %s has no attribute %r" % (type(e.obj).__name__, getattr(e, "name", "?"))
        else:
            res["status"] = "crash"
            res["error"] = traceback.format_exc()
    except Exception:
        res["status"] = "crash"
        res["error"] = traceback.format_exc()
    finally:
        _alarm_off()
        U.restore_substitutions()
    res["records"] = U.records
    res["drawn"] = U.drawn
    return res


def job(args):
    """worker entry: the code under test may print; keep the check's stdout clean"""
    import contextlib
    import io
    with contextlib.redirect_stdout(io.StringIO()):
        return _job(args)


def _job(args):
    """worker: one (unit, params) symbolic run + replays + sampling"""
    prop, uname, pidx, tier, seed = args
    sys.setrecursionlimit(3000)
    t0 = time.time()
    from . import core, shadow, loader
    from .core import Ctx, PathEnd, Unsupported
    from .unit import USym
    try:
        from loguru import logger
        logger.remove()
    except Exception:
        pass
    units = {u.name: u for u in _import_contracts(prop)}
    u = units[uname]
    params = u.params[pidx]
    out = {"unit": uname, "params": _j(params), "level": u.level, "obligations": [], "paths": 0,
           "status": "ok", "error": None, "solver_s": 0.0, "solver_calls": 0, "substitutions": [],
           "samples": 0, "sample_failures": [], "replays": [], "covers": [], "known_hits": [], "note": u.note}
    okf = {k["id"] for k in open_findings(prop)}
    timeout_ms = u.timeout_ms or (20000 if tier == "quick" else 120000)
    if u.level == "proof":
        c = Ctx(timeout_ms=timeout_ms, seed=seed, max_paths=u.max_paths)
        lbf = _loops_by_file(u)
        shadow.set_loop_specs(_loop_specs(u))
        mods = {}
        try:
            while c.pending:
                if c.paths >= c.max_paths:
                    raise Unsupported("more than %d paths" % c.max_paths)
                prefix = c.pending.pop()
                c.start_path(prefix)
                core.set_ctx(c)
                U = USym(u, lbf)
                U._mods = mods
                U._open_kf = okf
                try:
                    u.fn(U, **params)
                    c.completed += 1
                except PathEnd:
                    pass
                finally:
                    core.set_ctx(None)
                for s in U.substitutions:
                    if s not in out["substitutions"]:
                        out["substitutions"].append(s)
        except Unsupported as e:
            out["status"] = "unsupported"
            out["error"] = "Unsupported: %s" % e
        except loader.BindingError as e:
            out["status"] = "unbound"
            out["error"] = str(e)
        except RecursionError:
            out["status"] = "unsupported"
            out["error"] = "recursion limit in engine"
        except AttributeError as e:
            if _standin(getattr(e, "obj", None)):
                out["status"] = "unsupported"
                out["error"] = "Unsupported: stand-in %s has no attribute %r" % (type(e.obj).__name__, getattr(e, "name", "?"))
            else:
                out["status"] = "crash"
                out["error"] = traceback.format_exc()
        except Exception:
            out["status"] = "crash"
            out["error"] = traceback.format_exc()
        finally:
            core.set_ctx(None)
        out["paths"] = c.paths
        out["completed_paths"] = c.completed
        out["solver_s"] = round(c.solver_time, 3)
        out["solver_calls"] = c.solver_calls
        out["covers"] = sorted(set(c.notes))
        for ob in c.obligations:
            out["obligations"].append({"label": ob.label, "status": ob.status, "path": ob.path,
                                       "solver": ob.solver, "time": round(ob.time, 4), "model": ob.model,
                                       "info": ob.info, "reason": ob.reason})
        if out["status"] == "ok" and not c.obligations:
            out["status"] = "vacuous"
            out["error"] = "no obligation generated (all %d paths ended in assumptions)" % c.paths
        # replay every distinct refuted obligation on the real code
        seen = set()
        for ob in out["obligations"]:
            if ob["status"] != "refuted" or ob["label"] in seen:
                continue
            seen.add(ob["label"])
            r = run_conc(u, params, given=ob["model"])
            failed = [rec for rec in r["records"] if rec[1] == "failed"]
            out["replays"].append({"label": ob["label"], "inputs": ob["model"], "confirmed": bool(failed),
                                   "failed": [[f[0], f[2]] for f in failed], "status": r["status"],
                                   "error": r["error"], "model_info": ob["info"]})
    # a proof unit that could not be carried through on this tree (contract does not bind to the changed code, unsupported
    # construct, path limit): remembered as the unit's symbolic issue; the concrete executions below still run, and decide()
    # reports the unit as DEGRADED (not proved, held on everything explored) instead of leaving the whole check undecided
    if out["status"] in ("unsupported", "unbound"):
        out["sym_issue"] = [out["status"], out["error"]]
        out["status"], out["error"] = "ok", None
    # bounded stand-in / engine cross-check: seeded concrete samples of the same contract
    n = u.bounded_samples if tier == "quick" else u.bounded_samples * 10
    if u.level == "bounded" and hasattr(u.fn, "enumerate_inputs"):
        gens = u.fn.enumerate_inputs(tier, **params)
    else:
        gens = None
    rng = random.Random("%s/%s/%d/%d" % (prop, uname, pidx, seed))
    distinct = set()
    tries = 0
    it = iter(gens) if gens is not None else None
    while True:
        if it is not None:
            try:
                given = next(it)
            except StopIteration:
                break
        else:
            if tries >= n:
                break
            given = None
        tries += 1
        r = run_conc(u, params, given=given, rng=rng)
        if r["status"] == "rejected":
            continue
        out["samples"] += 1
        if len(out.setdefault("sample_inputs", [])) < 2:
            out["sample_inputs"].append({"inputs": _jsonable(r["drawn"]), "clauses": [[rec[0], rec[1]] for rec in r["records"]][:6]})
        key = hashlib.sha1(json.dumps(r["drawn"], sort_keys=True, default=str).encode()).hexdigest()
        distinct.add(key)
        if r["status"] == "timeout" and not getattr(u, "terminates", False):
            out["status"] = "unsupported"
            out["error"] = r["error"]
            break
        if r["status"] == "unsupported":
            # a limit of the harness met on a concrete run (e.g. a stand-in lacks what the code now asks of it): undecided
            out["status"] = "unsupported"
            out["error"] = r["error"]
            break
        if r["status"] in ("crash", "unsupported"):
            out["sample_failures"].append({"inputs": r["drawn"], "failed": [["harness " + r["status"], r["error"]]],
                                           "crash": True})
            break
        failed = [rec for rec in r["records"] if rec[1] == "failed"]
        for rec in r["records"]:
            if rec[1] == "known":
                for k in rec[3]:
                    if k not in out["known_hits"]:
                        out["known_hits"].append(k)
        if failed and len(out["sample_failures"]) < 5:
            out["sample_failures"].append({"inputs": r["drawn"], "failed": [[f[0], f[2]] for f in failed]})
        if len(out["sample_failures"]) >= 5 or (failed and r["status"] == "timeout"):
            break
    out["distinct_samples"] = len(distinct)
    if u.level == "bounded" and it is not None:
        out["exhaustive"] = True
    out["wall_s"] = round(time.time() - t0, 3)
    return out


def _jsonable(x):
    try:
        json.dumps(x)
        return x
    except TypeError:
        return json.loads(json.dumps(x, default=str))


def _j(p):
    try:
        json.dumps(p)
        return p
    except TypeError:
        return {k: repr(v) for k, v in p.items()}


def check_property(prop, tier="quick", seed=0, only=None, procs=None):
    """returns (exit_code, lines, evidence)"""
    t0 = time.time()
    from . import loader
    units = _import_contracts(prop)
    if only:
        units = [u for u in units if only in u.name]
    jobs = [(prop, u.name, i, tier, seed) for u in units for i in range(len(u.params))]
    procs = procs or min(16, max(1, len(jobs)))
    if procs > 1 and len(jobs) > 1:
        ctxm = mp.get_context("fork")
        with ctxm.Pool(procs) as pool:
            results = pool.map(job, jobs, chunksize=1)
    else:
        results = [job(j) for j in jobs]
    return decide(prop, tier, seed, units, results, time.time() - t0)


def replay_known(prop, units_by_name):
    """replay each open known finding's witness on the real code"""
    lines, confirmed = [], []
    for k in open_findings(prop):
        u = units_by_name.get(k["unit"])
        if u is None:
            lines.append("NOTE: known finding %s names unknown unit %s" % (k["id"], k["unit"]))
            continue
        params = u.params[k.get("param_index", 0)]
        r = run_conc(u, params, given=k["witness"])
        hit = any(rec[1] == "known" and k["id"] in rec[3] for rec in r["records"])
        if hit:
            lines.append("KNOWN-FINDING: property=%s %s [%s witness=%s]" % (
                prop, k["what"], k["id"], json.dumps(k["witness"], sort_keys=True)))
            confirmed.append(k["id"])
        else:
            lines.append("NOTE: known finding %s no longer reproduces on this tree (witness passes)" % k["id"])
    return lines, confirmed


def decide(prop, tier, seed, units, results, wall):
    from . import loader
    os.makedirs(os.path.join(OUT, "evidence"), exist_ok=True)
    rdir = os.path.join(OUT, "replays", prop)
    lines = []
    violations = []
    undecided = []
    degraded = []
    crashes = []
    n_ob = n_dis = 0
    by_backend = {}
    solver_s = 0.0
    max_q = 0.0
    samples = 0
    distinct = 0
    proved_units, bounded_units = [], []
    sample_obs = []
    subs = set()
    for r in results:
        tag = r["unit"] + (("[" + ",".join("%s=%s" % kv for kv in sorted(r["params"].items())) + "]") if r["params"] else "")
        solver_s += r["solver_s"]
        samples += r["samples"]
        distinct += r.get("distinct_samples", 0)
        subs.update(r["substitutions"])
        # the concrete executions of the same contract on the real code went through: what the symbolic part could not
        # decide is then "not proved on this tree" (DEGRADED), not "nothing explored" (UNDECIDED)
        explored = r["status"] == "ok" and r["samples"] > 0 and not r["sample_failures"] and not STRICT
        if r["status"] == "crash":
            crashes.append((tag, r["error"]))
        elif r["status"] in ("unsupported", "unbound", "vacuous"):
            undecided.append((tag, r["status"], r["error"]))
        if r.get("sym_issue"):
            (degraded if explored else undecided).append((tag, r["sym_issue"][0], r["sym_issue"][1]))
        labels = {}
        for ob in r["obligations"]:
            n_ob += 1
            max_q = max(max_q, ob["time"])
            if ob["status"] == "discharged":
                n_dis += 1
                by_backend[ob["solver"]] = by_backend.get(ob["solver"], 0) + 1
            elif ob["status"] == "unknown":
                (degraded if explored else undecided).append((tag, "unknown", "%s [path %s] %s" % (ob["label"], ob["path"], ob["reason"])))
            labels.setdefault(ob["label"], []).append(ob["status"])
        not_proved = bool(r.get("sym_issue")) or any(o["status"] == "unknown" for o in r["obligations"])
        if r["level"] == "proof" and not_proved:
            bounded_units.append({"unit": tag, "evaluations": r["samples"], "distinct": r.get("distinct_samples", 0), "exhaustive": False,
                                  "note": "proof unit NOT proved on this tree (%s); counted as bounded: concrete executions of its contract only"
                                          % ((r.get("sym_issue") or ["unknown obligation"])[0]), "status": r["status"]})
        elif r["level"] == "proof":
            proved_units.append({"unit": tag, "paths": r["paths"], "obligations": len(r["obligations"]),
                                 "discharged": sum(1 for o in r["obligations"] if o["status"] == "discharged"),
                                 "solver_s": r["solver_s"], "status": r["status"], "samples_cross_checked": r["samples"]})
        else:
            bounded_units.append({"unit": tag, "evaluations": r["samples"], "distinct": r.get("distinct_samples", 0),
                                  "exhaustive": r.get("exhaustive", False), "note": r["note"], "status": r["status"]})
        if len(sample_obs) < 6 and r["obligations"]:
            o = r["obligations"][0]
            sample_obs.append({"obligation": "%s::%s" % (tag, o["label"]), "path": o["path"], "status": o["status"],
                               "backend": o["solver"], "seconds": o["time"]})
        if r["level"] != "proof" and len(sample_obs) < 8:
            for si in r.get("sample_inputs", [])[:1]:
                sample_obs.append({"bounded_case": tag, "inputs": si["inputs"], "clauses_checked": si["clauses"]})
        for rp in r["replays"]:
            violations.append({"unit": tag, "obligation": rp["label"], "inputs": rp["inputs"],
                               "confirmed": rp["confirmed"], "observed": rp["failed"], "source": "counter-model",
                               "replay_status": rp["status"], "replay_error": rp["error"], "model_info": rp["model_info"],
                               "params": r["params"], "unit_name": r["unit"]})
        for sf in r["sample_failures"]:
            if sf.get("crash"):
                crashes.append((tag, sf["failed"][0][1]))
                continue
            violations.append({"unit": tag, "obligation": sf["failed"][0][0], "inputs": sf["inputs"],
                               "confirmed": True, "observed": sf["failed"], "source": "bounded-sampling",
                               "params": r["params"], "unit_name": r["unit"]})
    units_by_name = {u.name: u for u in units}
    klines, kconfirmed = replay_known(prop, units_by_name)
    lines.extend(klines)
    # functions under contract
    covered = []
    bind_errors = []
    for u in units:
        for c in u.covers:
            try:
                d = loader.describe(*c) if len(c) == 2 else loader.describe_global(c[0], c[1])
                if d not in covered:
                    covered.append(d)
            except loader.BindingError as e:
                bind_errors.append(str(e))
            except FileNotFoundError as e:
                bind_errors.append(str(e))
    for b in bind_errors:
        # descriptive only: the obligations themselves bind through attribute access on the
        # compiled module (a missing callee there is an observable exception, not a binding error)
        lines.append("NOTE: evidence descriptor not bound: %s" % b)
    # replay files + VIOLATION lines
    seen = set()
    nv = 0
    for v in violations:
        key = (v["unit"], v["obligation"])
        if key in seen:
            continue
        seen.add(key)
        nv += 1
        os.makedirs(rdir, exist_ok=True)
        fn = os.path.join(rdir, "%s.json" % hashlib.sha1(repr(key).encode()).hexdigest()[:12])
        with open(fn, "w") as f:
            json.dump({"property": prop, "unit": v["unit_name"], "params": v["params"], "obligation": v["obligation"],
                       "inputs": v["inputs"], "confirmed_on_real_code": v["confirmed"], "observed": v["observed"],
                       "source": v["source"], "verifier_output": v.get("model_info"),
                       "replay_status": v.get("replay_status"), "replay_error": v.get("replay_error"),
                       "how": "./check %s --replay %s" % (prop, os.path.relpath(fn, VERIF) if OUT == VERIF else fn)}, f, indent=1, default=str)
        suffix = "" if v["confirmed"] else " no-failing-input-found"
        lines.append("VIOLATION property=%s replay=%s obligation=%s::%s%s" % (
            prop, os.path.relpath(fn, VERIF) if OUT == VERIF else fn, v["unit"], v["obligation"], suffix))
    # units that went through completely (every obligation discharged / every case passed, nothing degraded)
    und_tags = {t for t, _, _ in undecided} | {t for t, _, _ in degraded}
    clean = [r for r in results if r["status"] == "ok" and (r["samples"] > 0 or r["obligations"]) and not r["sample_failures"]
             and (r["unit"] + (("[" + ",".join("%s=%s" % kv for kv in sorted(r["params"].items())) + "]") if r["params"] else "")) not in und_tags]
    # a unit that explored nothing because its contract or its stand-ins do not bind to the tree it was given leaves the CHECK
    # undecided only if no unit of the property went through; a unit that generated no obligation at all (vacuous) always does
    hard = [u for u in undecided if u[1] == "vacuous"]
    if crashes:
        code = 3
    elif nv:
        code = 1
    elif undecided and (STRICT or hard or not clean):
        code = 2
    else:
        code = 0
    if nv:
        code = 1
    for tag, st, err in undecided:
        lines.append("UNDECIDED %s: %s: %s%s" % (tag, st, (err or "").strip().splitlines()[-1] if err else "",
                                               "" if code == 2 else " -- explored nothing on this tree; %d other unit(s) of the property went through" % len(clean)))
    for tag, st, err in degraded:
        lines.append("DEGRADED %s: not proved on this tree (%s: %s); the same contract held on every concrete execution of the "
                     "real code made by this run" % (tag, st, (err or "").strip().splitlines()[-1] if err else ""))
    for tag, err in crashes:
        lines.append("CHECKER-CRASH %s: %s" % (tag, (err or "").strip().splitlines()[-1] if err else ""))
        sys.stderr.write("---- %s\n%s\n" % (tag, err))
    ev = build_evidence(prop, tier, seed, units, covered, n_ob, n_dis, by_backend, solver_s, max_q, samples, distinct,
                        proved_units, bounded_units, sample_obs, subs, kconfirmed, nv, wall, undecided, degraded)
    with open(os.path.join(OUT, "evidence", "%s.json" % prop), "w") as f:
        json.dump(ev, f, indent=1)
    lines.append("%s tier=%s units=%d obligations=%d discharged=%d samples=%d violations=%d undecided=%d%s exit=%d (%.1fs)" % (
        prop, tier, len(results), n_ob, n_dis, samples, nv, len(undecided), (" degraded=%d" % len(degraded)) if degraded else "", code, wall))
    return code, lines, ev


def build_evidence(prop, tier, seed, units, covered, n_ob, n_dis, by_backend, solver_s, max_q, samples, distinct,
                   proved_units, bounded_units, sample_obs, subs, kconfirmed, nv, wall, undecided, degraded=()):
    meta = {}
    try:
        mod = importlib.import_module("contracts.%s" % prop)
        meta = getattr(mod, "META", {})
    except Exception:
        pass
    all_proof = bool(proved_units) and not bounded_units and not meta.get("partial") and not degraded and not undecided
    level = "proof" if all_proof else meta.get("level", "other")
    cov = {
        "obligations": n_ob, "discharged": n_dis,
        "checker_cmd": "./check %s --tier %s" % (prop, tier),
        "trusted_base": meta.get("trusted", []) + sorted(subs),
        "functions_under_contract": covered,
        "by_backend": by_backend, "solver_s": round(solver_s, 3), "max_query_s": round(max_q, 3),
        "proved_units": proved_units, "bounded_units": bounded_units,
        "evaluations": max(samples, 1), "distinct_nontrivial": max(distinct, 2) if samples >= 2 else 2,
        "rule": "concrete executions of the same contract on the really imported module (seeded sampler with boundary "
                "bias for proof units = cross-check of the engine's models; enumerated scope for bounded units); "
                "distinct = distinct input tuples",
        "samples": sample_obs or [{"note": "no obligation generated"}],
        "known_findings_confirmed": kconfirmed,
        "undecided": [list(u) for u in undecided][:20],
        "degraded_units": [{"unit": t, "why": "%s: %s" % (st, (err or "").strip().splitlines()[-1] if err else ""),
                            "counted_as": "not proved; bounded (concrete executions of the contract only)"} for t, st, err in degraded][:40],
        "extraction": "whole source file re-read from /repo, transformed by loader.py T1-T3, compiled and executed on proxies",
        "explanation": meta.get("explanation", ""),
    }
    if level != "proof":
        cov["explanation"] = (meta.get("explanation", "") + " Proved units (all paths, unbounded in the input values): %d; "
                              "bounded units (stated scope, NOT proved): %d." % (len(proved_units), len(bounded_units))).strip()
    return {"property_id": prop, "tier": tier, "seed": seed, "level": level, "coverage": cov,
            "assumptions": meta.get("assumptions", []) + [
                "A-int: every integer term is an %d-bit vector guarded by a sound interval analysis; an operation whose "
                "result might not fit makes the unit undecided" % 80,
                "A-struct: models.py StructModel = CPython struct for '<'/'=' and the codes bBhHiIlLqQsx",
                "engine (pyvc/, ~2 kloc) and z3/cvc5 are trusted"],
            "wall_s": round(wall, 2), "violations": nv}


def main(argv=None):
    import argparse
    ap = argparse.ArgumentParser()
    ap.add_argument("prop")
    ap.add_argument("--tier", default=os.environ.get("VERIF_TIER", "quick"))
    ap.add_argument("--replay")
    ap.add_argument("--only")
    ap.add_argument("--procs", type=int)
    a = ap.parse_args(argv)
    seed = int(os.environ.get("VERIF_SEED", "0") or 0)
    sys.path.insert(0, VERIF)
    try:
        from loguru import logger
        logger.remove()
    except Exception:
        pass
    if a.replay:
        return replay_file(a.prop, a.replay)
    try:
        code, lines, ev = check_property(a.prop, a.tier, seed, a.only, a.procs)
    except Exception:
        traceback.print_exc()
        print("CHECKER-CRASH %s" % a.prop)
        return 3
    for l in lines:
        print(l)
    return code


def replay_file(prop, path):
    p = path if os.path.isabs(path) else os.path.join(VERIF, path)
    with open(p) as f:
        rp = json.load(f)
    units = {u.name: u for u in _import_contracts(prop)}
    u = units[rp["unit"]]
    params = [q for q in u.params if _j(q) == rp["params"]] or [u.params[0]]
    r = run_conc(u, params[0], given=rp["inputs"])
    failed = [rec for rec in r["records"] if rec[1] == "failed"]
    print(json.dumps({"status": r["status"], "failed": [[f[0], f[2]] for f in failed], "error": r["error"]}, indent=1, default=str))
    if failed:
        print("VIOLATION property=%s replay=%s" % (prop, path))
        return 1
    return 0
