"""APK Signing Block writer (APK Signature Scheme v2/v3/v3.1 layout), independent of androguard:
used to generate inputs with known contents.  All integers little-endian."""
import struct

MAGIC = b"APK Sig Block 42"
V2, V3, V31 = 0x7109871A, 0xF05368C0, 0x1B93AD61


def lp(b):
    return struct.pack("<I", len(b)) + b


def seq_id_bytes(pairs):
    """length-prefixed sequence of (uint32 id, length-prefixed bytes) elements -- each element is itself length-prefixed"""
    body = b"".join(lp(struct.pack("<I", i) + lp(d)) for i, d in pairs)
    return body


def digests_or_sigs(pairs):
    # sequence: [len][ {len}{id}{len}{bytes} ... ]
    return lp(b"".join(lp(struct.pack("<I", i) + lp(d)) for i, d in pairs))


def signer_v2(s):
    signed = digests_or_sigs(s["digests"]) + lp(b"".join(lp(c) for c in s["certs"])) + lp(s["attrs"])
    return lp(signed) + digests_or_sigs(s["sigs"]) + lp(s["pubkey"])


def signer_v3(s):
    signed = digests_or_sigs(s["digests"]) + lp(b"".join(lp(c) for c in s["certs"])) + struct.pack("<II", s["min"], s["max"]) + lp(s["attrs"])
    return lp(signed) + struct.pack("<II", s["smin"], s["smax"]) + digests_or_sigs(s["sigs"]) + lp(s["pubkey"])


def scheme_block(signers, v3):
    return lp(b"".join(lp((signer_v3 if v3 else signer_v2)(s)) for s in signers))


def signing_block(pairs):
    """pairs: list of (id, value bytes) -> the whole APK Signing Block"""
    body = b"".join(struct.pack("<QI", len(v) + 4, i) + v for i, v in pairs)
    size = len(body) + 8 + 16
    return struct.pack("<Q", size) + body + struct.pack("<Q", size) + MAGIC


def zip_with_block(block, comment=b""):
    """[local entries][signing block][central directory][EOCD]: a minimal archive with one stored entry"""
    name, data = b"a.txt", b"hello"
    import zlib
    crc = zlib.crc32(data)
    local = struct.pack("<IHHHHHIIIHH", 0x04034B50, 20, 0, 0, 0, 0, crc, len(data), len(data), len(name), 0) + name + data
    cd_off = len(local) + len(block)
    cd = struct.pack("<IHHHHHHIIIHHHHHII", 0x02014B50, 20, 20, 0, 0, 0, 0, crc, len(data), len(data), len(name), 0, 0, 0, 0, 0, 0) + name
    eocd = struct.pack("<IHHHHIIH", 0x06054B50, 0, 0, 1, 1, len(cd), cd_off, len(comment)) + comment
    return local + block + cd + eocd
