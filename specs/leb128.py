"""LEB128 as defined by the DEX format ("LEB128" section), written over byte lists.
Dual: runs on Python ints and on proxies (no branching on symbolic values: Ite only).

A DEX LEB128 encodes a 32-bit quantity in 1..5 bytes; byte i contributes its low 7 bits at
bit 7*i; the sequence ends at the first byte with bit 7 clear, and never has more than
5 bytes (the 5th byte is terminal whatever its bit 7).  The decoded value is a 32-bit
integer: payload bits beyond bit 31 do not exist in it (libdex computes in 32 bits).
"""
from pyvc.core import And, Ite, Not, Or


def leb_len(b):
    """number of bytes of the encoding starting at b[0] (1..5); needs len(b) >= that"""
    n = len(b)
    r = min(n, 5)
    for i in reversed(range(min(n, 5) - 1)):
        r = Ite(b[i] < 0x80, i + 1, r)
    return r


def _payload(b):
    """(value of all payload bits as a non-negative integer, length)"""
    ln = leb_len(b)
    v = 0
    for i in range(min(len(b), 5)):
        v = v + Ite(i < ln, (b[i] & 0x7F) << (7 * i), 0)
    return v, ln


def uleb32(b):
    v, _ = _payload(b)
    return v & 0xFFFFFFFF


def sleb32(b):
    """sign-extend from bit 7*len-1, then take the 32-bit two's-complement integer"""
    v, ln = _payload(b)
    r = v
    for k in range(1, 6):
        bits = 7 * k
        ext = Ite((v >> (bits - 1)) & 1, v - (1 << bits), v)
        r = Ite(ln == k, ext, r)
    r = r & 0xFFFFFFFF
    return Ite(r >= 0x80000000, r - 0x100000000, r)


def uleb_encode(x):
    """canonical (shortest) ULEB128 encoding of a concrete 0 <= x < 2**32"""
    out = []
    while True:
        if x < 0x80:
            out.append(x)
            return bytes(out)
        out.append((x & 0x7F) | 0x80)
        x >>= 7


def sleb_encode(x):
    """canonical SLEB128 encoding of a concrete -2**31 <= x < 2**31"""
    out = []
    while True:
        b = x & 0x7F
        x >>= 7
        if (x == 0 and not b & 0x40) or (x == -1 and b & 0x40):
            out.append(b)
            return bytes(out)
        out.append(b | 0x80)


def uleb_enc_len(x):
    """length of the canonical ULEB128 of x (dual)"""
    return Ite(x < (1 << 7), 1, Ite(x < (1 << 14), 2, Ite(x < (1 << 21), 3, Ite(x < (1 << 28), 4, 5))))


def sleb_enc_len(x):
    r = 5
    for k in (4, 3, 2, 1):
        r = Ite(And(x >= -(1 << (7 * k - 1)), x < (1 << (7 * k - 1))), k, r)
    return r
