"""Android typed resource values (Res_value / TypedValue), transcribed from AOSP
ResourceTypes.h (Res_value::COMPLEX_*), android.util.TypedValue.complexToFloat and aapt's
print_complex / TypedValue.coerceToString.  Dual code.
"""
import struct

from pyvc import core
from pyvc.core import Ite
from pyvc.text import fmt

TYPE_NULL, TYPE_REFERENCE, TYPE_ATTRIBUTE, TYPE_STRING, TYPE_FLOAT, TYPE_DIMENSION, TYPE_FRACTION = 0, 1, 2, 3, 4, 5, 6
TYPE_INT_DEC, TYPE_INT_HEX, TYPE_INT_BOOLEAN = 0x10, 0x11, 0x12
COLOR_TYPES = (0x1C, 0x1D, 0x1E, 0x1F)
DIMENSION_UNITS = ["px", "dip", "sp", "pt", "in", "mm"]   # COMPLEX_UNIT_PX .. COMPLEX_UNIT_MM
FRACTION_UNITS = ["%", "%p"]                              # COMPLEX_UNIT_FRACTION, _FRACTION_PARENT


def signed32(d):
    return Ite(d >= 0x80000000, d - 0x100000000, d)


def complex_to_float(d):
    """signed 24-bit mantissa (bits 31..8) scaled by radix 23p0 / 16p7 / 8p15 / 0p23; exact in binary64"""
    m = signed32(d & 0xFFFFFF00)
    radix = (d >> 4) & 3
    mult = Ite(radix == 0, 2.0 ** -8, Ite(radix == 1, 2.0 ** -15, Ite(radix == 2, 2.0 ** -23, 2.0 ** -31)))
    if isinstance(m, int) and isinstance(mult, float):
        return float(m) * mult
    return core.SymFloat.lift(m) * mult


def float_from_bits(d):
    if isinstance(d, int):
        return struct.unpack("<f", struct.pack("<I", d))[0]
    from pyvc.models import _float_from_bits, split_le
    return _float_from_bits(split_le(d, 4))


def format_value(t, d, lookup_string, unit):
    """expected text for type t (concrete) and 32-bit data d; `unit` = d & 0xF as a concrete int"""
    pkg = "android:" if (d >> 24) == 1 else ""     # forks on a proxy: fine in a harness
    if t == TYPE_STRING:
        return lookup_string(d)
    if t == TYPE_ATTRIBUTE:
        return "?" + pkg + fmt("%08X", d)
    if t == TYPE_REFERENCE:
        return "@" + pkg + fmt("%08X", d)
    if t == TYPE_FLOAT:
        return fmt("%f", float_from_bits(d))
    if t == TYPE_INT_HEX:
        return "0x" + fmt("%08X", d)
    if t == TYPE_INT_BOOLEAN:
        return "false" if d == 0 else "true"
    if t == TYPE_DIMENSION:
        return fmt("%f", complex_to_float(d)) + DIMENSION_UNITS[unit]
    if t == TYPE_FRACTION:
        return fmt("%f", complex_to_float(d) * 100) + FRACTION_UNITS[unit]
    if t in COLOR_TYPES:
        return "#" + fmt("%08X", d)
    if 0x10 <= t <= 0x1F:
        return fmt("%d", signed32(d))
    return None
