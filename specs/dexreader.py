"""Independent, minimal DEX reader (DEX format: header, string/type/proto/field/method ids,
class_defs, class_data_item, code_item headers) used as the oracle of the bounded C05 check.
It shares no code with androguard and decodes only what the property statement names."""
import struct


def uleb(b, p):
    r = s = 0
    while True:
        c = b[p]
        p += 1
        r |= (c & 0x7F) << s
        s += 7
        if not c & 0x80:
            return r, p


def mutf8(b, p):
    """decode MUTF-8 at p until NUL -> str with surrogates as in UTF-16 code units"""
    units = []
    while b[p] != 0:
        c = b[p]
        if c < 0x80:
            units.append(c)
            p += 1
        elif c >> 5 == 0b110:
            units.append(((c & 0x1F) << 6) | (b[p + 1] & 0x3F))
            p += 2
        else:
            units.append(((c & 0x0F) << 12) | ((b[p + 1] & 0x3F) << 6) | (b[p + 2] & 0x3F))
            p += 3
    out, i = [], 0
    while i < len(units):
        u = units[i]
        if 0xD800 <= u < 0xDC00 and i + 1 < len(units) and 0xDC00 <= units[i + 1] < 0xE000:
            out.append(chr(0x10000 + ((u - 0xD800) << 10) + (units[i + 1] - 0xDC00)))
            i += 2
        else:
            out.append(chr(u))
            i += 1
    return "".join(out)


def read(data):
    u32 = lambda o: struct.unpack_from("<I", data, o)[0]
    u16 = lambda o: struct.unpack_from("<H", data, o)[0]
    (s_n, s_o, t_n, t_o, p_n, p_o, f_n, f_o, m_n, m_o, c_n, c_o) = struct.unpack_from("<12I", data, 0x38)
    strings = []
    for i in range(s_n):
        off = u32(s_o + 4 * i)
        _, q = uleb(data, off)
        strings.append(mutf8(data, q))
    types = [strings[u32(t_o + 4 * i)] for i in range(t_n)]

    def type_list(off):
        if off == 0:
            return []
        n = u32(off)
        return [types[u16(off + 4 + 2 * i)] for i in range(n)]
    protos = []
    for i in range(p_n):
        sh, ret, par = struct.unpack_from("<III", data, p_o + 12 * i)
        protos.append("(" + " ".join(type_list(par)) + ")" + types[ret])
    fields = []
    for i in range(f_n):
        c, t, n = struct.unpack_from("<HHI", data, f_o + 8 * i)
        fields.append((types[c], strings[n], types[t]))
    methods = []
    for i in range(m_n):
        c, p, n = struct.unpack_from("<HHI", data, m_o + 8 * i)
        methods.append((types[c], strings[n], protos[p]))
    classes = []
    for i in range(c_n):
        (cls, acc, sup, ifs, src, ann, cdata, sval) = struct.unpack_from("<8I", data, c_o + 32 * i)
        cl = {"name": types[cls], "access": acc, "super": types[sup] if sup != 0xFFFFFFFF else None,
              "interfaces": type_list(ifs), "source": strings[src] if src != 0xFFFFFFFF else None,
              "sfields": [], "ifields": [], "dmethods": [], "vmethods": []}
        if cdata:
            p = cdata
            sf, p = uleb(data, p)
            inf, p = uleb(data, p)
            dm, p = uleb(data, p)
            vm, p = uleb(data, p)
            for key, n in (("sfields", sf), ("ifields", inf)):
                idx = 0
                for _ in range(n):
                    d, p = uleb(data, p)
                    a, p = uleb(data, p)
                    idx += d
                    cl[key].append(fields[idx] + (a,))
            for key, n in (("dmethods", dm), ("vmethods", vm)):
                idx = 0
                for _ in range(n):
                    d, p = uleb(data, p)
                    a, p = uleb(data, p)
                    co, p = uleb(data, p)
                    idx += d
                    code = None
                    if co:
                        regs, ins, outs, tries, dbg, isz = struct.unpack_from("<4H2I", data, co)
                        code = (regs, ins, outs, bytes(data[co + 16: co + 16 + 2 * isz]))
                    cl[key].append(methods[idx] + (a, code))
        classes.append(cl)
    return {"strings": strings, "classes": classes}
