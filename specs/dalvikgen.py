"""Random well-typed static methods over int / long, assembled to Dalvik bytecode, with an
independent reference interpreter (Dalvik bytecode document semantics).  Used by the bounded
end-to-end unit of C21: decompile -> javac -> run, compared with this interpreter."""
import struct

M32, M64 = 0xFFFFFFFF, 0xFFFFFFFFFFFFFFFF


def s32(x):
    x &= M32
    return x - (1 << 32) if x & 0x80000000 else x


def s64(x):
    x &= M64
    return x - (1 << 64) if x & (1 << 63) else x


class ArithmeticError_(Exception):
    pass


BIN = ["add", "sub", "mul", "div", "rem", "and", "or", "xor", "shl", "shr", "ushr"]


def binop(name, a, b, wide):
    w = 64 if wide else 32
    S = s64 if wide else s32
    mask = M64 if wide else M32
    if name == "add":
        return S(a + b)
    if name == "sub":
        return S(a - b)
    if name == "rsub":
        return S(b - a)
    if name == "mul":
        return S(a * b)
    if name in ("div", "rem"):
        if b == 0:
            raise ArithmeticError_()
        q = abs(a) // abs(b)
        if (a < 0) != (b < 0):
            q = -q
        return S(q) if name == "div" else S(a - q * b)
    if name == "and":
        return S(a & b)
    if name == "or":
        return S(a | b)
    if name == "xor":
        return S(a ^ b)
    d = b & (0x3F if wide else 0x1F)
    if name == "shl":
        return S(a << d)
    if name == "shr":
        return S(a >> d)
    if name == "ushr":
        return S((a & mask) >> d)
    raise ValueError(name)


# ---------------------------------------------------------------------------------------------
# instructions: tuples; registers are numbers; wide values live in a register (pair handled by allocation)

def assemble(ins_list):
    """ins_list: list of tuples with labels ('label', name) -> (bytes, offsets)"""
    # two passes: sizes are fixed per kind
    size = {"const": 6, "constw": 10, "move": 2, "movew": 2, "bin": 4, "bin2": 2, "lit16": 4, "lit8": 4, "un": 2, "cast": 2,
            "cmpl": 4, "if": 4, "ifz": 4, "goto": 4, "ret": 2, "retw": 2, "label": 0, "pswitch": 6, "sswitch": 6}
    off, labels = 0, {}
    for i in ins_list:
        if i[0] == "label":
            labels[i[1]] = off
        off += size[i[0]]
    # switch payloads follow the code, 4-byte aligned
    payload_at, switch_at = {}, {}
    end = off
    o2 = 0
    for n, i in enumerate(ins_list):
        if i[0] in ("pswitch", "sswitch"):
            switch_at[n] = o2
            if end % 4:
                end += 2
            payload_at[n] = end
            end += (8 + 4 * len(i[3])) if i[0] == "pswitch" else (4 + 8 * len(i[2]))
        o2 += size[i[0]]
    out = bytearray()
    off = 0
    for i in ins_list:
        k = i[0]
        if k == "label":
            continue
        if k == "const":
            out += struct.pack("<BBi", 0x14, i[1], s32(i[2]))
        elif k == "constw":
            out += struct.pack("<BBq", 0x18, i[1], s64(i[2]))
        elif k == "move":
            out += bytes([0x01, (i[2] << 4) | i[1]])
        elif k == "movew":
            out += bytes([0x04, (i[2] << 4) | i[1]])
        elif k == "bin":      # ('bin', name, wide, d, a, b)
            op = (0x9B if i[2] else 0x90) + BIN.index(i[1])
            out += bytes([op, i[3], i[4], i[5]])
        elif k == "bin2":     # ('bin2', name, wide, d, b)
            op = (0xBB if i[2] else 0xB0) + BIN.index(i[1])
            out += bytes([op, (i[4] << 4) | i[3]])
        elif k == "lit16":    # ('lit16', name, d, a, lit)
            op = 0xD0 + ["add", "rsub", "mul", "div", "rem", "and", "or", "xor"].index(i[1])
            out += struct.pack("<BBh", op, (i[3] << 4) | i[2], i[4])
        elif k == "lit8":     # ('lit8', name, d, a, lit)
            op = 0xD8 + ["add", "rsub", "mul", "div", "rem", "and", "or", "xor", "shl", "shr", "ushr"].index(i[1])
            out += struct.pack("<BBBb", op, i[2], i[3], i[4])
        elif k == "un":       # ('un', name, wide, d, a)
            op = {("neg", False): 0x7B, ("not", False): 0x7C, ("neg", True): 0x7D, ("not", True): 0x7E}[(i[1], i[2])]
            out += bytes([op, (i[4] << 4) | i[3]])
        elif k == "cast":     # ('cast', name, d, a)
            op = {"i2l": 0x81, "l2i": 0x84, "i2b": 0x8D, "i2c": 0x8E, "i2s": 0x8F}[i[1]]
            out += bytes([op, (i[3] << 4) | i[2]])
        elif k == "cmpl":     # ('cmpl', d, a, b)
            out += bytes([0x31, i[1], i[2], i[3]])
        elif k == "if":       # ('if', test, a, b, label)
            op = 0x32 + ["eq", "ne", "lt", "ge", "gt", "le"].index(i[1])
            out += struct.pack("<BBh", op, (i[3] << 4) | i[2], (labels[i[4]] - off) // 2)
        elif k == "ifz":      # ('ifz', test, a, label)
            op = 0x38 + ["eq", "ne", "lt", "ge", "gt", "le"].index(i[1])
            out += struct.pack("<BBh", op, i[2], (labels[i[3]] - off) // 2)
        elif k == "goto":
            out += struct.pack("<BBh", 0x29, 0, (labels[i[1]] - off) // 2)
        elif k == "ret":
            out += bytes([0x0F, i[1]])
        elif k == "retw":
            out += bytes([0x10, i[1]])
        elif k in ("pswitch", "sswitch"):   # ('pswitch', reg, first_key, [labels]) / ('sswitch', reg, [(key, label)])
            n = [m for m, j in enumerate(ins_list) if j is i][0]
            out += struct.pack("<BBi", 0x2B if k == "pswitch" else 0x2C, i[1], (payload_at[n] - off) // 2)
        off += size[k]
    for n in sorted(payload_at):
        i = ins_list[n]
        while len(out) < payload_at[n]:
            out += b"\x00\x00"
        base = switch_at[n]
        if i[0] == "pswitch":
            out += struct.pack("<HHi", 0x0100, len(i[3]), s32(i[2]))
            for lab in i[3]:
                out += struct.pack("<i", (labels[lab] - base) // 2)
        else:
            out += struct.pack("<HH", 0x0200, len(i[2]))
            for key, _ in i[2]:
                out += struct.pack("<i", s32(key))
            for _, lab in i[2]:
                out += struct.pack("<i", (labels[lab] - base) // 2)
    return bytes(out)


TEST = {"eq": lambda a, b: a == b, "ne": lambda a, b: a != b, "lt": lambda a, b: a < b, "ge": lambda a, b: a >= b,
        "gt": lambda a, b: a > b, "le": lambda a, b: a <= b}


def interpret(ins_list, regs, max_steps=20000):
    """reference semantics; regs: dict register -> value.  returns ('ret', v) or ('exc', 'ArithmeticException')"""
    labels = {i[1]: n for n, i in enumerate(ins_list) if i[0] == "label"}
    pc, steps = 0, 0
    R = dict(regs)
    while True:
        steps += 1
        if steps > max_steps:
            return ("timeout", None)
        i = ins_list[pc]
        k = i[0]
        pc += 1
        try:
            if k == "label":
                continue
            if k == "const":
                R[i[1]] = s32(i[2])
            elif k == "constw":
                R[i[1]] = s64(i[2])
            elif k in ("move", "movew"):
                R[i[1]] = R[i[2]]
            elif k == "bin":
                R[i[3]] = binop(i[1], R[i[4]], R[i[5]], i[2])
            elif k == "bin2":
                R[i[3]] = binop(i[1], R[i[3]], R[i[4]], i[2])
            elif k in ("lit16", "lit8"):
                R[i[2]] = binop(i[1], R[i[3]], i[4], False)
            elif k == "un":
                v = R[i[4]]
                R[i[3]] = (s64 if i[2] else s32)(-v if i[1] == "neg" else ~v)
            elif k == "cast":
                v = R[i[3]]
                R[i[2]] = {"i2l": lambda: s64(v), "l2i": lambda: s32(v), "i2b": lambda: ((v & 0xFF) ^ 0x80) - 0x80,
                           "i2c": lambda: v & 0xFFFF, "i2s": lambda: ((v & 0xFFFF) ^ 0x8000) - 0x8000}[i[1]]()
            elif k == "cmpl":
                a, b = R[i[2]], R[i[3]]
                R[i[1]] = 0 if a == b else (1 if a > b else -1)
            elif k == "if":
                if TEST[i[1]](R[i[2]], R[i[3]]):
                    pc = labels[i[4]]
            elif k == "ifz":
                if TEST[i[1]](R[i[2]], 0):
                    pc = labels[i[3]]
            elif k == "goto":
                pc = labels[i[1]]
            elif k == "pswitch":
                idx = R[i[1]] - s32(i[2])
                if 0 <= idx < len(i[3]):
                    pc = labels[i[3][idx]]
            elif k == "sswitch":
                for key, lab in i[2]:
                    if R[i[1]] == s32(key):
                        pc = labels[lab]
                        break
            elif k in ("ret", "retw"):
                return ("ret", R[i[1]])
        except ArithmeticError_:
            return ("exc", "ArithmeticException")


# ---------------------------------------------------------------------------------------------
# generator of structured methods


class Gen:
    """one static method: all-int ('I') or all-long ('J') arithmetic over nparams parameters"""

    def __init__(self, rng, wide, nparams, switches=True):
        self.rng, self.wide, self.nparams, self.switches = rng, wide, nparams, switches
        self.step = 2 if wide else 1
        self.nlocals = rng.randint(2, 3 if wide else 4)       # every register must fit the 4-bit fields of the 12x formats
        # register layout: locals first (wide ones use pairs), then int scratch, then parameters
        self.locals = [i * self.step for i in range(self.nlocals)]
        self.scratch = self.nlocals * self.step          # an int register (shift counts, cmp results, counters)
        self.counter = self.scratch + 1
        self.scratch2 = self.counter + 1                 # a value register (pair when wide)
        first_param = self.scratch2 + self.step
        self.params = [first_param + i * self.step for i in range(nparams)]
        self.registers = first_param + nparams * self.step
        self.ins_size = nparams * self.step
        self.code = []
        self.in_loop = False
        self.nlabel = 0
        self.assigned = set()

    def label(self):
        self.nlabel += 1
        return "L%d" % self.nlabel

    def src(self):
        cands = self.params + [l for l in self.locals if l in self.assigned]
        return self.rng.choice(cands)

    def lit(self):
        r = self.rng
        small = r.choice([0, 1, -1, 2, 3, 7, 31, 32, 33, 63, 64, 100, -128, 127, 255, 256, -32768, 32767])
        if self.wide:
            return r.choice([small, 0x7FFFFFFFFFFFFFFF, -0x8000000000000000, 0x100000000, 0xFFFFFFFF, r.randrange(-(1 << 63), 1 << 63)])
        return r.choice([small, 0x7FFFFFFF, -0x80000000, 0x10000, r.randrange(-(1 << 31), 1 << 31)])

    def hazard(self, depth):
        """x = a op b; then a (or b) is redefined inside a loop or a branch; then x is used once: the definition of x must
        not be moved past the redefinition"""
        r, w = self.rng, self.wide
        d = r.choice(self.locals[1:] or self.locals)
        cands = [v for v in self.params + [l for l in self.locals if l in self.assigned] if v != d]
        if len(cands) < 2:
            return self.assign()
        a, b = r.sample(cands, 2)
        name = r.choice(["add", "sub", "mul", "xor", "and", "or"])
        self.code.append(("bin", name, w, d, a, b))
        self.assigned.add(d)
        victim = r.choice([a, b])
        lt, lend = self.label(), self.label()
        if r.random() < 0.5 and not self.in_loop:
            self.code.append(("const", self.counter, r.randint(1, 3)))
            self.code.append(("label", lt))
            self.code.append(("ifz", "le", self.counter, lend))
        else:
            self._simple_jump(lend)
            lt = None
        step = self.lit() if r.random() < 0.5 else 1
        self.code.append(("constw" if w else "const", self.scratch2, step))
        self.code.append(("bin2", r.choice(["add", "sub", "xor"]), w, victim, self.scratch2))
        if lt is not None:
            self.code.append(("lit8", "add", self.counter, self.counter, -1))
            self.code.append(("goto", lt))
        self.code.append(("label", lend))
        ret = self.locals[0]
        self.code.append(("bin2", r.choice(["add", "xor"]), w, ret, d))

    def assign(self):
        r, w = self.rng, self.wide
        d = r.choice(self.locals)
        if r.random() < 0.12:
            d = r.choice(self.params)          # parameters are ordinary registers and may be reassigned
        kind = r.random()
        if kind < 0.15 or not (self.assigned or self.params):
            self.code.append(("constw" if w else "const", d, self.lit()))
        elif kind < 0.6:
            name = r.choice(BIN)
            a = self.src()
            if name in ("shl", "shr", "ushr") and w:
                self.code.append(("const", self.scratch, r.choice([0, 1, 5, 31, 32, 33, 63, 64, 65, -1])))
                b = self.scratch
            else:
                b = self.src()
            self.code.append(("bin", name, w, d, a, b))
        elif kind < 0.72 and d in self.assigned:
            name = r.choice(BIN)
            if name in ("shl", "shr", "ushr") and w:
                self.code.append(("const", self.scratch, r.choice([1, 31, 33, 63, 65])))
                b = self.scratch
            else:
                b = self.src()
            self.code.append(("bin2", name, w, d, b))
        elif kind < 0.86 and not w:
            if r.random() < 0.5:
                self.code.append(("lit16", r.choice(["add", "rsub", "mul", "div", "rem", "and", "or", "xor"]), d, self.src(),
                                  r.choice([-32768, -1, 0, 1, 2, 255, 32767, r.randrange(-32768, 32768)])))
            else:
                self.code.append(("lit8", r.choice(["add", "rsub", "mul", "div", "rem", "and", "or", "xor", "shl", "shr", "ushr"]), d, self.src(),
                                  r.choice([-128, -1, 0, 1, 5, 31, 32, 33, 127])))
        elif kind < 0.93:
            self.code.append(("un", r.choice(["neg", "not"]), w, d, self.src()))
        elif not w:
            self.code.append(("cast", r.choice(["i2b", "i2c", "i2s"]), d, self.src()))
        else:
            # long -> int -> long round trip through the scratch register
            self.code.append(("cast", "l2i", self.scratch, self.src()))
            self.code.append(("cast", "i2l", d, self.scratch))
        self.assigned.add(d)

    def cond_jump(self, label_false, depth=0):
        """emit a (possibly compound) test that jumps to label_false when the (random) condition does NOT hold"""
        r = self.rng
        x = r.random()
        if depth < 2 and x < 0.15:          # a && b
            self.cond_jump(label_false, depth + 1)
            self.cond_jump(label_false, depth + 1)
            return
        if depth < 2 and x < 0.3:           # a || b : the first test jumps over the second when it holds
            lthen, lnext = self.label(), self.label()
            self.cond_jump(lnext, depth + 1)
            self.code.append(("goto", lthen))
            self.code.append(("label", lnext))
            self.cond_jump(label_false, depth + 1)
            self.code.append(("label", lthen))
            return
        self._simple_jump(label_false)

    def switch(self, depth):
        r = self.rng
        if self.wide:
            self.code.append(("cast", "l2i", self.scratch, self.src()))
            reg = self.scratch
        else:
            reg = self.src()
        n = r.randint(1, 4)
        labs = [self.label() for _ in range(n)]
        lend = self.label()
        if r.random() < 0.5:
            first = r.choice([0, 1, -1, 5, 0x7FFFFFFF - n + 1, -0x80000000])
            if r.random() < 0.3 and n > 1:
                labs[-1] = labs[0]         # two keys, one target
            self.code.append(("pswitch", reg, first, list(labs)))
        else:
            keys = sorted(r.sample([-0x80000000, -100, -1, 0, 1, 2, 7, 100, 65536, 0x7FFFFFFF], n))
            self.code.append(("sswitch", reg, list(zip(keys, labs))))
        before = set(self.assigned)
        outs = []
        self.block(depth + 1)            # default
        outs.append(set(self.assigned))
        self.code.append(("goto", lend))
        done = set()
        for k, lab in enumerate(labs):
            if lab in done:
                continue
            done.add(lab)
            self.code.append(("label", lab))
            self.assigned = set(before)
            if self.block(depth + 1, True):
                continue                            # the case returned
            outs.append(set(self.assigned))
            if k != len(labs) - 1 or r.random() < 0.5:
                self.code.append(("goto", lend))
        self.code.append(("label", lend))
        self.assigned = set.intersection(*outs) | before

    def _simple_jump(self, label_false):
        r = self.rng
        t = r.choice(list(TEST))
        if self.wide:
            self.code.append(("cmpl", self.scratch, self.src(), self.src()))
            self.code.append(("ifz", t, self.scratch, label_false))
        elif r.random() < 0.5:
            self.code.append(("ifz", t, self.src(), label_false))
        else:
            self.code.append(("if", t, self.src(), self.src(), label_false))

    def ret_now(self):
        self.code.append(("retw" if self.wide else "ret", self.locals[0]))

    def block(self, depth, allow_ret=False):
        """-> True when the block ends with a return (nothing may follow it)"""
        for _ in range(self.rng.randint(1, 3)):
            x = self.rng.random()
            if allow_ret and x > 0.93:
                self.ret_now()
                return True
            if depth < 2 and x < 0.10:
                # if (c) { then }            (the branch may return early)
                lend = self.label()
                self.cond_jump(lend)
                before = set(self.assigned)
                self.block(depth + 1, True)
                self.assigned = before
                self.code.append(("label", lend))
            elif depth < 2 and x < 0.25:
                le, lend = self.label(), self.label()
                self.cond_jump(le)
                before = set(self.assigned)
                t1 = self.block(depth + 1, True)
                a1 = set(self.assigned)
                if not t1:
                    self.code.append(("goto", lend))
                self.code.append(("label", le))
                self.assigned = set(before)
                t2 = self.block(depth + 1, not t1)     # at most one of the two branches returns
                if t1:
                    pass                               # only the else branch continues
                elif t2:
                    self.assigned = a1
                else:
                    self.assigned &= a1
                self.assigned |= before
                self.code.append(("label", lend))
            elif depth < 2 and x < 0.30:
                self.hazard(depth)
            elif depth < 2 and x < 0.37 and self.switches:
                self.switch(depth + 1)
            elif depth < 1 and x < 0.47 and not self.in_loop:
                lt, lend = self.label(), self.label()
                before = set(self.assigned)
                self.in_loop = True
                if self.rng.random() < 0.6:
                    # counted loop: counter = k; while (counter > 0) { body; [if (c) break;] counter -= 1 }
                    self.code.append(("const", self.counter, self.rng.randint(0, 4)))
                    self.code.append(("label", lt))
                    self.code.append(("ifz", "le", self.counter, lend))
                    self.block(depth + 1)
                    if self.rng.random() < 0.25:
                        self._simple_jump(lend)
                    self.code.append(("lit8", "add", self.counter, self.counter, -1))
                    self.code.append(("goto", lt))
                else:
                    # do { body; counter -= 1 } while (counter > 0)
                    self.code.append(("const", self.counter, self.rng.randint(1, 3)))
                    self.code.append(("label", lt))
                    self.block(depth + 1)
                    if self.rng.random() < 0.25:
                        self._simple_jump(lend)
                    self.code.append(("lit8", "add", self.counter, self.counter, -1))
                    self.code.append(("ifz", "gt", self.counter, lt))
                self.code.append(("label", lend))
                self.in_loop = False
                self.assigned = before
            else:
                self.assign()

    def build(self):
        # make sure the returned local is assigned on every path: assign it first
        ret = self.locals[0]
        self.code.append(("constw" if self.wide else "const", ret, self.lit()))
        self.assigned.add(ret)
        if self.rng.random() < 0.7:
            # all locals initialised up front (what a Java compiler emits for declarations with initialisers)
            for l in self.locals[1:]:
                self.code.append(("constw" if self.wide else "const", l, self.lit()))
                self.assigned.add(l)
        self.block(0)
        # the result depends on every local that is definitely assigned
        for l in self.locals[1:]:
            if l in self.assigned:
                self.code.append(("bin2", self.rng.choice(["xor", "add", "sub"]), self.wide, ret, l))
        self.code.append(("retw" if self.wide else "ret", ret))
        return self


def make_class(rng, nmethods):
    """-> (class model for specs.dexwriter, list of method descriptions)"""
    methods, descs = [], []
    for k in range(nmethods):
        wide = rng.random() < 0.4
        g = Gen(rng, wide, rng.randint(1, 3)).build()
        t = "J" if wide else "I"
        name = "m%d" % k
        code = dict(registers=g.registers, ins=g.ins_size, outs=0, insns=assemble(g.code))
        methods.append((name, t, [t] * g.nparams, 0x9, code))
        descs.append(dict(name=name, wide=wide, nparams=g.nparams, code=g.code, params=g.params))
    cls = dict(name="Lp/T;", access=1, super="Ljava/lang/Object;", interfaces=[], source="T.java", sfields=[], ifields=[],
               dmethods=methods, vmethods=[])
    return cls, descs


def arg_tuples(rng, wide, n, count):
    pool = [0, 1, -1, 2, 7, 31, 32, 33, 100, -100, 0x7FFFFFFF, -0x80000000] if not wide else \
        [0, 1, -1, 2, 31, 32, 63, 64, 0x7FFFFFFF, -0x80000000, 0x100000000, 0x7FFFFFFFFFFFFFFF, -0x8000000000000000]
    out = []
    for _ in range(count):
        out.append([rng.choice(pool) if rng.random() < 0.7 else (rng.randrange(-(1 << 63), 1 << 63) if wide else rng.randrange(-(1 << 31), 1 << 31))
                    for _ in range(n)])
    return out
