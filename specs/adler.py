"""Adler-32 (RFC 1950 §8.2) in closed form, dual."""
MOD = 65521


def adler32(data):
    """data: list of byte values. A = 1 + sum d_i (mod 65521); B = sum of the running A's (mod 65521)"""
    n = len(data)
    a = 1
    b = n
    for i, d in enumerate(data):
        a = a + d
        b = b + (n - i) * d
    return ((b % MOD) << 16) | (a % MOD)
