"""Java string-literal body lexer (JLS §3.3 unicode escapes, §3.10.5-3.10.7), dual.

Input: the *atoms* of a rendered text (pyvc.text.atoms): code points (ints or proxies) and
holes (conversion, value) left by number formatting.  Output: (units, side_conditions):
`units` = the UTF-16 code units the literal denotes, `side_conditions` must all hold for
the text to be a well-formed literal body; None when it is malformed whatever the holes'
values.  Branching on a proxy character forks the path (this is harness code).
"""
from pyvc.core import And, Not, Or

SIMPLE = {ord("b"): 8, ord("t"): 9, ord("n"): 10, ord("f"): 12, ord("r"): 13, 0x22: 0x22, 0x27: 0x27, 0x5C: 0x5C}
HEXV = {ord(c): int(c, 16) for c in "0123456789abcdefABCDEF"}


def _is_hole(a):
    return isinstance(a, tuple)


def lex(atoms):
    units, side = [], []
    i = 0
    while i < len(atoms):
        a = atoms[i]
        if _is_hole(a):
            from pyvc.core import Unsupported
            raise Unsupported("formatted number (%%%s) outside a unicode escape" % a[0])
        if a == 0x5C:                        # backslash (forks when `a` is a proxy)
            if i + 1 >= len(atoms) or _is_hole(atoms[i + 1]):
                return None
            n = atoms[i + 1]
            if n == ord("u"):
                j = i + 2
                while j < len(atoms) and not _is_hole(atoms[j]) and atoms[j] == ord("u"):
                    j += 1                   # \uuuu0041 is legal
                if j < len(atoms) and _is_hole(atoms[j]) and atoms[j][0] in ("04x", "04X"):
                    # one conversion rendering the whole unit: '%04x' of 0..0xFFFF is exactly four hex digits
                    val = atoms[j][1]
                    side.append(And(val >= 0, val <= 0xFFFF))
                    side.append(And(val != 0x22, val != 0x5C, val != 0x0A, val != 0x0D))
                    units.append(val)
                    i = j + 1
                    continue
                digs = atoms[j:j + 4]
                if len(digs) < 4:
                    return None
                val = 0
                for d in digs:
                    if _is_hole(d):
                        conv, v = d
                        if conv != "x":
                            # a conversion this lexer has no rule for: the harness cannot tell how many digits it renders
                            from pyvc.core import Unsupported
                            raise Unsupported("number conversion %%%s inside a unicode escape" % conv)
                        side.append(And(v >= 0, v <= 15))   # '%x' of 0..15 is exactly one hex digit
                    else:
                        v = None
                        for code, hv in HEXV.items():
                            if d == code:
                                v = hv
                                break
                        if v is None:
                            return None
                    val = val * 16 + v
                # unicode escapes are translated before lexing: these four would break the literal
                side.append(And(val != 0x22, val != 0x5C, val != 0x0A, val != 0x0D))
                units.append(val)
                i = j + 4
                continue
            for code, u in SIMPLE.items():
                if n == code:
                    units.append(u)
                    break
            else:
                return None                  # octal escapes etc. are never produced; reject
            i += 2
            continue
        # raw input character: anything but ", CR, LF (backslash handled above)
        side.append(And(a != 0x22, a != 0x0A, a != 0x0D))
        if a > 0xFFFF:
            o = a - 0x10000
            units.extend([0xD800 + (o >> 10), 0xDC00 + (o & 0x3FF)])
        else:
            units.append(a)
        i += 1
    return units, side


def utf16(cp):
    """code units of one code point (the caller forks on cp > 0xFFFF)"""
    if cp > 0xFFFF:
        o = cp - 0x10000
        return [0xD800 + (o >> 10), 0xDC00 + (o & 0x3FF)]
    return [cp]
