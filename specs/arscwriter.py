"""Independent resources.arsc writer (AOSP ResourceTypes.h: ResTable_header, ResTable_package,
ResTable_typeSpec, ResTable_type incl. sparse and 16-bit offset forms, ResTable_entry,
ResTable_map_entry, Res_value), used to generate tables whose content is known."""
import struct

from specs.axmlwriter import Pool
from specs import locale as L

NO_ENTRY = 0xFFFFFFFF


def res_value(t, d):
    return struct.pack("<HBBI", 8, 0, t, d & 0xFFFFFFFF)


def config_bytes(lang="", region="", density=0, sdk=0, mcc=0, orientation=0, keyboard=0, width=0, layout=0, ui_mode=0,
                 smallest=0, width_dp=0, script=b"", variant=b"", layout2=0, color_mode=0):
    """ResTable_config, 64 bytes (size field included)"""
    loc = L.word([ord(c) for c in lang], [ord(c) for c in region]) if lang or region else 0
    body = struct.pack("<IIIIIIII", mcc, loc, orientation | (density << 16), keyboard, width, sdk,
                       layout | (ui_mode << 8) | (smallest << 16), width_dp)
    body += (script + b"\0" * 4)[:4] + (variant + b"\0" * 8)[:8] + struct.pack("<I", layout2 | (color_mode << 8)) + b"\0" * 8
    return struct.pack("<I", 4 + len(body)) + body


def entry_bytes(e, keys, values):
    """e = dict(key=str, kind='plain'|'complex'|'compact', type=int, data=int|str, items=[(name_ref, type, data)], flags extra)"""
    k = keys.add(e["key"])
    if e["kind"] == "complex":
        out = struct.pack("<HHIII", 16, 1 | e.get("flags", 0), k, e.get("parent", 0), len(e["items"]))
        for name, t, d in e["items"]:
            dd = values.add(d) if t == 3 else d
            out += struct.pack("<I", name) + res_value(t, dd)
        return out
    if e["kind"] == "compact":
        # compact: key index in the size field, type in the high byte of flags, data in the last word
        dd = values.add(e["data"]) if e["type"] == 3 else e["data"]
        return struct.pack("<HHI", k, 8 | (e["type"] << 8) | e.get("flags", 0), dd & 0xFFFFFFFF)
    dd = values.add(e["data"]) if e["type"] == 3 else e["data"]
    return struct.pack("<HHI", 8, e.get("flags", 0), k) + res_value(e["type"], dd)


def type_chunk(type_id, entry_count, config, entries, keys, values, form="plain"):
    """entries: {index: entry dict}"""
    blobs, offs = b"", {}
    for i in sorted(entries):
        offs[i] = len(blobs)
        blobs += entry_bytes(entries[i], keys, values)
        while len(blobs) % 4:
            blobs += b"\0"
    cfg = config_bytes(**config)
    hdr_size = 8 + 12 + len(cfg)
    if form == "sparse":
        table = b"".join(struct.pack("<HH", i, offs[i] // 4) for i in sorted(entries))
        count, flags = len(entries), 0x01
    elif form == "offset16":
        table = b"".join(struct.pack("<H", offs[i] // 4 if i in offs else 0xFFFF) for i in range(entry_count))
        if len(table) % 4:
            table += b"\0\0"
        count, flags = entry_count, 0x02
    else:
        table = b"".join(struct.pack("<I", offs.get(i, NO_ENTRY)) for i in range(entry_count))
        count, flags = entry_count, 0
    entries_start = hdr_size + len(table)
    size = entries_start + len(blobs)
    return struct.pack("<HHIBBHII", 0x0201, hdr_size, size, type_id, flags, 0, count, entries_start) + cfg + table + blobs


def typespec_chunk(type_id, entry_count):
    return struct.pack("<HHIBBHI", 0x0202, 16, 16 + 4 * entry_count, type_id, 0, 0, entry_count) + b"\0\0\0\0" * entry_count


def package_chunk(pkg_id, name, types, values, type_id_offset=0, hdr=288):
    """types: list of dict(name=str, entry_count=int, configs=[dict(config=..., entries={idx: entry}, form=...)])
    type_id_offset: ResTable_package.typeIdOffset (feature splits): the k-th type string names type id k + 1 + offset;
    hdr: 288 (with typeIdOffset) or 284 (the older header without it; offset must be 0)"""
    tpool, kpool = Pool(False), Pool(True)
    for t in types:
        tpool.add(t["name"])
    body = b""
    assert hdr in (284, 288) and (hdr == 288 or type_id_offset == 0)
    for ti, t in enumerate(types, 1 + type_id_offset):
        body += typespec_chunk(ti, t["entry_count"])
        for c in t["configs"]:
            body += type_chunk(ti, t["entry_count"], c["config"], c["entries"], kpool, values, c.get("form", "plain"))
    tchunk, kchunk = tpool.chunk(), kpool.chunk()
    nm = name.encode("utf-16-le")[:254]
    nm = nm + b"\0" * (256 - len(nm))
    size = hdr + len(tchunk) + len(kchunk) + len(body)
    out = struct.pack("<HHII", 0x0200, hdr, size, pkg_id) + nm + struct.pack("<IIII", hdr, len(tpool.strings), hdr + len(tchunk), len(kpool.strings))
    if hdr == 288:
        out += struct.pack("<I", type_id_offset)
    return out + tchunk + kchunk + body


def table(packages):
    """packages: list of (id, name, types) or (id, name, types, dict(type_id_offset=, hdr=))"""
    values = Pool(True)
    pk = [package_chunk(p[0], p[1], p[2], values, **(p[3] if len(p) > 3 else {})) for p in packages]     # fills the value pool
    vchunk = values.chunk()
    size = 12 + len(vchunk) + sum(len(p) for p in pk)
    return struct.pack("<HHII", 0x0002, 12, size, len(pk)) + vchunk + b"".join(pk)
