"""Independent binary-XML (AXML) writer, from AOSP ResourceTypes.h (ResXMLTree_*,
ResStringPool_header, Res_value): used to generate inputs whose XML tree is known."""
import struct

NULL = 0xFFFFFFFF
ANDROID_NS = "http://schemas.android.com/apk/res/android"


def mutf8_bytes(s):
    """modified UTF-8 as aapt2 writes it into UTF-8 pools: supplementary characters as a surrogate pair of two 3-byte sequences"""
    raw = s.encode("utf-16-le", "surrogatepass")
    out = bytearray()
    for k in range(0, len(raw), 2):
        u = raw[k] | (raw[k + 1] << 8)
        if u < 0x80:
            out.append(u)
        elif u < 0x800:
            out += bytes([0xC0 | (u >> 6), 0x80 | (u & 0x3F)])
        else:
            out += bytes([0xE0 | (u >> 12), 0x80 | ((u >> 6) & 0x3F), 0x80 | (u & 0x3F)])
    return bytes(out)


class Pool:
    def __init__(self, utf8, mutf8=False):
        self.utf8, self.strings, self.index, self.mutf8 = utf8, [], {}, mutf8

    def add(self, s):
        if s is None:
            return NULL
        if s not in self.index:
            self.index[s] = len(self.strings)
            self.strings.append(s)
        return self.index[s]

    def _len8(self, n):
        return bytes([n]) if n < 0x80 else bytes([0x80 | (n >> 8), n & 0xFF])

    def _len16(self, n):
        return struct.pack("<H", n) if n < 0x8000 else struct.pack("<HH", 0x8000 | (n >> 16), n & 0xFFFF)

    def chunk(self):
        data, offs = b"", []
        for s in self.strings:
            offs.append(len(data))
            if self.utf8:
                raw = mutf8_bytes(s) if self.mutf8 else s.encode("utf-8", "surrogatepass")
                u16len = len(s.encode("utf-16-le", "surrogatepass")) // 2
                data += self._len8(u16len) + self._len8(len(raw)) + raw + b"\0"
            else:
                raw = s.encode("utf-16-le", "surrogatepass")
                data += self._len16(len(raw) // 2) + raw + b"\0\0"
        while len(data) % 4:
            data += b"\0"
        hdr = 28
        strings_start = hdr + 4 * len(offs)
        size = strings_start + len(data)
        out = struct.pack("<HHIIIIII", 0x0001, hdr, size, len(offs), 0, 0x100 if self.utf8 else 0, strings_start, 0)
        out += b"".join(struct.pack("<I", o) for o in offs) + data
        return out


class Elem:
    def __init__(self, name, ns=None, attrs=(), children=(), text=None, tail=None):
        """text: character data before the first child; tail: character data directly behind this element (in its parent)"""
        self.name, self.ns, self.attrs, self.children, self.text, self.tail = name, ns, list(attrs), list(children), text, tail


class Attr:
    """value: ('str', s) | ('int', n) | ('hex', n) | ('bool', b) | ('ref', id) | ('dimen', raw32) | ('float', bits)"""

    def __init__(self, name, value, ns=None, res_id=None):
        self.name, self.value, self.ns, self.res_id = name, value, ns, res_id


TYPES = {"str": 3, "int": 0x10, "hex": 0x11, "bool": 0x12, "ref": 1, "dimen": 5, "float": 4, "attr": 2,
         "fraction": 6, "argb8": 0x1C, "rgb8": 0x1D, "argb4": 0x1E, "rgb4": 0x1F}


def write(root, namespaces=(("android", ANDROID_NS),), utf8=False, attr_size=20, mutf8=False, raw_values=True):
    """-> bytes of the binary XML document.  mutf8: UTF-8 pool in aapt2's modified UTF-8; raw_values=False: string attributes carry
    their string only in the typed value (rawValue = 0xFFFFFFFF)"""
    pool = Pool(utf8, mutf8)
    # attribute names with resource ids must come first in the pool (resource map is index-aligned)
    res_ids = []

    def collect(e):
        for a in e.attrs:
            if a.res_id is not None and a.name not in pool.index:
                pool.add(a.name)
                res_ids.append(a.res_id)
        for c in e.children:
            collect(c)
    collect(root)
    body = b""
    line = 1

    def node_hdr(t, extra):
        return struct.pack("<HHIII", t, 0x10, 0x10 + len(extra), line, NULL) + extra
    for prefix, uri in namespaces:
        body += node_hdr(0x0100, struct.pack("<II", pool.add(prefix), pool.add(uri)))

    def emit(e):
        nonlocal body
        attrs = b""
        for a in e.attrs:
            kind, v = a.value
            if kind == "str":
                data = pool.add(v)
                raw = data if raw_values else NULL
            else:
                raw = NULL
                data = {"bool": lambda: 0xFFFFFFFF if v else 0}.get(kind, lambda: v & 0xFFFFFFFF)()
            attrs += struct.pack("<IIIHBBI", pool.add(a.ns), pool.add(a.name), raw, 8, 0, TYPES[kind], data) + b"\xAB" * (attr_size - 20)
        ext = struct.pack("<IIHHHHHH", pool.add(e.ns), pool.add(e.name), 0x14, attr_size, len(e.attrs), 0, 0, 0) + attrs
        body += node_hdr(0x0102, ext)
        if e.text is not None:
            body += node_hdr(0x0104, struct.pack("<IHBBI", pool.add(e.text), 8, 0, 0, 0))
        for c in e.children:
            emit(c)
        body += node_hdr(0x0103, struct.pack("<II", pool.add(e.ns), pool.add(e.name)))
        if getattr(e, "tail", None) is not None:
            body += node_hdr(0x0104, struct.pack("<IHBBI", pool.add(e.tail), 8, 0, 0, 0))
    emit(root)
    for prefix, uri in reversed(list(namespaces)):
        body += node_hdr(0x0101, struct.pack("<II", pool.add(prefix), pool.add(uri)))
    sp = pool.chunk()
    rmap = struct.pack("<HHI", 0x0180, 8, 8 + 4 * len(res_ids)) + b"".join(struct.pack("<I", r) for r in res_ids) if res_ids else b""
    total = 8 + len(sp) + len(rmap) + len(body)
    return struct.pack("<HHI", 0x0003, 8, total) + sp + rmap + body
