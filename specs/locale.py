"""ResTable_config language/region packing, transcribed from AOSP ResourceTypes.cpp
(packLanguageOrRegion / unpackLanguageOrRegion).  Dual code over code-point lists."""
from pyvc.core import Ite


def pack(cps, base):
    """two bytes for a 0/2/3-letter code (list of code points)"""
    if len(cps) == 0:
        return [0, 0]
    if len(cps) == 2:
        return [cps[0], cps[1]]
    first = (cps[0] - base) & 0x7F
    second = (cps[1] - base) & 0x7F
    third = (cps[2] - base) & 0x7F
    return [(0x80 | (third << 2) | (second >> 3)) & 0xFF, ((second << 5) | first) & 0xFF]


def unpack_packed(b0, b1, base):
    """the three code points of a packed code (b0 has bit 7 set)"""
    first = b1 & 0x1F
    second = ((b1 & 0xE0) >> 5) + ((b0 & 0x03) << 3)
    third = (b0 & 0x7C) >> 2
    return [first + base, second + base, third + base]


def word(lang, region):
    l = pack(lang, ord("a"))
    r = pack(region, ord("0"))
    return l[0] | (l[1] << 8) | (r[0] << 16) | (r[1] << 24)
