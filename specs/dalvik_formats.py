"""Dalvik instruction formats and the opcode -> format table, transcribed from the Dalvik
"bytecode" and "instruction formats" documents (source.android.com), NOT from androguard.
Dual code: byte values may be ints or proxies; no branching on them.
"""
from pyvc.core import And, Ite

UNUSED = set(range(0x3E, 0x44)) | {0x73, 0x79, 0x7A} | set(range(0xE3, 0xFA))


def _fmt_table():
    t = {}

    def put(fmt, *ops):
        for o in ops:
            if isinstance(o, tuple):
                for k in range(o[0], o[1] + 1):
                    t[k] = fmt
            else:
                t[o] = fmt

    put("10x", 0x00, 0x0E)
    put("12x", 0x01, 0x04, 0x07, 0x21, (0x7B, 0x8F), (0xB0, 0xCF))
    put("22x", 0x02, 0x05, 0x08)
    put("32x", 0x03, 0x06, 0x09)
    put("11x", (0x0A, 0x0D), (0x0F, 0x11), 0x1D, 0x1E, 0x27)
    put("11n", 0x12)
    put("21s", 0x13, 0x16)
    put("31i", 0x14, 0x17)
    put("21h", 0x15, 0x19)
    put("51l", 0x18)
    put("21c", 0x1A, 0x1C, 0x1F, 0x22, (0x60, 0x6D), 0xFE, 0xFF)
    put("31c", 0x1B)
    put("22c", 0x20, 0x23, (0x52, 0x5F))
    put("35c", 0x24, (0x6E, 0x72), 0xFC)
    put("3rc", 0x25, (0x74, 0x78), 0xFD)
    put("31t", 0x26, 0x2B, 0x2C)
    put("10t", 0x28)
    put("20t", 0x29)
    put("30t", 0x2A)
    put("23x", (0x2D, 0x31), (0x44, 0x51), (0x90, 0xAF))
    put("22t", (0x32, 0x37))
    put("21t", (0x38, 0x3D))
    put("22s", (0xD0, 0xD7))
    put("22b", (0xD8, 0xE2))
    put("45cc", 0xFA)
    put("4rcc", 0xFB)
    for o in UNUSED:
        t[o] = "unused"
    assert len(t) == 256, len(t)
    return t


FMT = _fmt_table()
UNITS = {"unused": 0}
for _f in set(FMT.values()):
    if _f != "unused":
        UNITS[_f] = int(_f[0])

# kind of the constant-pool index (Dalvik: string@ type@ field@ meth@ proto@ call_site@ method_handle@)
POOL = {}
for _o in (0x1A, 0x1B):
    POOL[_o] = "string"
for _o in (0x1C, 0x1F, 0x20, 0x22, 0x23, 0x24, 0x25):
    POOL[_o] = "type"
for _o in range(0x52, 0x6E):
    POOL[_o] = "field"
for _o in list(range(0x6E, 0x73)) + list(range(0x74, 0x79)):
    POOL[_o] = "method"
POOL[0xFC] = POOL[0xFD] = "call_site"
POOL[0xFF] = "proto"
POOL[0xFE] = "method_handle"
POOL[0xFA] = POOL[0xFB] = "method+proto"

BRANCH_OR_TERMINAL = set(range(0x0E, 0x12)) | {0x27} | set(range(0x28, 0x2D)) | set(range(0x32, 0x3E))


def _u(bs):
    v = 0
    for i, x in enumerate(bs):
        v = v | (x << (8 * i))
    return v


def _s(bs):
    n = 8 * len(bs)
    v = _u(bs)
    return Ite(v >= (1 << (n - 1)), v - (1 << n), v)


class Decoded:
    def __init__(self, fmt):
        self.fmt = fmt
        self.units = UNITS[fmt]
        self.valid = True      # must-be-zero fields are zero
        self.operands = []     # list of (tag, value) with tag in reg/lit/off/idx
        self.literals = []
        self.ref_off = None
        self.ref_kind = None
        self.reg_count = None  # 35c/45cc: A (operands only specified for A <= 5)
        self.var_regs = None   # 35c/45cc: candidate registers C, D, E, F, G
        self.range = None      # 3rc/4rcc: (first, count)
        self.proto = None


def decode(op, b):
    """meaning of the instruction whose bytes are b (b[0] == op), per the Dalvik spec"""
    fmt = FMT[op]
    d = Decoded(fmt)
    if fmt == "unused":
        d.valid = False
        return d
    lo, hi = b[1] & 0xF, (b[1] >> 4) & 0xF
    if fmt == "10x":
        d.valid = b[1] == 0
    elif fmt == "12x":
        d.operands = [("reg", lo), ("reg", hi)]
    elif fmt == "11n":
        lit = Ite(hi >= 8, hi - 16, hi)
        d.operands = [("reg", lo), ("lit", lit)]
        d.literals = [lit]
    elif fmt == "11x":
        d.operands = [("reg", b[1])]
    elif fmt == "10t":
        d.ref_off = _s(b[1:2])
        d.operands = [("off", d.ref_off)]
    elif fmt == "20t":
        d.valid = b[1] == 0
        d.ref_off = _s(b[2:4])
        d.operands = [("off", d.ref_off)]
    elif fmt == "22x":
        d.operands = [("reg", b[1]), ("reg", _u(b[2:4]))]
    elif fmt == "21t":
        d.ref_off = _s(b[2:4])
        d.operands = [("reg", b[1]), ("off", d.ref_off)]
    elif fmt == "21s":
        lit = _s(b[2:4])
        d.operands = [("reg", b[1]), ("lit", lit)]
        d.literals = [lit]
    elif fmt == "21h":
        lit = _s(b[2:4]) << (16 if op == 0x15 else 48)
        d.operands = [("reg", b[1]), ("lit", lit)]
        d.literals = [lit]
    elif fmt == "21c":
        d.ref_kind = _u(b[2:4])
        d.operands = [("reg", b[1]), ("idx", d.ref_kind)]
    elif fmt == "23x":
        d.operands = [("reg", b[1]), ("reg", b[2]), ("reg", b[3])]
    elif fmt == "22b":
        lit = _s(b[3:4])
        d.operands = [("reg", b[1]), ("reg", b[2]), ("lit", lit)]
        d.literals = [lit]
    elif fmt == "22t":
        d.ref_off = _s(b[2:4])
        d.operands = [("reg", lo), ("reg", hi), ("off", d.ref_off)]
    elif fmt == "22s":
        lit = _s(b[2:4])
        d.operands = [("reg", lo), ("reg", hi), ("lit", lit)]
        d.literals = [lit]
    elif fmt == "22c":
        d.ref_kind = _u(b[2:4])
        d.operands = [("reg", lo), ("reg", hi), ("idx", d.ref_kind)]
    elif fmt == "30t":
        d.valid = b[1] == 0
        d.ref_off = _s(b[2:6])
        d.operands = [("off", d.ref_off)]
    elif fmt == "32x":
        d.valid = b[1] == 0
        d.operands = [("reg", _u(b[2:4])), ("reg", _u(b[4:6]))]
    elif fmt == "31i":
        lit = _s(b[2:6])
        d.operands = [("reg", b[1]), ("lit", lit)]
        d.literals = [lit]
    elif fmt == "31t":
        d.ref_off = _s(b[2:6])
        d.operands = [("reg", b[1]), ("off", d.ref_off)]
    elif fmt == "31c":
        d.ref_kind = _u(b[2:6])
        d.operands = [("reg", b[1]), ("idx", d.ref_kind)]
    elif fmt in ("35c", "45cc"):
        d.reg_count = hi
        d.ref_kind = _u(b[2:4])
        d.var_regs = [b[4] & 0xF, (b[4] >> 4) & 0xF, b[5] & 0xF, (b[5] >> 4) & 0xF, lo]
        if fmt == "45cc":
            d.proto = _u(b[6:8])
    elif fmt in ("3rc", "4rcc"):
        d.ref_kind = _u(b[2:4])
        d.range = (_u(b[4:6]), b[1])
        if fmt == "4rcc":
            d.proto = _u(b[6:8])
    elif fmt == "51l":
        lit = _s(b[2:10])
        d.operands = [("reg", b[1]), ("lit", lit)]
        d.literals = [lit]
    else:
        raise AssertionError(fmt)
    return d


def encode_units(fmt):
    return UNITS[fmt]
