"""javac/java driver for the bounded end-to-end unit of C21: compiles the decompiler's output for a batch of
single-method classes and runs every method on its argument tuples.  Independent of androguard."""
import collections
import os
import re
import shutil
import subprocess
import tempfile


RUN_TIMEOUT = 40      # seconds for one batch (50 methods x 8 calls take ~1 s)
CLASS_TIMEOUT = 15    # seconds for the 8 calls of one method when the batch did not finish


def _lit(v, wide):
    return ("%dL" % v) if wide else str(v)


def category(msg):
    if msg.startswith("cannot find symbol"):
        return "symbol"
    if "possible lossy conversion" in msg:
        return "lossy"
    if msg.startswith("unreachable statement"):
        return "unreach"
    if "might not have been initialized" in msg:
        return "uninit"
    if "might already have been assigned" in msg or "already defined" in msg:
        return "redecl"
    return "other: " + msg[:60]


def compile_and_run(sources, calls, package="p"):
    """sources: {class name: java text}; calls: {class name: [(key, method, [args], wide)]}
    -> (errors {class: [(line, message)]}, results {key: text}, log)"""
    base = "/dev/shm" if os.path.isdir("/dev/shm") and os.access("/dev/shm", os.W_OK) else None
    work = tempfile.mkdtemp(prefix="c21_", dir=base)
    try:
        os.makedirs(os.path.join(work, package))
        for c, src in sources.items():
            with open(os.path.join(work, package, c + ".java"), "w") as f:
                f.write(src)
        errors = collections.defaultdict(list)
        good = sorted(sources)
        log = ""
        for _ in range(40):
            if not good:
                break
            shutil.rmtree(os.path.join(work, "out"), ignore_errors=True)
            r = subprocess.run(["javac", "-J-XX:+UseSerialGC", "-J-XX:TieredStopAtLevel=1", "-J-Xshare:auto", "-nowarn", "-XDshould-stop.ifError=FLOW", "-Xmaxerrs", "100000", "-d", os.path.join(work, "out")] +
                               [os.path.join(work, package, c + ".java") for c in good], capture_output=True, text=True, timeout=300)
            if r.returncode == 0:
                break
            found = False
            for m in re.finditer(r"/%s/(\w+)\.java:(\d+): error: (.*)" % package, r.stderr):
                errors[m.group(1)].append((int(m.group(2)), m.group(3)))
                found = True
            if not found:
                return {c: [(0, "javac failed: " + r.stderr[:300])] for c in good}, {}, r.stderr[:1000]
            good = [c for c in good if c not in errors]
        else:
            return {c: [(0, "javac: too many rounds")] for c in good}, {}, "rounds"
        results = {}
        if good:
            drv = ["package %s;" % package, "public class Driver {"]
            for c in good:
                drv.append("static void r_%s() {" % c)
                for key, meth, args, wide in calls.get(c, []):
                    call = "%s.%s(%s)" % (c, meth, ",".join(_lit(a, wide) for a in args))
                    drv.append('try { System.out.println("%s=" + %s); } catch (ArithmeticException e) { System.out.println("%s=exc"); } '
                               'catch (Throwable e) { System.out.println("%s=throws " + e.getClass().getName()); }' % (key, call, key, key))
                drv.append("}")
            drv.append("public static void main(String[] a) { if (a.length == 0) {" + "".join("r_%s();" % c for c in good) + "} else switch (a[0]) {"
                       + "".join('case "%s": r_%s(); break;' % (c, c) for c in good) + "}}}")
            with open(os.path.join(work, package, "Driver.java"), "w") as f:
                f.write("\n".join(drv))
            r = subprocess.run(["javac", "-J-XX:+UseSerialGC", "-J-XX:TieredStopAtLevel=1", "-nowarn", "-cp", os.path.join(work, "out"), "-d", os.path.join(work, "out"),
                                os.path.join(work, package, "Driver.java")], capture_output=True, text=True, timeout=300)
            if r.returncode != 0:
                return dict(errors), {}, "driver does not compile: " + r.stderr[:600]
            java = ["java", "-XX:+UseSerialGC", "-XX:TieredStopAtLevel=1", "-Xss4m", "-cp", os.path.join(work, "out"), "%s.Driver" % package]

            def collect(out):
                for line in (out or "").splitlines():
                    if "=" in line:
                        k, v = line.split("=", 1)
                        results[k] = v
            try:
                r = subprocess.run(java, capture_output=True, text=True, timeout=RUN_TIMEOUT)
                collect(r.stdout)
                log = r.stderr[:500]
            except subprocess.TimeoutExpired:
                # some method does not terminate (the reference interpreter did): run class by class, so that only the calls of
                # the looping method are reported (as 'timeout')
                results.clear()
                for c in good:
                    try:
                        r = subprocess.run(java + [c], capture_output=True, text=True, timeout=CLASS_TIMEOUT)
                        collect(r.stdout)
                    except subprocess.TimeoutExpired as e:
                        out = e.stdout.decode("utf-8", "replace") if isinstance(e.stdout, bytes) else e.stdout
                        collect(out)
                        for key, _, _, _ in calls.get(c, []):
                            results.setdefault(key, "timeout")
                        log += "%s: no result after %ds; " % (c, CLASS_TIMEOUT)
        return dict(errors), results, log
    finally:
        shutil.rmtree(work, ignore_errors=True)
