"""Java integer expression -> z3 bit-vector term (JLS §15: binary numeric promotion, shift
distance masking, integer division truncating toward zero, narrowing/widening casts), and the
Dalvik semantics of the arithmetic opcodes (Dalvik bytecode document).  Used to decide
'the printed expression computes what the opcode computes' for all operand values."""
import re

import z3

TOK = re.compile(r"\s*(>>>|>>|<<|[-+*/%&|^~()]|\d+L?|[A-Za-z_][A-Za-z_0-9]*)")


def tokens(s):
    out, pos = [], 0
    s = s.strip()
    while pos < len(s):
        m = TOK.match(s, pos)
        if not m:
            raise ValueError("cannot tokenise %r at %d" % (s, pos))
        out.append(m.group(1))
        pos = m.end()
    return out


def _promote(a, ta, b, tb):
    if ta == "J" or tb == "J":
        return (a if ta == "J" else z3.SignExt(32, a)), (b if tb == "J" else z3.SignExt(32, b)), "J"
    return a, b, "I"


class Parser:
    """precedence climbing over the fully parenthesised text the writer emits (still handles precedence)"""
    PREC = {"*": 10, "/": 10, "%": 10, "+": 9, "-": 9, "<<": 8, ">>": 8, ">>>": 8, "&": 5, "^": 4, "|": 3}

    def __init__(self, toks, env):
        self.t, self.i, self.env = toks, 0, env

    def peek(self):
        return self.t[self.i] if self.i < len(self.t) else None

    def next(self):
        x = self.t[self.i]
        self.i += 1
        return x

    def expr(self, minp=0):
        a, ta = self.unary()
        while self.peek() in self.PREC and self.PREC[self.peek()] >= minp:
            op = self.next()
            b, tb = self.expr(self.PREC[op] + 1)
            a, ta = self.binop(op, a, ta, b, tb)
        return a, ta

    def binop(self, op, a, ta, b, tb):
        if op in ("<<", ">>", ">>>"):
            w = 64 if ta == "J" else 32
            mask = 0x3F if ta == "J" else 0x1F
            d = b if tb == ("J" if w == 64 else "I") else (z3.SignExt(32, b) if w == 64 else z3.Extract(31, 0, b))
            d = d & mask
            return {"<<": a << d, ">>": a >> d, ">>>": z3.LShR(a, d)}[op], ta
        a, b, t = _promote(a, ta, b, tb)
        f = {"+": lambda: a + b, "-": lambda: a - b, "*": lambda: a * b, "/": lambda: a / b, "%": lambda: z3.SRem(a, b),
             "&": lambda: a & b, "|": lambda: a | b, "^": lambda: a ^ b}[op]
        return f(), t

    def unary(self):
        x = self.peek()
        if x == "-":
            self.next()
            a, t = self.unary()
            return -a, t
        if x == "~":
            self.next()
            a, t = self.unary()
            return ~a, t
        if x == "(":
            # cast or parenthesised expression (the writer prints casts as "((type) expr)" or "(type expr)")
            if self.t[self.i + 1] in ("long", "int", "byte", "short", "char") and self.t[self.i + 2] == ")":
                ty = self.t[self.i + 1]
                self.i += 3
                a, t = self.unary()
                return self.cast(ty, a, t)
            self.next()
            if self.peek() == "(" and self.t[self.i + 1] in ("long", "int", "byte", "short", "char") and self.t[self.i + 2] == ")":
                a, t = self.expr()
            else:
                a, t = self.expr()
            if self.next() != ")":
                raise ValueError("expected )")
            return a, t
        self.next()
        if re.fullmatch(r"\d+L?", x):
            if x.endswith("L"):
                return z3.BitVecVal(int(x[:-1]), 64), "J"
            return z3.BitVecVal(int(x), 32), "I"
        if x not in self.env:
            raise ValueError("unknown identifier %r" % x)
        return self.env[x]

    def cast(self, ty, a, t):
        if ty == "long":
            return (a if t == "J" else z3.SignExt(32, a)), "J"
        lo = a if t == "I" else z3.Extract(31, 0, a)
        if ty == "int":
            return lo, "I"
        if ty == "byte":
            return z3.SignExt(24, z3.Extract(7, 0, lo)), "I"
        if ty == "short":
            return z3.SignExt(16, z3.Extract(15, 0, lo)), "I"
        return z3.ZeroExt(16, z3.Extract(15, 0, lo)), "I"


def parse(text, env):
    p = Parser(tokens(text), env)
    a, t = p.expr()
    if p.peek() is not None:
        raise ValueError("trailing tokens in %r" % text)
    return a, t


# ---------------------------------------------------------------------------------------------
# Dalvik semantics: op -> (operand kinds, result type, function)

def _sh(w):
    return 0x3F if w == 64 else 0x1F


def _bin(w):
    def dist(b):
        return (z3.ZeroExt(32, b) if w == 64 else b) & _sh(w)
    return {
        "add": lambda a, b: a + b, "sub": lambda a, b: a - b, "mul": lambda a, b: a * b, "div": lambda a, b: a / b,
        "rem": lambda a, b: z3.SRem(a, b), "and": lambda a, b: a & b, "or": lambda a, b: a | b, "xor": lambda a, b: a ^ b,
        "shl": lambda a, b: a << dist(b), "shr": lambda a, b: a >> dist(b), "ushr": lambda a, b: z3.LShR(a, dist(b)),
    }


BIN_NAMES = ["add", "sub", "mul", "div", "rem", "and", "or", "xor", "shl", "shr", "ushr"]


def table():
    """op -> dict(form, type 'I'/'J', name, fn) for the integer arithmetic subset of the statement"""
    t = {}
    for i, n in enumerate(BIN_NAMES):
        t[0x90 + i] = dict(form="23x", ty="I", name=n + "-int", fn=_bin(32)[n], shift=n in ("shl", "shr", "ushr"))
        t[0x9B + i] = dict(form="23x", ty="J", name=n + "-long", fn=_bin(64)[n], shift=n in ("shl", "shr", "ushr"))
        t[0xB0 + i] = dict(form="12x", ty="I", name=n + "-int/2addr", fn=_bin(32)[n], shift=n in ("shl", "shr", "ushr"))
        t[0xBB + i] = dict(form="12x", ty="J", name=n + "-long/2addr", fn=_bin(64)[n], shift=n in ("shl", "shr", "ushr"))
    lit16 = ["add", "rsub", "mul", "div", "rem", "and", "or", "xor"]
    for i, n in enumerate(lit16):
        t[0xD0 + i] = dict(form="22s", ty="I", name=n + "-int/lit16", fn=(lambda a, b: b - a) if n == "rsub" else _bin(32)[n], shift=False)
    lit8 = ["add", "rsub", "mul", "div", "rem", "and", "or", "xor", "shl", "shr", "ushr"]
    for i, n in enumerate(lit8):
        t[0xD8 + i] = dict(form="22b", ty="I", name=n + "-int/lit8", fn=(lambda a, b: b - a) if n == "rsub" else _bin(32)[n],
                           shift=n in ("shl", "shr", "ushr"))
    t[0x7B] = dict(form="un", ty="I", name="neg-int", fn=lambda a: -a)
    t[0x7C] = dict(form="un", ty="I", name="not-int", fn=lambda a: ~a)
    t[0x7D] = dict(form="un", ty="J", name="neg-long", fn=lambda a: -a)
    t[0x7E] = dict(form="un", ty="J", name="not-long", fn=lambda a: ~a)
    t[0x81] = dict(form="cast", src="I", ty="J", name="int-to-long", fn=lambda a: z3.SignExt(32, a))
    t[0x84] = dict(form="cast", src="J", ty="I", name="long-to-int", fn=lambda a: z3.Extract(31, 0, a))
    t[0x8D] = dict(form="cast", src="I", ty="I", name="int-to-byte", fn=lambda a: z3.SignExt(24, z3.Extract(7, 0, a)))
    t[0x8E] = dict(form="cast", src="I", ty="I", name="int-to-char", fn=lambda a: z3.ZeroExt(16, z3.Extract(15, 0, a)))
    t[0x8F] = dict(form="cast", src="I", ty="I", name="int-to-short", fn=lambda a: z3.SignExt(16, z3.Extract(15, 0, a)))
    return t
