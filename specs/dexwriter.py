"""Independent DEX writer (DEX format 035): header, id tables, class_defs, class_data_item with
index-diff encoding, code_item, type_list, string_data_item (MUTF-8), map_list, SHA-1 and
Adler-32.  Used to generate files whose declared structure is known (C05, C21)."""
import hashlib
import struct
import zlib

NO_INDEX = 0xFFFFFFFF


def uleb(v):
    out = bytearray()
    while True:
        b = v & 0x7F
        v >>= 7
        if v:
            out.append(b | 0x80)
        else:
            out.append(b)
            return bytes(out)


def mutf8(s):
    out = bytearray()
    units = []
    for ch in s:
        o = ord(ch)
        if o > 0xFFFF:
            o -= 0x10000
            units += [0xD800 + (o >> 10), 0xDC00 + (o & 0x3FF)]
        else:
            units.append(o)
    for u in units:
        if u != 0 and u < 0x80:
            out.append(u)
        elif u < 0x800:
            out += bytes([0xC0 | (u >> 6), 0x80 | (u & 0x3F)])
        else:
            out += bytes([0xE0 | (u >> 12), 0x80 | ((u >> 6) & 0x3F), 0x80 | (u & 0x3F)])
    return uleb(len(units)) + bytes(out) + b"\0"


def shorty(ret, params):
    f = lambda t: "L" if t[0] in "L[" else t
    return f(ret) + "".join(f(p) for p in params)


def write(classes):
    """classes: list of dict(name, access, super, interfaces, source, sfields, ifields, dmethods, vmethods)
    field = (name, type, access); method = (name, ret, [params], access, code|None); code = dict(registers, ins, outs, insns)"""
    strings, types, protos, fields, methods = set(), set(), set(), set(), set()
    for c in classes:
        types.update([c["name"]] + ([c["super"]] if c.get("super") else []) + list(c.get("interfaces", [])))
        if c.get("source"):
            strings.add(c["source"])
        for key in ("sfields", "ifields"):
            for (n, t, a) in c.get(key, []):
                fields.add((c["name"], n, t))
                types.add(t)
                strings.add(n)
        for key in ("dmethods", "vmethods"):
            for (n, ret, params, a, code) in c.get(key, []):
                protos.add((ret, tuple(params)))
                methods.add((c["name"], n, (ret, tuple(params))))
                strings.add(n)
    # items referenced from code only (invoked / accessed / loaded, possibly external): c["refs"] = dict(strings=[...], types=[...],
    # fields=[(class, name, type)], methods=[(class, name, (ret, (params...)))])
    for c in classes:
        r = c.get("refs") or {}
        strings.update(r.get("strings", []))
        types.update(r.get("types", []))
        for (fc, fn, ft) in r.get("fields", []):
            fields.add((fc, fn, ft))
            types.update([fc, ft])
            strings.add(fn)
        for (mc, mn, (ret, params)) in r.get("methods", []):
            protos.add((ret, tuple(params)))
            methods.add((mc, mn, (ret, tuple(params))))
            types.add(mc)
            strings.add(mn)
    for ret, params in protos:
        types.add(ret)
        types.update(params)
        strings.add(shorty(ret, params))
    strings.update(types)
    utf16key = lambda s: s.encode("utf-16-be", "surrogatepass")
    S = sorted(strings, key=utf16key)
    si = {s: i for i, s in enumerate(S)}
    T = sorted(types, key=lambda t: si[t])
    ti = {t: i for i, t in enumerate(T)}
    P = sorted(protos, key=lambda p: (ti[p[0]], [ti[x] for x in p[1]]))
    pi = {p: i for i, p in enumerate(P)}
    F = sorted(fields, key=lambda f: (ti[f[0]], si[f[1]], ti[f[2]]))
    fi = {f: i for i, f in enumerate(F)}
    M = sorted(methods, key=lambda m: (ti[m[0]], si[m[1]], pi[m[2]]))
    mi = {m: i for i, m in enumerate(M)}

    off = 0x70
    string_ids_off = off
    off += 4 * len(S)
    type_ids_off = off
    off += 4 * len(T)
    proto_ids_off = off
    off += 12 * len(P)
    field_ids_off = off
    off += 8 * len(F)
    method_ids_off = off
    off += 8 * len(M)
    class_defs_off = off
    off += 32 * len(classes)
    data_off = off
    data = bytearray()

    def align(n):
        while (data_off + len(data)) % n:
            data.append(0)

    def here():
        return data_off + len(data)
    # type lists
    tl_off, tl_items = {}, []
    lists = sorted({tuple(p[1]) for p in P if p[1]} | {tuple(c.get("interfaces", [])) for c in classes if c.get("interfaces")})
    for l in lists:
        align(4)
        tl_off[l] = here()
        tl_items.append(here())
        data += struct.pack("<I", len(l)) + b"".join(struct.pack("<H", ti[t]) for t in l)
    # code items
    code_off, code_items = {}, []
    for c in classes:
        for key in ("dmethods", "vmethods"):
            for (n, ret, params, a, code) in c.get(key, []):
                if code is None:
                    continue
                align(4)
                k = (c["name"], n, (ret, tuple(params)))
                code_off[k] = here()
                code_items.append(here())
                insns = code["insns"]
                if callable(insns):       # code that refers to pool indices: assembled once the indices are known
                    insns = insns(dict(strings=si, types=ti, fields=fi, methods=mi))
                data += struct.pack("<HHHHII", code["registers"], code["ins"], code["outs"], 0, 0, len(insns) // 2) + insns
    # class data
    cd_off, cd_items = {}, []
    for c in classes:
        groups = []
        for key in ("sfields", "ifields"):
            lst = sorted(c.get(key, []), key=lambda f: fi[(c["name"], f[0], f[1])])
            groups.append([("f", fi[(c["name"], f[0], f[1])], f[2], None) for f in lst])
        for key in ("dmethods", "vmethods"):
            lst = sorted(c.get(key, []), key=lambda m: mi[(c["name"], m[0], (m[1], tuple(m[2])))])
            groups.append([("m", mi[(c["name"], m[0], (m[1], tuple(m[2])))], m[3], code_off.get((c["name"], m[0], (m[1], tuple(m[2]))), 0)) for m in lst])
        if not any(groups):
            continue
        cd_off[c["name"]] = here()
        cd_items.append(here())
        data += b"".join(uleb(len(g)) for g in groups)
        for g in groups:
            prev = 0
            for kind, idx, acc, co in g:
                data += uleb(idx - prev) + uleb(acc) + (uleb(co) if kind == "m" else b"")
                prev = idx
    # string data
    sd_off = []
    for s in S:
        sd_off.append(here())
        data += mutf8(s)
    align(4)
    map_off = here()
    sections = [(0x0000, 1, 0), (0x0001, len(S), string_ids_off), (0x0002, len(T), type_ids_off), (0x0003, len(P), proto_ids_off),
                (0x0004, len(F), field_ids_off), (0x0005, len(M), method_ids_off), (0x0006, len(classes), class_defs_off),
                (0x1001, len(tl_items), tl_items[0] if tl_items else 0), (0x2001, len(code_items), code_items[0] if code_items else 0),
                (0x2000, len(cd_items), cd_items[0] if cd_items else 0), (0x2002, len(S), sd_off[0] if sd_off else 0), (0x1000, 1, map_off)]
    sections = sorted([s for s in sections if s[1]], key=lambda x: x[2])
    data += struct.pack("<I", len(sections)) + b"".join(struct.pack("<HHII", t, 0, n, o) for t, n, o in sections)
    # id tables
    ids = bytearray()
    ids += b"".join(struct.pack("<I", o) for o in sd_off)
    ids += b"".join(struct.pack("<I", si[t]) for t in T)
    ids += b"".join(struct.pack("<III", si[shorty(*p)], ti[p[0]], tl_off.get(tuple(p[1]), 0)) for p in P)
    ids += b"".join(struct.pack("<HHI", ti[f[0]], ti[f[2]], si[f[1]]) for f in F)
    ids += b"".join(struct.pack("<HHI", ti[m[0]], pi[m[2]], si[m[1]]) for m in M)
    for c in classes:
        ids += struct.pack("<IIIIIIII", ti[c["name"]], c.get("access", 1), ti[c["super"]] if c.get("super") else NO_INDEX,
                           tl_off.get(tuple(c.get("interfaces", [])), 0), si[c["source"]] if c.get("source") else NO_INDEX, 0,
                           cd_off.get(c["name"], 0), 0)
    file_size = data_off + len(data)
    hdr = struct.pack("<8sI20sIIIIII", b"dex\n035\0", 0, b"\0" * 20, file_size, 0x70, 0x12345678, 0, 0, map_off)
    hdr += struct.pack("<IIIIIIIIIIII", len(S), string_ids_off if S else 0, len(T), type_ids_off if T else 0, len(P), proto_ids_off if P else 0,
                       len(F), field_ids_off if F else 0, len(M), method_ids_off if M else 0, len(classes), class_defs_off if classes else 0)
    hdr += struct.pack("<II", len(data), data_off)
    assert len(hdr) == 0x70, len(hdr)
    out = bytearray(hdr + ids + data)
    out[12:32] = hashlib.sha1(bytes(out[32:])).digest()
    struct.pack_into("<I", out, 8, zlib.adler32(bytes(out[12:])) & 0xFFFFFFFF)
    return bytes(out)
