#!/bin/sh
# usage: tools/record_seed.sh <seed id> <check id> [history text]
# runs ./check <check id> on a scratch copy of /repo/androguard with seeded/<seed id>/patch.diff applied and records the
# failed obligations in seeded/<seed id>/meta.json (caught_by, failed_obligations, history)
N=$1; P=$2; H=${3:-caught at first run by the quick tier}
S=/dev/shm/seedrec_$N; rm -rf $S; mkdir -p $S; rsync -a /repo/androguard $S/
(cd $S && patch -p1 -s < /verif/seeded/$N/patch.diff) || { echo "patch does not apply"; exit 2; }
cd /verif
VERIF_REPO=$S VERIF_OUT=/dev/shm/seedout_$N timeout 1500 ./check $P 2>&1 | grep "^VIOLATION" > /tmp/viol_$N.txt
rm -rf $S /dev/shm/seedout_$N
HIST="$H" .venv/bin/python - "$N" "$P" <<'PY'
import json, os, sys
N, P = sys.argv[1:3]
p = f'seeded/{N}/meta.json'; m = json.load(open(p))
v = [l.split('obligation=')[1].strip() for l in open(f'/tmp/viol_{N}.txt') if 'obligation=' in l]
m['confirmed_by_me'] = {"demo": "tools/try_seed.sh: demo.py exits 1 with patch.diff applied and 0 on the unchanged tree (sub-agent's scratch worktree)",
                        "tests": "see tests_confirmed.txt (tools/confirm_seed_tests.sh, fresh worktree)",
                        "checks_run": f"patch applied to a scratch copy of /repo/androguard (VERIF_REPO), ./check {P} run there"}
m['caught_by'] = sorted(set(f"{P} " + x.split('::')[0] for x in v))
m['failed_obligations'] = v[:6]
m['history'] = os.environ['HIST']
json.dump(m, open(p, 'w'), indent=1)
print(N, "caught_by", m['caught_by'])
PY
