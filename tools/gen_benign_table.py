"""benign/README.md: one line per behaviour-preserving patch and what the property's check said about it.
usage: tools/gen_benign_table.py <result files of tools/run_benign_batch.sh ...>   (later files override earlier ones)"""
import glob
import os
import re
import sys

res = {}
for f in sys.argv[1:]:
    for line in open(f):
        m = re.match(r"(C\d\d_\d) (C\d\d) exit=(\d+) violations=(\d+) undecided=(\d+)(?: degraded=(\d+))?", line)
        if m:
            res[(m.group(1), m.group(2))] = (int(m.group(3)), int(m.group(4)), int(m.group(5)), int(m.group(6) or 0))
        m = re.match(r"(C\d\d_\d): patch does not apply", line)
        if m:
            res.setdefault((m.group(1), m.group(1)[:3]), "n/a")
rows = []
for p in sorted(glob.glob(os.path.join(os.path.dirname(__file__), "..", "benign", "*.diff"))):
    n = os.path.basename(p)[:-5]
    files = sorted(set(re.findall(r"^\+\+\+ b/(\S+)", open(p).read(), re.M)))
    adds = sum(1 for l in open(p) if l.startswith("+") and not l.startswith("+++"))
    dels = sum(1 for l in open(p) if l.startswith("-") and not l.startswith("---"))
    r = res.get((n, n[:3]))
    if r is None:
        verdict = "not run"
    elif r == "n/a":
        verdict = "does not apply to the repaired tree (conflicts with a later fix: commit)"
    else:
        rc, v, u, d = r
        verdict = "exit %d" % rc + (", %d VIOLATION (false alarm)" % v if v else "") + (", %d undecided" % u if u else "") + \
                  (", %d unit(s) degraded (not proved, concrete executions passed)" % d if d else "")
    rows.append("| %s | %s | +%d −%d | %s |" % (n, ", ".join(os.path.basename(os.path.dirname(x)) + "/" + os.path.basename(x) for x in files), adds, dels, verdict))
out = ["# Behaviour-preserving patches (false-alarm test)", "",
       "Produced by independent sub-agents from the property texts only (tools/benign_task_template.md): two per property (six for",
       "C21), a light and a heavy one, each with a differential self-test against the original source and the pinned test suite",
       "unchanged. `tools/try_benign.sh <patch> <property>` applies one to a scratch copy of /repo and runs the property's quick check;",
       "the table shows the result on the final machinery. Expected: exit 0 everywhere. History of what failed at first: DESIGN.md §9.", "",
       "| patch | files | size | result of the property's check |", "|---|---|---|---|"] + rows
open(os.path.join(os.path.dirname(__file__), "..", "benign", "README.md"), "w").write("\n".join(out) + "\n")
print(len(rows), "patches")
