#!/bin/sh
# confirms that the pinned test suite still passes with a seeded change applied (scratch worktree, removed afterwards)
N=$1
WT=/tmp/cs_$N
git -C /repo worktree add -q --detach $WT HEAD || exit 3
cd $WT && git apply /verif/seeded/$N/patch.diff && /venv/bin/python -m pytest -q -p no:cacheprovider --timeout=900 tests 2>&1 | tail -1 > /verif/seeded/$N/tests_confirmed.txt
cd / && git -C /repo worktree remove --force $WT
