#!/usr/bin/env python3
"""Regenerates MANIFEST.json from the META blocks of contracts/Cxx.py (claimed properties)
and the NOT_YET / NOT_APPLICABLE tables below.  Run: .venv/bin/python tools/gen_manifest.py"""
import importlib
import json
import os
import sys

HERE = os.path.dirname(os.path.dirname(os.path.abspath(__file__)))
sys.path.insert(0, HERE)
sys.path.insert(1, "/repo")

NOT_APPLICABLE = {
    "C22": "2-safety over hash seeds / allocator layouts / process history: not state a per-call contract can mention; "
           "a refutation could not be replayed (DESIGN §8)",
}

BASE_CMD = "cd /repo && /venv/bin/python -m pytest -ra -q -p no:cacheprovider --timeout=900 --continue-on-collection-errors"


def main():
    props = [json.loads(l) for l in open(os.path.join(HERE, "properties.jsonl"))]
    checks, na = [], []
    for p in props:
        pid = p["id"]
        path = os.path.join(HERE, "contracts", pid + ".py")
        if pid in NOT_APPLICABLE:
            na.append({"property_id": pid, "reason": NOT_APPLICABLE[pid]})
            continue
        if not os.path.exists(path):
            na.append({"property_id": pid, "reason": "no contract unit verifies yet for this property (work in progress, see DESIGN §9)"})
            continue
        mod = importlib.import_module("contracts." + pid)
        M = getattr(mod, "META", {})
        level = M.get("level", "proof")
        checks.append({
            "property_id": pid,
            "quick_cmd": "./check %s --tier quick" % pid,
            "thorough_cmd": "./check %s --tier thorough" % pid,
            "evidence_file": "evidence/%s.json" % pid,
            "replay_cmd_template": "./check %s --replay {path}" % pid,
            "engine": "pyvc",
            "level_claimed": {"category": level, "text": M.get("level_text", ""), "design_ref": "DESIGN.md §7 " + pid},
            "level_note": M.get("level_note", "; ".join(M.get("trusted", []))),
            "technique": M.get("technique", "contract-based deductive verification: path-wise symbolic execution of the real "
                                            "functions against sidecar contracts, VCs discharged by z3 (cvc5 second)"),
        })
    man = {
        "version": 1,
        "setup_cmd": "sh ./setup.sh",
        "hooks": {"guard": "ANDROGUARD_VERIF", "enable": "none needed: contracts are sidecar, the checks read /repo's working tree",
                  "baseline_off_cmd": BASE_CMD, "source_commits": [], "add_only": True},
        "engines": [{"name": "pyvc", "path": "pyvc/", "serves_properties": [c["property_id"] for c in checks],
                     "kind_free_text": "home-built VC generator: the current source of /repo is re-compiled on every run and executed "
                                       "path-wise on symbolic proxies (bit-vector ints, symbolic bytes/streams/strings, struct model); "
                                       "contract units (contracts/Cxx.py) state pre/postconditions against dual spec functions (specs/); "
                                       "obligations discharged by z3 5.1 with cvc5 as second solver; counter-models replayed on the imported real module"}],
        "checks": checks,
        "not_applicable": na,
        "notes": "Exit codes of ./check: 0 held, 1 VIOLATION (replay file), 2 undecided (solver unknown / unsupported construct / "
                 "binding failure; never a violation), 3 checker crash. Known findings: known_findings.json.",
    }
    with open(os.path.join(HERE, "MANIFEST.json"), "w") as f:
        json.dump(man, f, indent=1)
    import jsonschema
    jsonschema.validate(man, json.load(open("/root/.vp/MANIFEST.schema.json")))
    print("MANIFEST.json: %d checks, %d not_applicable" % (len(checks), len(na)))


if __name__ == "__main__":
    main()
