"""writes seeded/README.md: one line per kept seeded change (from seeded/*/meta.json)"""
import glob
import json
import re

rows, missed, total = [], 0, 0
for d in sorted(glob.glob('seeded/*/meta.json')):
    sid = d.split('/')[1]
    m = json.load(open(d))
    summ = re.split(r'(?<=[.;:])\s', m.get('summary', '').replace('\n', ' '))
    summ = (summ[0] if len(summ[0]) > 40 or len(summ) == 1 else summ[0] + ' ' + summ[1])[:220]
    needs = m.get('needs', '').replace('\n', ' ')[:160]
    hist = m.get('history', '')
    units = sorted({c.split('[')[0].split('::')[0] for c in m.get('caught_by', [])})
    first = 'missed at first, caught after strengthening' if hist.startswith('MISSED') else 'caught at first run'
    total += 1
    missed += hist.startswith('MISSED')
    rows.append('| %s | %s | %s | %s | %s |' % (sid, m.get('property'), summ.replace('|', '/'), needs.replace('|', '/'), first + ': ' + ', '.join(units[:4])))
out = ['# Seeded breaking changes (independent sub-agents)', '',
       'Each directory holds `patch.diff` (applies to /repo at the commit it was made for), `demo.py` (exits 1 with the change, 0 without),',
       '`meta.json` (property, what it needs to manifest, what was run, which obligations fail) and `tests_confirmed.txt` (pinned suite with the change).',
       'Suffix b / c: second / third change for the same property (rounds 2 and 3). %d changes; %d were missed when first tried and are caught after the' % (total, missed),
       'strengthening recorded in `meta.json` (`history`) and DESIGN.md §9.', '',
       '| seed | property | change | needs | result |', '|---|---|---|---|---|'] + rows
open('seeded/README.md', 'w').write('\n'.join(out) + '\n')
print(total, 'seeds,', missed, 'missed at first')
