#!/bin/sh
# usage: tools/mk_seed_wt.sh <round tag, e.g. r2> <property ids...>
# creates a scratch worktree /tmp/seed_<tag>_<id> of /repo HEAD for an independent sub-agent, with only the property text
# and (to get a different change) the one-paragraph summary of changes already kept for that property.
TAG=$1; shift
for P in "$@"; do
  WT=/tmp/seed_${TAG}_$P
  git -C /repo worktree add -q --detach $WT HEAD || continue
  mkdir -p $WT/_seed
  /venv/bin/python - "$P" "$WT" <<'PY'
import json, sys, glob
P, WT = sys.argv[1:3]
for l in open('/verif/properties.jsonl'):
    p = json.loads(l)
    if p['id'] == P:
        open(WT + '/_seed/PROPERTY.json', 'w').write(json.dumps({k: p[k] for k in ('id', 'title', 'statement', 'quantifier', 'why_tests_cant', 'anchors') if k in p}, indent=1))
prev = []
for d in sorted(glob.glob(f'/verif/seeded/{P}*/meta.json')):
    prev.append(json.load(open(d)).get('summary', ''))
open(WT + '/_seed/ALREADY_DONE.txt', 'w').write('\n\n'.join(prev))
PY
  echo $WT
done
