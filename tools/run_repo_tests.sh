#!/bin/sh
# runs the repository's pinned test suite on a scratch worktree of /repo HEAD (or the ref given), then removes it
REF=${1:-HEAD}
WT=/tmp/wt_tests_$$
git -C /repo worktree add -q --detach $WT $REF || exit 3
cd $WT && /venv/bin/python -m pytest -ra -q -p no:cacheprovider --timeout=900 --continue-on-collection-errors 2>&1 | tail -25
cd / && git -C /repo worktree remove --force $WT
