#!/bin/sh
# usage: tools/mk_benign_wt.sh <tag> <property ids...>   -> one scratch worktree /tmp/benign_<tag> holding the property texts
TAG=$1; shift
WT=/tmp/benign_$TAG
git -C /repo worktree add -q --detach $WT HEAD || exit 1
mkdir -p $WT/_benign
/venv/bin/python - "$WT" "$@" <<'PY'
import json, sys
WT, ids = sys.argv[1], sys.argv[2:]
out = []
for l in open('/verif/properties.jsonl'):
    p = json.loads(l)
    if p['id'] in ids:
        out.append({k: p[k] for k in ('id', 'title', 'statement', 'anchors') if k in p})
open(WT + '/_benign/PROPERTIES.json', 'w').write(json.dumps(out, indent=1))
PY
sed "s#@WT@#$WT#g" /verif/tools/${BENIGN_TEMPLATE:-benign_task_template.md} > $WT/_benign/TASK.md
echo $WT
