#!/bin/sh
# usage: tools/run_benign_batch.sh <dir with *.diff> [parallelism]   -> copies the patches to /verif/benign/ and runs each against its property's check
D=$1; J=${2:-4}
mkdir -p /verif/benign /dev/shm/blog
for f in $D/*.diff; do cp $f /verif/benign/; done
ls $D/*.diff | xargs -P $J -I{} sh -c 'f={}; n=$(basename $f .diff); p=$(echo $n | cut -c1-3); /verif/tools/try_benign.sh /verif/benign/$n.diff $p > /dev/shm/blog/$n.log 2>&1'
cat $(ls $D/*.diff | sed "s#.*/\(.*\)\.diff#/dev/shm/blog/\1.log#")
