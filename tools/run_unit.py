"""debug helper: run one unit / one parameter index in-process and print its result summary
usage: PYTHONPATH=/verif:/repo .venv/bin/python tools/run_unit.py C06 null_terminated_unbounded 9 [quick]"""
import json
import sys
import time

from pyvc import runner

prop, uname, pidx = sys.argv[1], sys.argv[2], int(sys.argv[3])
tier = sys.argv[4] if len(sys.argv) > 4 else "quick"
t0 = time.time()
r = runner.job((prop, uname, pidx, tier, 0))
print("status", r["status"], "paths", r["paths"], "obligations", len(r["obligations"]), "solver_s", r["solver_s"], "calls", r["solver_calls"],
      "samples", r["samples"], "wall", round(time.time() - t0, 1))
if r["error"]:
    print("error:", r["error"][-1500:])
bad = [o for o in r["obligations"] if o["status"] != "discharged"]
for o in bad[:8]:
    print(json.dumps({k: o[k] for k in ("label", "status", "path", "model", "reason")})[:600])
for f in r["sample_failures"][:3]:
    print("sample failure:", json.dumps(f)[:500])
for rp in r["replays"][:5]:
    print("replay:", json.dumps(rp)[:400])
from collections import defaultdict
agg = defaultdict(lambda: [0, 0.0, 0.0])
for o in r["obligations"]:
    a = agg[o["label"]]
    a[0] += 1
    a[1] += o["time"]
    a[2] = max(a[2], o["time"])
for k, a in sorted(agg.items(), key=lambda kv: -kv[1][1])[:8]:
    print("%6.1fs total %5.2fs max  n=%d  %s" % (a[1], a[2], a[0], k[:100]))
