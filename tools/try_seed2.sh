#!/bin/sh
# usage: tools/try_seed2.sh <seed id, e.g. C28b> <sub-agent worktree> <property ids to check...>
# 1. confirms the demo (exit 1 with the change, 0 without) in the sub-agent's scratch worktree
# 2. copies patch/demo/meta to /verif/seeded/<id>/
# 3. applies the patch to a scratch copy of /repo/androguard and runs the given checks there (quick tier)
N=$1; WT=$2; shift; shift
[ -d $WT/_seed ] || { echo "no seed in $WT"; exit 2; }
cd $WT || exit 2
git diff -- androguard > /tmp/seed_cur_$N.diff
cmp -s /tmp/seed_cur_$N.diff _seed/patch.diff || echo "NOTE: worktree diff differs from _seed/patch.diff (using patch.diff)"
git checkout -q -- androguard; /venv/bin/python _seed/demo.py >/tmp/demo_$N.without 2>&1; WO=$?
git apply _seed/patch.diff || { echo "patch does not apply"; exit 2; }
/venv/bin/python _seed/demo.py >/tmp/demo_$N.with 2>&1; W=$?
echo "demo: with change exit=$W, without exit=$WO"
mkdir -p /verif/seeded/$N; cp _seed/patch.diff _seed/demo.py _seed/meta.json /verif/seeded/$N/ 2>/dev/null
S=/dev/shm/seedrun_$N; rm -rf $S; mkdir -p $S; rsync -a /repo/androguard $S/
(cd $S && patch -p1 -s < /verif/seeded/$N/patch.diff) || { echo "patch does not apply to /repo copy"; exit 2; }
cd /verif
for P in "$@"; do
  VERIF_REPO=$S VERIF_OUT=/dev/shm/seedout_$N timeout 1500 ./check $P > /tmp/seedchk_${N}_$P.log 2>&1; echo "$P exit=$?"
  grep "^VIOLATION" /tmp/seedchk_${N}_$P.log | sed 's/replay=[^ ]* //' | cut -c1-220 | head -8
done
rm -rf $S /dev/shm/seedout_$N
