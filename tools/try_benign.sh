#!/bin/sh
# usage: tools/try_benign.sh <patch file> <property ids to check...>
# applies a behaviour-preserving patch to a scratch copy of /repo/androguard and runs the given checks (quick tier) there;
# prints one line per check:  <patch> <prop> exit=<n> violations=<k> undecided=<u>
PATCHF=$1; shift
N=$(basename $PATCHF .diff)
S=/dev/shm/benign_$N; rm -rf $S; mkdir -p $S; rsync -a /repo/androguard $S/
(cd $S && patch -p1 -s --no-backup-if-mismatch < $PATCHF) || { echo "$N: patch does not apply"; rm -rf $S; exit 2; }
cd /verif
for P in "$@"; do
  VERIF_REPO=$S VERIF_OUT=/dev/shm/benignout_$N timeout 2400 ./check $P > /dev/shm/benignchk_${N}_$P.log 2>&1; RC=$?
  echo "$N $P exit=$RC $(tail -1 /dev/shm/benignchk_${N}_$P.log | grep -oE 'violations=[0-9]+ undecided=[0-9]+( degraded=[0-9]+)?')"
  [ $RC -ne 0 ] && grep -E "^(VIOLATION|UNDECIDED|CRASH|NOTE)" /dev/shm/benignchk_${N}_$P.log | sed 's/replay=[^ ]* //' | cut -c1-260 | head -6
done
rm -rf $S /dev/shm/benignout_$N
