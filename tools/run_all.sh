#!/bin/sh
# usage: tools/run_all.sh [quick|thorough] [parallel checks, default 3]
# every claimed check on the unchanged tree, strict (a degraded proof unit counts as undecided); one summary line per property
TIER=${1:-quick}; J=${2:-3}
cd /verif
IDS=$(python3 -c "import json; print(' '.join(c['property_id'] for c in json.load(open('MANIFEST.json'))['checks']))" 2>/dev/null)
[ -n "$IDS" ] || IDS=$(python3 -c "import json; m=json.load(open('MANIFEST.json')); print(' '.join(sorted(p['id'] for p in m.get('properties', []))))")
echo $IDS | tr ' ' '\n' | xargs -P $J -I{} sh -c 'VERIF_STRICT=1 ./check {} --tier '$TIER' > /dev/shm/runall_{}.log 2>&1; echo "{} rc=$? $(tail -1 /dev/shm/runall_{}.log)"' | sort
grep -h "^VIOLATION\|^UNDECIDED\|^CHECKER\|^DEGRADED" /dev/shm/runall_C*.log | cut -c1-300
