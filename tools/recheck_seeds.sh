#!/bin/sh
# re-runs, for every kept seed, the check(s) that caught it (meta.json caught_by) on a scratch copy with the patch applied;
# prints one line per seed: caught / NOT CAUGHT / patch does not apply.   usage: tools/recheck_seeds.sh [parallel, default 4]
cd /verif
J=${1:-4}
one() {
  N=$1; d=seeded/$N
  PS=$(.venv/bin/python -c "
import json,sys
m=json.load(open('$d/meta.json'))
ps=sorted({c.split()[0] for c in m.get('caught_by',[]) if c.split() and c.split()[0].startswith('C')}) or [m['property']]
print(' '.join(ps[:2]))")
  S=/dev/shm/recheck_$N; rm -rf $S; mkdir -p $S; rsync -a /repo/androguard $S/
  if ! (cd $S && patch -p1 -s < /verif/$d/patch.diff) >/dev/null 2>&1; then echo "$N: patch does not apply"; rm -rf $S; return; fi
  R=""
  for P in $PS; do
    n=$(VERIF_REPO=$S VERIF_OUT=/dev/shm/recheck_out_$N timeout 2400 ./check $P 2>&1 | grep -c "^VIOLATION")
    R="$R $P=$n"
  done
  rm -rf $S /dev/shm/recheck_out_$N
  case "$R" in *=[1-9]*) echo "$N: caught$R";; *) echo "$N: NOT CAUGHT$R";; esac
}
if [ -n "$2" ]; then one $2; exit; fi
ls seeded | grep -v README | xargs -P $J -I{} sh $0 $J {}
