#!/bin/sh
# usage: tools/try_seed.sh <seed dir name, e.g. C27> <property ids to check...>
# 1. confirms the demo (fails with the change, passes without) in the sub-agent's scratch worktree
# 2. copies patch/demo/meta to /verif/seeded/<name>/
# 3. applies the patch to a scratch copy of /repo/androguard and runs the given checks on it
N=$1; shift
WT=/tmp/seed_$N
[ -d $WT/_seed ] || { echo "no seed in $WT"; exit 2; }
cd $WT || exit 2
git diff -- androguard > /tmp/seed_cur_$N.diff
cmp -s /tmp/seed_cur_$N.diff _seed/patch.diff || echo "NOTE: worktree diff differs from _seed/patch.diff (using patch.diff)"
git checkout -q -- androguard; /venv/bin/python _seed/demo.py >/tmp/demo_$N.without 2>&1; WO=$?
git apply _seed/patch.diff; /venv/bin/python _seed/demo.py >/tmp/demo_$N.with 2>&1; W=$?
echo "demo: with change exit=$W, without exit=$WO"
mkdir -p /verif/seeded/$N; cp _seed/patch.diff _seed/demo.py _seed/meta.json /verif/seeded/$N/ 2>/dev/null
S=/dev/shm/seedrun_$N; rm -rf $S; mkdir -p $S; rsync -a /repo/androguard $S/
(cd $S && patch -p1 -s < /verif/seeded/$N/patch.diff) || { echo "patch does not apply"; exit 2; }
cd /verif
for P in "$@"; do VERIF_REPO=$S VERIF_OUT=/dev/shm/seedout_$N timeout 1500 ./check $P 2>&1 | grep -c "^VIOLATION" | sed "s/^/$P violations: /"; VERIF_REPO=$S VERIF_OUT=/dev/shm/seedout_$N timeout 1500 ./check $P 2>&1 | tail -1; done
rm -rf $S
